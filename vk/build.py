"""Build one Verus file per unit from /repo's current working tree + overlays, run Verus, classify."""
import os, re, sys, json, hashlib, subprocess, time, difflib, importlib.util, tempfile

HERE = os.path.dirname(os.path.abspath(__file__))
sys.path.insert(0, HERE)
import rustcut, rules  # noqa: E402
from rustcut import LostAnchor  # noqa: E402
from rules import Unsupported  # noqa: E402

REPO = os.environ.get('VERIF_REPO', '/repo')
VERIF = os.path.dirname(HERE)
CACHE = os.path.join(VERIF, '.cache')


class Inconclusive(Exception):
    pass


def load_unit(name):
    path = os.path.join(HERE, 'units', name, 'unit.py')
    spec = importlib.util.spec_from_file_location('unit_' + name, path)
    mod = importlib.util.module_from_spec(spec)
    spec.loader.exec_module(mod)
    u = mod.UNIT
    u['dir'] = os.path.dirname(path)
    u.setdefault('name', name)
    return u


def all_units():
    d = os.path.join(HERE, 'units')
    return sorted(n for n in os.listdir(d) if os.path.exists(os.path.join(d, n, 'unit.py')))


def norm(line):
    return re.sub(r'\s+', ' ', line.strip())


def read_overlay(path):
    """returns (base_lines, ghosts) ; ghosts[i] = list of ghost lines placed before base line i
    (i == len(base) means at the very end)."""
    base, ghosts, cur = [], {}, []
    if not os.path.exists(path):
        return None, None
    for raw in open(path).read().split('\n'):
        if raw.startswith('+'):
            cur.append(raw[1:])
        elif raw.strip() == '' or raw.startswith('#'):
            continue
        else:
            if not raw.startswith(' '):
                raise Inconclusive('overlay %s: line without marker: %r' % (path, raw))
            if cur:
                ghosts[len(base)] = cur
                cur = []
            base.append(raw[1:])
    if cur:
        ghosts[len(base)] = cur
    return base, ghosts


CONTRACT_LINE = re.compile(r'^\s*(requires|ensures|invariant|invariant_except_break|decreases|recommends)\b')


def merge_overlay(code_lines, base, ghosts):
    """Insert ghost blocks into the current code.  Returns (merged_lines, in_sync, tags) where tags[i]
    is 'c' (code), 'g' (ghost) or 'u' (ghost proof hint whose neighbouring code lines have changed: "unplaced") for each
    merged line.  Contract clauses (requires / ensures / invariant / decreases and their continuation lines) are never 'u'."""
    # the numbering of the `__qN` temporaries that the `?` rule introduces is positional: ignore it when aligning, and
    # rename it in the ghost lines that follow a renumbered temporary
    qn = lambda l: re.sub(r'__q\d+', '__q', l)
    cn = [qn(norm(l)) for l in code_lines]
    bn = [qn(norm(l)) for l in base]
    in_sync = [norm(l) for l in code_lines] == [norm(l) for l in base]
    pos = {}  # base index -> current index
    same = set()  # base indices whose line is unchanged
    nothing_new = True
    if in_sync:
        for i in range(len(base) + 1):
            pos[i] = i
        same = set(range(len(base)))
    else:
        sm = difflib.SequenceMatcher(None, bn, cn, autojunk=False)
        nothing_new = True   # no line was inserted, moved in or rewritten: only in-place edits and deletions
        for tag, i1, i2, j1, j2 in sm.get_opcodes():
            if tag == 'insert' or (tag == 'replace' and i2 - i1 != j2 - j1):
                nothing_new = False
            if tag == 'equal':
                for d in range(i2 - i1):
                    pos[i1 + d] = j1 + d
                    same.add(i1 + d)
            elif tag == 'replace' and i2 - i1 == j2 - j1:
                # the same number of lines: line k of the old block stands where line k of the new block stands.  A pair of
                # lines that are still much alike (an operator, a literal, an operand edited in place) keeps its place as an
                # anchor of the neighbouring proof hints; a pair that has little in common (code moved or rewritten) does not
                for d in range(i2 - i1):
                    pos[i1 + d] = j1 + d
                    if difflib.SequenceMatcher(None, bn[i1 + d], cn[j1 + d], autojunk=False).ratio() >= 0.75:
                        same.add(i1 + d)
                    else:
                        nothing_new = False
            else:
                for i in range(i1, i2):
                    pos[i] = j1 if i == i1 else j2
        pos[len(base)] = len(code_lines)
    # __qN renumbering: base temp number -> current temp number, taken from aligned `let __qN =` lines
    ren = {}
    for bi in same:
        if bn[bi] != cn[pos[bi]]:
            continue
        mb = re.search(r'\blet (__q\d+)\b', base[bi])
        mc = re.search(r'\blet (__q\d+)\b', code_lines[pos[bi]])
        if mb and mc and mb.group(1) != mc.group(1):
            ren[mb.group(1)] = mc.group(1)
    inserts = {}
    for bi, g in ghosts.items():
        # a function from which statements were only deleted (nothing inserted anywhere, so nothing was moved) keeps every
        # hint where it was: a hint that fails then fails for want of the deleted statement
        placed = in_sync or nothing_new or ((bi == 0 or (bi - 1) in same) and (bi >= len(base) or bi in same))
        out = []
        contract = False
        for l in g:
            if ren:
                l = re.sub(r'__q\d+\b', lambda m: ren.get(m.group(0), m.group(0)), l)
            if CONTRACT_LINE.match(l):
                contract = True
            elif re.match(r'^\s*(proof\b|assert\b|let ghost\b|\{|//)', l):
                contract = False
            out.append((l, 'g' if (placed or contract) else 'u'))
        inserts.setdefault(pos.get(bi, len(code_lines)), []).extend(out)
    merged, tags = [], []
    for j in range(len(code_lines) + 1):
        for g, t in inserts.get(j, []):
            merged.append(g)
            tags.append(t)
        if j < len(code_lines):
            merged.append(code_lines[j])
            tags.append('c')
    return merged, in_sync, tags


def sha(s):
    return hashlib.sha256(s.encode()).hexdigest()[:16]


def extract_function(f):
    """f: function entry of a unit.  returns dict(text(lines), src_line, sha, rules, fmt)"""
    src = open(os.path.join(REPO, f['file'])).read()
    if f.get('closure'):
        raise Unsupported('closure extraction not implemented')
    text, line = rustcut.cut_fn(src, f['name'], f.get('impl'), f.get('nth', 0))
    ctx = rules.Ctx()
    out = rules.apply_rules(text, ctx, f.get('rules'))
    if f.get('rename'):
        out = re.sub(r'\bfn\s+' + re.escape(f['name']) + r'\b', 'fn ' + f['rename'], out, count=1)
    return dict(lines=[l for l in out.split('\n') if l.strip() != ''], src_line=line, sha=sha(text), applied=ctx.applied, fmt=ctx.fmt, lits=ctx.lits, fmt_nargs=getattr(ctx, 'fmt_nargs', {}))


def extract_type(t):
    src = open(os.path.join(REPO, t['file'])).read()
    if t['kind'] == 'const':
        text, line = rustcut.cut_const(src, t['name'])
    else:
        text, line = rustcut.cut_type(src, t['kind'], t['name'])
    ctx = rules.Ctx()
    text = rustcut.strip_comments(text)
    dm = re.search(r'^[ \t]*#\[derive\(([^\]]*)\)\]\s*\n', text, flags=re.M)
    has_copy = bool(dm and re.search(r'\bCopy\b', dm.group(1)))
    text = re.sub(r'^[ \t]*#\[derive\([^\]]*\)\]\s*\n', '', text, flags=re.M)
    if has_copy and not t.get('structural'):
        text = '#[derive(Clone, Copy)]\n' + text
    if t.get('structural'):
        # fieldless enum compared with `==` in the code: derived PartialEq is structural equality
        text = '#[derive(PartialEq, Eq, Clone, Copy, Structural)]\n' + text
    text = re.sub(r'^[ \t]*#\[default\]\s*\n', '', text, flags=re.M)
    if t['kind'] == 'struct':
        # R12: visibility is irrelevant inside the generated module
        text = re.sub(r'^([ \t]+)(\w+\s*:)', r'\1pub \2', text, flags=re.M)
    text = rules.r1_bytes(text, ctx)
    text = rules.custom_subst(text, ctx, t.get('subst'))
    return dict(text=text, src_line=line, sha=sha(text), applied=ctx.applied)


def fkey(f):
    imp = f.get('key_impl') or f.get('impl') or ''
    return (imp + '::' if imp else '') + (f.get('rename') or f['name'])


def ov_path(unit, f):
    nm = f.get('overlay') or (fkey(f).replace('::', '.').replace(' ', '_').replace('<', '_').replace('>', '_') + '.ov')
    return os.path.join(unit['dir'], 'ov', nm)


def build_unit(unit, canary=False, mutate=None, strict=True, only=None):
    """returns dict(text, functions=[...], lines_map) ; raises Inconclusive"""
    parts = ['// GENERATED from %s working tree by vk/build.py -- never stored, never edited' % REPO,
             '#![allow(unused_imports, unused_variables, unused_mut, dead_code, unused_parens, non_snake_case, unused_assignments, unreachable_code, non_camel_case_types, unused_braces)]',
             'use vstd::prelude::*;', 'verus! {']
    info = dict(functions=[], types=[], fmt={}, drift=[], lits={}, fmt_nargs={}, unknown_fmt=[])
    for p in unit.get('prelude', []):
        parts.append('// ---- prelude ' + p)
        parts.append(open(os.path.join(HERE, 'prelude', p)).read())
    for t in unit.get('types', []):
        try:
            et = extract_type(t)
        except LostAnchor as e:
            raise Inconclusive(str(e))
        parts.append('// ---- type %s (%s:%d)' % (t['name'], t['file'], et['src_line']))
        parts.append(et['text'])
        info['types'].append(dict(name=t['name'], file=t['file'], line=et['src_line'], sha=et['sha'], rules=et['applied']))
    for s in unit.get('spec', ['spec.rs']):
        sp = os.path.join(unit['dir'], s)
        if os.path.exists(sp):
            parts.append('// ---- unit spec ' + s)
            parts.append(open(sp).read())
    # functions grouped by emit container, in unit order
    groups = []
    for f in unit['functions']:
        if only and fkey(f).split('::')[-1] not in only and fkey(f) not in only:
            continue
        cont = f.get('emit_impl', ('impl ' + f['impl']) if f.get('impl') else None)
        if groups and groups[-1][0] == cont:
            groups[-1][1].append(f)
        else:
            groups.append((cont, [f]))
    marks = []  # (start_line_index_in_output, fkey, tags)
    for cont, fs in groups:
        if cont:
            parts.append(cont + ' {')
        for f in fs:
            try:
                ef = extract_function(f)
            except LostAnchor as e:
                raise Inconclusive(str(e))
            except Unsupported as e:
                raise Inconclusive('unsupported construct in %s: %s' % (fkey(f), e))
            code = ef['lines']
            if mutate and mutate.get('fn') == fkey(f):
                joined = '\n'.join(code)
                if mutate['find'] not in joined:
                    raise Inconclusive('built-in mutant %s: text not found' % mutate.get('id'))
                code = [l for l in joined.replace(mutate['find'], mutate['replace'], 1).split('\n') if l.strip() != '']
            base, ghosts = read_overlay(ov_path(unit, f))
            if base is None:
                base, ghosts = code, {}
            merged, in_sync, tags = merge_overlay(code, base, ghosts)
            if not in_sync and not mutate:
                info['drift'].append(fkey(f))
            if canary:
                # first line consisting of '{' alone that is code = body start
                for idx, (l, tg) in enumerate(zip(merged, tags)):
                    if tg == 'c' and l.strip() == '{':
                        merged.insert(idx + 1, '    proof { assert(false); } // CANARY')
                        tags.insert(idx + 1, 'g')
                        break
                else:
                    raise Inconclusive('canary: body start of %s not found' % fkey(f))
            info['fmt'].update(ef['fmt'])
            info['fmt_nargs'].update(ef['fmt_nargs'])
            info['lits'].update(ef['lits'])
            marks.append((sum(p.count('\n') + 1 for p in parts), fkey(f), len(merged), [k for k, t in enumerate(tags) if t == 'u']))
            parts.append('\n'.join(merged))
            info['functions'].append(dict(key=fkey(f), file=f['file'], line=ef['src_line'], sha=ef['sha'], rules=ef['applied'],
                                          props=f.get('props', unit.get('properties', [])), variant=f.get('variant', 'functional'),
                                          overlay_in_sync=in_sync, ghost_lines=tags.count('g') + tags.count('u'), unplaced_hint_lines=tags.count('u'), code_lines=tags.count('c'),
                                          verus_name=f.get('verus_name')))
        if cont:
            parts.append('}')
    if info['lits']:
        parts.append('// ---- byte-string literals (R1), verified definitions')
        for nm in sorted(info['lits']):
            parts.append(rules.lit_definition(nm, info['lits'][nm]))
    for s in unit.get('post', []):
        sp = os.path.join(unit['dir'], s)
        parts.append('// ---- unit lemmas ' + s)
        parts.append(open(sp).read())
    parts.append('} // verus!')
    parts.append('fn main() {}')
    text = '\n'.join(parts) + '\n'
    info['marks'] = marks
    # every fmt shim used must be declared in the prelude/spec with the same literal.  A literal nobody declared
    # (the source changed) gets an uninterpreted shim: nothing can be proved about its output, so the caller's
    # contract fails instead of the run being inconclusive.
    extra = []
    for h, lit in (info['fmt'].items() if strict else []):
        decl = re.search(r'//\s*LIT\s+fmt_%s\s*:\s*"(.*)"\s*$' % h, text, re.M)
        if not decl:
            n = info['fmt_nargs'].get(h, 0)
            gens = ''.join(', A%d' % i for i in range(n))
            params = ''.join(', a%d: A%d' % (i, i) for i in range(n))
            extra.append('// unknown format literal "%s"\npub uninterp spec fn fmt_unknown_%s() -> Seq<u8>;\n#[verifier::external_body]\n'
                         'pub fn fmt_%s<W: Write%s>(file: &mut W%s) -> (r: Result<()>)\n    ensures wrote(*old(file), *final(file), r is Ok, fmt_unknown_%s())\n{ unimplemented!() }'
                         % (lit, h, h, gens, params, h))
            info['unknown_fmt'].append(lit)
        elif decl.group(1) != lit:
            raise Inconclusive('fmt shim fmt_%s declared for "%s" but source has "%s"' % (h, decl.group(1), lit))
    if extra:
        text = text.replace('} // verus!', '\n'.join(extra) + '\n} // verus!')
    return text, info


def run_verus(path, rlimit=60, extra=None, timeout=900):
    cmd = ['verus', path, '--output-json', '--time', '--multiple-errors', '20', '--rlimit', str(rlimit), '--error-format=json']
    if extra:
        cmd += extra
    t0 = time.time()
    try:
        p = subprocess.run(cmd, capture_output=True, text=True, timeout=timeout, cwd=os.path.dirname(path))
    except subprocess.TimeoutExpired:
        return dict(cmd=' '.join(cmd), timeout=True, wall=time.time() - t0, diagnostics=[], json=None, rc=-1)
    js = None
    try:
        js = json.loads(p.stdout[p.stdout.index('{'):])
    except Exception:
        pass
    diags = []
    for line in p.stderr.split('\n'):
        line = line.strip()
        if line.startswith('{'):
            try:
                d = json.loads(line)
            except Exception:
                continue
            if d.get('level') in ('error', 'warning'):
                diags.append(d)
    return dict(cmd=' '.join(cmd), timeout=False, wall=time.time() - t0, diagnostics=diags, json=js, rc=p.returncode, stderr=p.stderr[-4000:])


VERIF_ERR = ('postcondition not satisfied', 'precondition not satisfied', 'assertion failed', 'invariant not satisfied',
             'possible arithmetic underflow/overflow', 'possible division by zero', 'decreases not satisfied',
             'could not prove termination', 'recommendation not met', 'possible bit shift', 'index out of bounds',
             'loop invariant', 'failed this postcondition', 'failed precondition', 'unreachable', 'possible truncation',
             'invariant not satisfied before loop', 'invariant not satisfied at end of loop body', 'possible overflow',
             'cannot show invariant', 'constructed value may fail', 'precondition not met')
RESOURCE_ERR = ('Resource limit', 'rlimit', 'timed out', 'Verus Internal Error')


def classify(res, info, unit_name):
    """returns dict(verified_fns, failed=[{fn,msg,line,text}], inconclusive=[...], total_verified, total_errors)"""
    out = dict(failed=[], inconclusive=[], verified=[], times={}, total_verified=0, total_errors=0)
    if res['timeout']:
        out['inconclusive'].append('verus timed out')
        return out
    js = res['json']
    if not js:
        out['inconclusive'].append('verus produced no JSON (rc=%s): %s' % (res['rc'], res.get('stderr', '')[-800:]))
        return out
    vr = js.get('verification-results', {})
    out['total_verified'] = vr.get('verified', 0)
    out['total_errors'] = vr.get('errors', 0)
    # per function times/success
    try:
        for mod in js['times-ms']['smt']['smt-run-module-times']:
            for fb in mod.get('function-breakdown', []):
                nm = fb['function'].split('::', 1)[1] if '::' in fb['function'] else fb['function']
                out['times'][nm] = dict(ms=fb['time'], rlimit=fb['rlimit'], success=fb['success'], mode=fb.get('mode:'))
    except Exception:
        pass
    marks = info['marks']

    def fn_of_line(ln):
        best = None
        for mk in marks:
            start, key, n = mk[0], mk[1], mk[2]
            if start < ln <= start + n:
                best = (key, ln - start)
        return best

    def unplaced(ln):
        for mk in marks:
            start, key, n = mk[0], mk[1], mk[2]
            if start < ln <= start + n and len(mk) > 3:
                return (ln - start - 1) in mk[3]
        return False

    hard = False
    for d in res['diagnostics']:
        if d.get('level') != 'error':
            continue
        msg = d.get('message', '')
        if msg.startswith('aborting due to'):
            continue
        spans = d.get('spans') or []
        prim = [s for s in spans if s.get('is_primary')] or spans
        ln = prim[0]['line_start'] if prim else 0
        txt = (prim[0]['text'][0]['text'].strip() if prim and prim[0].get('text') else '')
        # for postcondition failures the primary span is the return point; a secondary span is the ensures clause
        alln = [s['line_start'] for s in spans]
        where = None
        for l in [ln] + alln:
            where = fn_of_line(l)
            if where:
                break
        # Verus only reaches the solver when the front end accepted the file: once it reports verification results without a
        # VIR error, every error diagnostic is a failed obligation, whatever its wording
        ran = (vr.get('verified', 0) + vr.get('errors', 0)) > 0 and not vr.get('encountered-vir-error')
        is_verif = any(k in msg for k in VERIF_ERR) or (ran and vr.get('errors', 0) > 0)
        is_res = any(k in msg for k in RESOURCE_ERR)
        rec = dict(msg=msg, gen_line=ln, text=txt, fn=where[0] if where else None,
                   labels=[(s.get('label') or '') + ' @' + str(s['line_start']) + ': ' + (s['text'][0]['text'].strip() if s.get('text') else '') for s in spans],
                   rendered=d.get('rendered', '')[:1500])
        if is_res:
            out['inconclusive'].append('%s: %s' % (rec['fn'], msg))
        elif is_verif and unplaced(ln):
            # the failed obligation is a proof hint (assert / lemma call) whose neighbouring code lines have changed: the
            # hint may simply no longer be where it belongs.  Undecided, not a violation; contract clauses and obligations
            # of the code itself (postconditions, invariants, callee preconditions, overflow, index) are never treated so.
            out['inconclusive'].append('%s: proof hint next to changed code no longer holds (%s @ %d: %s) - undecided by this step' % (rec['fn'], msg, ln, txt[:80]))
        elif is_verif:
            out['failed'].append(rec)
        else:
            hard = True
            out['inconclusive'].append('verus front-end error: %s @ %d: %s' % (msg, ln, txt))
    if vr.get('encountered-vir-error') or (vr.get('encountered-error') and not out['failed'] and not out['inconclusive']):
        hard = True
        if not out['inconclusive']:
            out['inconclusive'].append('verus encountered an error (rc=%s): %s' % (res['rc'], res.get('stderr', '')[-600:]))
    if vr.get('errors', 0) and not out['failed'] and not out['inconclusive']:
        out['inconclusive'].append('verus reports %d errors but none could be parsed' % vr['errors'])
    return out


def check_unit(name, canary=True, rlimit=None, keep=False, mutate=None):
    """Full run of one unit: build, verify, (canary).  Returns a result dict; never raises."""
    t0 = time.time()
    r = dict(unit=name, ok=False, inconclusive=[], failed=[], functions=[], wall=0.0)
    try:
        unit = load_unit(name)
        text, info = build_unit(unit, mutate=mutate)
    except Inconclusive as e:
        r['inconclusive'].append(str(e))
        r['wall'] = time.time() - t0
        return r
    os.makedirs(os.path.join(CACHE, 'gen'), exist_ok=True)
    tag = ('__' + re.sub(r'\W', '_', mutate['id'])) if mutate else ''
    path = os.path.join(CACHE, 'gen', 'vk_%s%s.rs' % (name, tag))
    open(path, 'w').write(text)
    # main run and canary run proceed concurrently (two solver processes)
    import concurrent.futures as _cf
    cfut = None
    ex = _cf.ThreadPoolExecutor(max_workers=2)
    cpath = os.path.join(CACHE, 'gen', 'vk_%s__canary.rs' % name)
    cinfo = None
    if canary and not mutate:
        try:
            ctext, cinfo = build_unit(unit, canary=True)
            open(cpath, 'w').write(ctext)
            cfut = ex.submit(run_verus, cpath, rlimit or unit.get('rlimit', 60))
        except Inconclusive as e:
            r['inconclusive'].append('canary: ' + str(e))
    res = run_verus(path, rlimit or unit.get('rlimit', 60))
    c = classify(res, info, name)
    r.update(info=info, verus_cmd=res['cmd'], verus_wall=res['wall'], total_verified=c['total_verified'], total_errors=c['total_errors'],
             failed=c['failed'], inconclusive=r['inconclusive'] + c['inconclusive'], times=c['times'], gen_path=path)
    r['drift'] = info['drift']
    # declared function set must be present in verus' report
    declared = [f['key'] for f in info['functions']]
    r['functions'] = info['functions']
    if not c['failed'] and not c['inconclusive']:
        if c['total_verified'] < len(declared) or c['total_verified'] == 0:
            r['inconclusive'].append('vacuity: verus verified %d items, unit declares %d functions' % (c['total_verified'], len(declared)))
    if cfut is not None:
        cres = cfut.result()
        if not c['failed'] and not c['inconclusive']:
            cc = classify(cres, cinfo, name)
            if cc['inconclusive']:
                r['inconclusive'].append('canary: ' + '; '.join(cc['inconclusive'])[:600])
            else:
                failed_fns = set(x['fn'] for x in cc['failed'])
                missing = [k for k in declared if k not in failed_fns]
                r['canary'] = dict(expected=len(declared), failed_as_required=len(declared) - len(missing), wall=cres['wall'])
                if missing:
                    r['inconclusive'].append('canary: assert(false) verified inside %s (vacuous contract?)' % ', '.join(missing))
        if not keep and os.path.exists(cpath):
            os.remove(cpath)
    ex.shutdown(wait=False)
    r['ok'] = not r['failed'] and not r['inconclusive']
    r['wall'] = time.time() - t0
    return r


def scan_trusted(unit_name):
    """mechanical scan for assumptions in the prelude/spec/overlays of a unit"""
    unit = load_unit(unit_name)
    files = [os.path.join(HERE, 'prelude', p) for p in unit.get('prelude', [])]
    for s in unit.get('spec', ['spec.rs']) + unit.get('post', []):
        if os.path.exists(os.path.join(unit['dir'], s)):
            files.append(os.path.join(unit['dir'], s))
    ovd = os.path.join(unit['dir'], 'ov')
    if os.path.isdir(ovd):
        files += [os.path.join(ovd, f) for f in sorted(os.listdir(ovd))]
    found = []
    forbidden = []
    for fp in files:
        txt = open(fp).read()
        lines = txt.split('\n')
        for i, l in enumerate(lines):
            code = l.split('//')[0]
            if re.search(r'\b(assume|admit)\s*\(', code):
                if 'AXIOM:' in l or (i > 0 and 'AXIOM:' in lines[i - 1]):
                    found.append('axiom %s:%d %s' % (os.path.relpath(fp, VERIF), i + 1, l.strip()[:100]))
                else:
                    forbidden.append('%s:%d %s' % (os.path.relpath(fp, VERIF), i + 1, l.strip()))
            if 'external_body' in code or 'assume_specification' in code or 'uninterp spec fn' in code or 'external_type_specification' in code:
                # name the item on this or the following lines
                nm = ''
                for k in range(i, min(i + 4, len(lines))):
                    m = re.search(r'\b(?:fn|struct|uninterp spec fn|assume_specification\S*)\s*(?:\[)?\s*([A-Za-z_<][\w:<>\[\], ]*)', lines[k])
                    if m:
                        nm = m.group(0).strip()[:80]
                        break
                found.append('%s %s:%d %s' % ('trusted', os.path.relpath(fp, VERIF), i + 1, nm))
    return found, forbidden


if __name__ == '__main__':
    import argparse
    ap = argparse.ArgumentParser()
    ap.add_argument('cmd', choices=['gen', 'show', 'check', 'bootstrap'])
    ap.add_argument('unit')
    ap.add_argument('--fn')
    ap.add_argument('--only')
    ap.add_argument('--no-canary', action='store_true')
    a = ap.parse_args()
    if a.cmd == 'bootstrap':
        unit = load_unit(a.unit)
        for f in unit['functions']:
            if a.fn and fkey(f) != a.fn:
                continue
            p = ov_path(unit, f)
            if os.path.exists(p):
                print('exists', p)
                continue
            ef = extract_function(f)
            os.makedirs(os.path.dirname(p), exist_ok=True)
            open(p, 'w').write('\n'.join(' ' + l for l in ef['lines']) + '\n')
            print('wrote', p)
    elif a.cmd in ('gen', 'show'):
        unit = load_unit(a.unit)
        text, info = build_unit(unit, strict=(a.cmd != 'show'), only=a.only.split(',') if a.only else None)
        if a.cmd == 'show':
            print('// fmt shims:', info['fmt'])
            print(text)
        else:
            os.makedirs(os.path.join(CACHE, 'gen'), exist_ok=True)
            path = os.path.join(CACHE, 'gen', 'vk_%s.rs' % a.unit)
            open(path, 'w').write(text)
            print(path, 'drift:', info['drift'])
    else:
        r = check_unit(a.unit, canary=not a.no_canary, keep=True)
        print(json.dumps({k: v for k, v in r.items() if k not in ('info',)}, indent=1, default=str)[:6000])
