// ===== the pending bookmark forest: Document as far as add_bookmark sees it =====
/// std::collections::HashMap<u32, Bookmark> as far as add_bookmark uses it (R8): a finite map; `get_mut` lends the stored
/// value, and what the borrower leaves in it is the map's new value at that key - nothing else changes.
#[verifier::external_body]
#[verifier::reject_recursive_types(K)]
#[verifier::reject_recursive_types(V)]
pub struct VHashMap<K, V> { m: std::collections::HashMap<K, V> }
impl<K: std::cmp::Eq + std::hash::Hash, V> VHashMap<K, V> {
    pub uninterp spec fn view(&self) -> Map<K, V>;
    #[verifier::external_body]
    pub fn get(&self, k: &K) -> (r: Option<&V>)
        ensures match r { Some(v) => self@.contains_key(*k) && *v == self@[*k], None => !self@.contains_key(*k) }
    { self.m.get(k) }
    #[verifier::external_body]
    pub fn get_mut(&mut self, k: &K) -> (r: Option<&mut V>)
        ensures match r {
            Some(v) => old(self)@.contains_key(*k) && *v == old(self)@[*k] && final(self)@ == old(self)@.insert(*k, *final(v)),
            None => !old(self)@.contains_key(*k) && final(self)@ == old(self)@,
        }
    { self.m.get_mut(k) }
    #[verifier::external_body]
    pub fn insert(&mut self, k: K, v: V) -> (r: Option<V>)
        ensures final(self)@ == old(self)@.insert(k, v)
    { self.m.insert(k, v) }
}
pub struct Document { pub max_bookmark_id: u32, pub bookmarks: Vec<u32>, pub bookmark_table: VHashMap<u32, Bookmark> }

/// representation invariant of the pending forest: every bookmark of the table has an id in 1 ..= max_bookmark_id and is
/// stored under its own id, so the next id is one no bookmark carries
pub open spec fn forest_wf(d: &Document) -> bool {
    forall|k: u32| #[trigger] d.bookmark_table@.contains_key(k) ==> 1 <= k <= d.max_bookmark_id && d.bookmark_table@[k].id == k
}
/// `a` is `b` with `id` appended to its children and nothing else changed
pub open spec fn is_with_child(a: Bookmark, b: Bookmark, id: u32) -> bool {
    a.children@ == b.children@.push(id) && a.title == b.title && a.format == b.format && a.color == b.color && a.page == b.page && a.id == b.id
}
/// `a` is `b` under the identifier `id`, everything else as handed in
pub open spec fn is_with_id(a: Bookmark, b: Bookmark, id: u32) -> bool {
    a.children == b.children && a.title == b.title && a.format == b.format && a.color == b.color && a.page == b.page && a.id == id
}
/// the pending forest is a forest: a child was attached after its parent, so it carries a greater id, and it is a bookmark of
/// the table. Every chain of children therefore ends (ids rise and stay within max_bookmark_id) - what the recursive walks
/// over the table (outline_child, recursive_fix_pages, update_bookmark_pages) need in order to terminate.
pub open spec fn forest_ordered(d: &Document) -> bool {
    forall|k: u32, i: int| #![trigger d.bookmark_table@[k].children@[i]]
        d.bookmark_table@.contains_key(k) && 0 <= i < d.bookmark_table@[k].children@.len()
        ==> d.bookmark_table@[k].children@[i] > k && d.bookmark_table@.contains_key(d.bookmark_table@[k].children@[i])
}

// ----- adjust_zero_pages / recursive_fix_pages: what may change, and why the walk ends -----
/// `b` is `a` except for the pages of zero-page parents: lists, ids, children, the key set, and the page of every bookmark that
/// has a real page or no children are as before (title, colour and format too: see `same_but_page`)
pub open spec fn only_zero_pages_fixed(a: &Document, b: &Document) -> bool {
    b.max_bookmark_id == a.max_bookmark_id && b.bookmarks == a.bookmarks && b.bookmark_table@.dom() == a.bookmark_table@.dom()
    && forall|k: u32| #[trigger] a.bookmark_table@.contains_key(k) ==> same_but_page(a.bookmark_table@[k], b.bookmark_table@[k])
}
pub open spec fn same_but_page(x: Bookmark, y: Bookmark) -> bool {
    y.children == x.children && y.id == x.id && y.title == x.title && y.format == x.format && y.color == x.color
    && (x.page.0 != 0 || x.children@.len() == 0 ==> y.page == x.page)
}
pub open spec fn all_above(s: Seq<u32>, lb: int) -> bool { forall|i: int| 0 <= i < s.len() ==> s[i] > lb }
/// the smallest id of a list (2^32 for the empty list): the termination measure of the walk is max_bookmark_id + 1 - seq_min(list),
/// which falls from a list to the children of any of its members because children carry greater ids (forest_ordered)
pub open spec fn seq_min(s: Seq<u32>) -> int decreases s.len() {
    if s.len() == 0 { u32::MAX as int + 1 } else { let m = seq_min(s.drop_last()); if (s.last() as int) < m { s.last() as int } else { m } }
}
proof fn lemma_min_le(s: Seq<u32>, i: int) requires 0 <= i < s.len() ensures seq_min(s) <= s[i] decreases s.len() {
    if i < s.len() - 1 { lemma_min_le(s.drop_last(), i); }
}
proof fn lemma_min_above(s: Seq<u32>, lb: int) requires all_above(s, lb), s.len() > 0 ensures seq_min(s) > lb, seq_min(s) <= u32::MAX decreases s.len() {
    let t = s.drop_last();
    assert(s.last() > lb);
    if t.len() == 0 {
        assert(seq_min(t) == u32::MAX as int + 1);
    } else {
        assert(all_above(t, lb)) by { assert forall|i: int| 0 <= i < t.len() implies t[i] > lb by { assert(t[i] == s[i]); } }
        lemma_min_above(t, lb);
    }
    assert(seq_min(s) == if (s.last() as int) < seq_min(t) { s.last() as int } else { seq_min(t) });
}

// ----- which page a zero-page parent receives -----
/// zero-page parent: no page of its own (object number 0) and at least one child
/// eff_page(t, id): the page bookmark `id` stands for: its own, or - for a zero-page parent - the first real page among its children
/// taken in order, each child standing for its own eff_page (so: the first real page in the subtree in depth-first order, where a
/// real page of a node ends the descent). first_real(t, lb, list, from) is that search over list[from..]; it ends with (0, 0) at an
/// id the table does not hold. `lb` (the parent's id, -1 for a top-level list) only makes the definition well-founded: under
/// forest_ordered every member of a child list is greater than lb.
pub open spec fn zpp(b: Bookmark) -> bool { b.page.0 == 0 && b.children@.len() > 0 }
pub spec const M: int = 0x1_0000_0000;
pub open spec fn eff_page(t: Map<u32, Bookmark>, id: u32) -> ObjectId
    decreases M - id, 0int
{
    if t.contains_key(id) && zpp(t[id]) { first_real(t, id as int, t[id].children@, 0) }
    else if t.contains_key(id) { t[id].page } else { (0u32, 0u16) }
}
pub open spec fn first_real(t: Map<u32, Bookmark>, lb: int, list: Seq<u32>, from: int) -> ObjectId
    decreases M - lb - 1, list.len() - from + 1
{
    if from < 0 || from >= list.len() || lb < -1 || lb >= M { (0u32, 0u16) }
    else {
        let id = list[from];
        if !t.contains_key(id) || id <= lb { (0u32, 0u16) }
        else {
            let p = eff_page(t, id);
            if p.0 != 0 { p } else { first_real(t, lb, list, from + 1) }
        }
    }
}
pub open spec fn rel(a: Map<u32, Bookmark>, b: Map<u32, Bookmark>) -> bool {
    a.dom() == b.dom() && forall|k: u32| #[trigger] a.contains_key(k) ==>
        same_but_page(a[k], b[k]) && (b[k].page == a[k].page || (zpp(a[k]) && b[k].page == eff_page(a, k)))
}
proof fn lemma_stable_eff(a: Map<u32, Bookmark>, b: Map<u32, Bookmark>, id: u32)
    requires rel(a, b) ensures eff_page(b, id) == eff_page(a, id) decreases M - id, 0int
{
    if a.contains_key(id) {
        assert(b.contains_key(id));
        lemma_stable_first(a, b, id as int, a[id].children@, 0);
    }
}
proof fn lemma_stable_first(a: Map<u32, Bookmark>, b: Map<u32, Bookmark>, lb: int, list: Seq<u32>, from: int)
    requires rel(a, b) ensures first_real(b, lb, list, from) == first_real(a, lb, list, from) decreases M - lb - 1, list.len() - from + 1
{
    if from < 0 || from >= list.len() || lb < -1 || lb >= M { }
    else {
        let id = list[from];
        if a.contains_key(id) {
            assert(b.contains_key(id));
            if id > lb { lemma_stable_eff(a, b, id); lemma_stable_first(a, b, lb, list, from + 1); }
            //(a, b, lb, list, from + 1);
        } else { assert(!b.contains_key(id)); }
    }
}
proof fn lemma_lb(t: Map<u32, Bookmark>, lb1: int, lb2: int, list: Seq<u32>, from: int)
    requires all_above(list, lb1), all_above(list, lb2), -1 <= lb1 < M, -1 <= lb2 < M
    ensures first_real(t, lb1, list, from) == first_real(t, lb2, list, from) decreases list.len() - from
{
    if 0 <= from < list.len() { lemma_lb(t, lb1, lb2, list, from + 1); }
}
proof fn lemma_rel_trans(a: Map<u32, Bookmark>, b: Map<u32, Bookmark>, c: Map<u32, Bookmark>)
    requires rel(a, b), rel(b, c) ensures rel(a, c)
{
    assert forall|k: u32| #[trigger] a.contains_key(k) implies
        same_but_page(a[k], c[k]) && (c[k].page == a[k].page || (zpp(a[k]) && c[k].page == eff_page(a, k))) by {
        assert(b.contains_key(k));
        lemma_stable_eff(a, b, k);
    }
}

// ----- the outer walk (`first` mode): every bookmark below the list ends up with the page it stands for -----
/// all_fixed(t0, tf, lb, list, n): for each of the first n members of `list` (each a bookmark of t0 with an id above lb), its page
/// in tf is eff_page on t0, and the same holds for its children, and theirs. list_in_table: the list names bookmarks of the table.
pub open spec fn list_in_table(t: Map<u32, Bookmark>, list: Seq<u32>) -> bool { forall|i: int| 0 <= i < list.len() ==> t.contains_key(#[trigger] list[i]) }
pub open spec fn all_fixed(t0: Map<u32, Bookmark>, tf: Map<u32, Bookmark>, lb: int, list: Seq<u32>, n: int) -> bool
    decreases M - lb - 1, n
{
    if n <= 0 || n > list.len() || lb < -1 || lb >= M { true }
    else {
        let id = list[n - 1];
        all_fixed(t0, tf, lb, list, n - 1)
        && (t0.contains_key(id) && id > lb ==>
            tf[id].page == eff_page(t0, id) && all_fixed(t0, tf, id as int, t0[id].children@, t0[id].children@.len() as int))
    }
}
pub open spec fn keeps(t0: Map<u32, Bookmark>, tf: Map<u32, Bookmark>, tg: Map<u32, Bookmark>) -> bool {
    forall|k: u32| #[trigger] t0.contains_key(k) && tf[k].page == eff_page(t0, k) ==> tg[k].page == eff_page(t0, k)
}
proof fn lemma_keeps(t0: Map<u32, Bookmark>, tf: Map<u32, Bookmark>, tg: Map<u32, Bookmark>)
    requires rel(t0, tf), rel(tf, tg) ensures keeps(t0, tf, tg)
{
    assert forall|k: u32| #[trigger] t0.contains_key(k) && tf[k].page == eff_page(t0, k) implies tg[k].page == eff_page(t0, k) by {
        assert(tf.contains_key(k));
        lemma_stable_eff(t0, tf, k);
    }
}
proof fn lemma_mono(t0: Map<u32, Bookmark>, tf: Map<u32, Bookmark>, tg: Map<u32, Bookmark>, lb: int, list: Seq<u32>, n: int)
    requires keeps(t0, tf, tg), all_fixed(t0, tf, lb, list, n) ensures all_fixed(t0, tg, lb, list, n) decreases M - lb - 1, n
{
    if n <= 0 || n > list.len() || lb < -1 || lb >= M { }
    else {
        let id = list[n - 1];
        lemma_mono(t0, tf, tg, lb, list, n - 1);
        if t0.contains_key(id) && id > lb {
            lemma_mono(t0, tf, tg, id as int, t0[id].children@, t0[id].children@.len() as int);
        }
    }
}
proof fn lemma_base(t0: Map<u32, Bookmark>, t1: Map<u32, Bookmark>, tf: Map<u32, Bookmark>, lb: int, list: Seq<u32>, n: int)
    requires rel(t0, t1) ensures all_fixed(t1, tf, lb, list, n) == all_fixed(t0, tf, lb, list, n) decreases M - lb - 1, n
{
    if n <= 0 || n > list.len() || lb < -1 || lb >= M { }
    else {
        let id = list[n - 1];
        lemma_base(t0, t1, tf, lb, list, n - 1);
        if t0.contains_key(id) {
            assert(t1.contains_key(id));
            if id > lb {
                lemma_stable_eff(t0, t1, id);
                lemma_base(t0, t1, tf, id as int, t0[id].children@, t0[id].children@.len() as int);
            }
        } else { assert(!t1.contains_key(id)); }
    }
}
proof fn lemma_lb_fixed(t0: Map<u32, Bookmark>, tf: Map<u32, Bookmark>, lb1: int, lb2: int, list: Seq<u32>, n: int)
    requires all_above(list, lb1), all_above(list, lb2), -1 <= lb1 < M, -1 <= lb2 < M
    ensures all_fixed(t0, tf, lb1, list, n) == all_fixed(t0, tf, lb2, list, n) decreases n
{
    if 0 < n <= list.len() { lemma_lb_fixed(t0, tf, lb1, lb2, list, n - 1); }
}

// ----- renumber_bookmarks / update_bookmark_pages (C10): bookmark targets follow a renamed page -----
/// the page a bookmark points at after `old` was renamed to `new`
pub open spec fn target(b: Bookmark, old: ObjectId, new: ObjectId) -> ObjectId { if b.page == old { new } else { b.page } }
pub open spec fn same_but_any_page(x: Bookmark, y: Bookmark) -> bool {
    y.children == x.children && y.id == x.id && y.title == x.title && y.format == x.format && y.color == x.color
}
/// `b` is `a` except that some pages equal to `old` became `new`: nothing else about any bookmark, and no list, changes
pub open spec fn renamed(a: &Document, b: &Document, old: ObjectId, new: ObjectId) -> bool {
    b.max_bookmark_id == a.max_bookmark_id && b.bookmarks == a.bookmarks && b.bookmark_table@.dom() == a.bookmark_table@.dom()
    && forall|k: u32| #[trigger] a.bookmark_table@.contains_key(k) ==> same_but_any_page(a.bookmark_table@[k], b.bookmark_table@[k])
        && (b.bookmark_table@[k].page == a.bookmark_table@[k].page || b.bookmark_table@[k].page == target(a.bookmark_table@[k], old, new))
}
/// every bookmark among the first n of `list`, and below them, points at its target
pub open spec fn all_renamed(t0: Map<u32, Bookmark>, tf: Map<u32, Bookmark>, lb: int, list: Seq<u32>, n: int, old: ObjectId, new: ObjectId) -> bool
    decreases M - lb - 1, n
{
    if n <= 0 || n > list.len() || lb < -1 || lb >= M { true }
    else {
        let id = list[n - 1];
        all_renamed(t0, tf, lb, list, n - 1, old, new)
        && (t0.contains_key(id) && id > lb ==>
            tf[id].page == target(t0[id], old, new) && all_renamed(t0, tf, id as int, t0[id].children@, t0[id].children@.len() as int, old, new))
    }
}
proof fn lemma_renamed_trans(a: &Document, b: &Document, c: &Document, old: ObjectId, new: ObjectId)
    requires renamed(a, b, old, new), renamed(b, c, old, new) ensures renamed(a, c, old, new)
{
    assert forall|k: u32| #[trigger] a.bookmark_table@.contains_key(k) implies same_but_any_page(a.bookmark_table@[k], c.bookmark_table@[k])
        && (c.bookmark_table@[k].page == a.bookmark_table@[k].page || c.bookmark_table@[k].page == target(a.bookmark_table@[k], old, new)) by {
        assert(b.bookmark_table@.contains_key(k));
    }
}
/// a bookmark that points at its target keeps doing so under further renaming steps of the same (old, new)
proof fn lemma_ren_mono(t0: Map<u32, Bookmark>, b: &Document, c: &Document, lb: int, list: Seq<u32>, n: int, old: ObjectId, new: ObjectId)
    requires renamed(b, c, old, new), b.bookmark_table@.dom() == t0.dom(), all_renamed(t0, b.bookmark_table@, lb, list, n, old, new)
    ensures all_renamed(t0, c.bookmark_table@, lb, list, n, old, new) decreases M - lb - 1, n
{
    if n <= 0 || n > list.len() || lb < -1 || lb >= M { }
    else {
        let id = list[n - 1];
        lemma_ren_mono(t0, b, c, lb, list, n - 1, old, new);
        if t0.contains_key(id) && id > lb {
            assert(b.bookmark_table@.contains_key(id));
            lemma_ren_mono(t0, b, c, id as int, t0[id].children@, t0[id].children@.len() as int, old, new);
        }
    }
}
/// the same claim read against a later table whose bookmarks under `list` still have their original pages or their targets
proof fn lemma_ren_lb(t0: Map<u32, Bookmark>, tf: Map<u32, Bookmark>, lb1: int, lb2: int, list: Seq<u32>, n: int, old: ObjectId, new: ObjectId)
    requires all_above(list, lb1), all_above(list, lb2), -1 <= lb1 < M, -1 <= lb2 < M
    ensures all_renamed(t0, tf, lb1, list, n, old, new) == all_renamed(t0, tf, lb2, list, n, old, new) decreases n
{
    if 0 < n <= list.len() { lemma_ren_lb(t0, tf, lb1, lb2, list, n - 1, old, new); }
}
proof fn lemma_ren_base(a: &Document, b: &Document, tf: Map<u32, Bookmark>, lb: int, list: Seq<u32>, n: int, old: ObjectId, new: ObjectId)
    requires renamed(a, b, old, new), all_renamed(b.bookmark_table@, tf, lb, list, n, old, new)
    ensures all_renamed(a.bookmark_table@, tf, lb, list, n, old, new) decreases M - lb - 1, n
{
    if n <= 0 || n > list.len() || lb < -1 || lb >= M { }
    else {
        let id = list[n - 1];
        lemma_ren_base(a, b, tf, lb, list, n - 1, old, new);
        if a.bookmark_table@.contains_key(id) && id > lb {
            assert(b.bookmark_table@.contains_key(id));
            lemma_ren_base(a, b, tf, id as int, a.bookmark_table@[id].children@, a.bookmark_table@[id].children@.len() as int, old, new);
        }
    }
}

// ----- every forest built through the API satisfies what the walks require -----
/// a document without bookmarks (Document::new: empty table, empty list, counter 0) satisfies the three invariants; add_bookmark keeps
/// them for bookmarks made by Bookmark::new (its postconditions); so they hold after every sequence of such calls, and
/// adjust_zero_pages / renumber_bookmarks keep them too.
proof fn lemma_empty_forest(d: &Document)
    requires d.bookmark_table@ == Map::<u32, Bookmark>::empty(), d.bookmarks@.len() == 0
    ensures forest_wf(d), forest_ordered(d), list_in_table(d.bookmark_table@, d.bookmarks@)
{ }
