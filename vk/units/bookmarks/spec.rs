// ===== the pending bookmark forest: Document as far as add_bookmark sees it =====
/// std::collections::HashMap<u32, Bookmark> as far as add_bookmark uses it (R8): a finite map; `get_mut` lends the stored
/// value, and what the borrower leaves in it is the map's new value at that key - nothing else changes.
#[verifier::external_body]
#[verifier::reject_recursive_types(K)]
#[verifier::reject_recursive_types(V)]
pub struct VHashMap<K, V> { m: std::collections::HashMap<K, V> }
impl<K: std::cmp::Eq + std::hash::Hash, V> VHashMap<K, V> {
    pub uninterp spec fn view(&self) -> Map<K, V>;
    #[verifier::external_body]
    pub fn get_mut(&mut self, k: &K) -> (r: Option<&mut V>)
        ensures match r {
            Some(v) => old(self)@.contains_key(*k) && *v == old(self)@[*k] && final(self)@ == old(self)@.insert(*k, *final(v)),
            None => !old(self)@.contains_key(*k) && final(self)@ == old(self)@,
        }
    { self.m.get_mut(k) }
    #[verifier::external_body]
    pub fn insert(&mut self, k: K, v: V) -> (r: Option<V>)
        ensures final(self)@ == old(self)@.insert(k, v)
    { self.m.insert(k, v) }
}
pub struct Document { pub max_bookmark_id: u32, pub bookmarks: Vec<u32>, pub bookmark_table: VHashMap<u32, Bookmark> }

/// representation invariant of the pending forest: every bookmark of the table has an id in 1 ..= max_bookmark_id and is
/// stored under its own id, so the next id is one no bookmark carries
pub open spec fn forest_wf(d: &Document) -> bool {
    forall|k: u32| #[trigger] d.bookmark_table@.contains_key(k) ==> 1 <= k <= d.max_bookmark_id && d.bookmark_table@[k].id == k
}
/// `a` is `b` with `id` appended to its children and nothing else changed
pub open spec fn is_with_child(a: Bookmark, b: Bookmark, id: u32) -> bool {
    a.children@ == b.children@.push(id) && a.title == b.title && a.format == b.format && a.color == b.color && a.page == b.page && a.id == b.id
}
/// `a` is `b` under the identifier `id`, everything else as handed in
pub open spec fn is_with_id(a: Bookmark, b: Bookmark, id: u32) -> bool {
    a.children == b.children && a.title == b.title && a.format == b.format && a.color == b.color && a.page == b.page && a.id == id
}
/// the pending forest is a forest: a child was attached after its parent, so it carries a greater id, and it is a bookmark of
/// the table. Every chain of children therefore ends (ids rise and stay within max_bookmark_id) - what the recursive walks
/// over the table (outline_child, recursive_fix_pages, update_bookmark_pages) need in order to terminate.
pub open spec fn forest_ordered(d: &Document) -> bool {
    forall|k: u32, i: int| #![trigger d.bookmark_table@[k].children@[i]]
        d.bookmark_table@.contains_key(k) && 0 <= i < d.bookmark_table@[k].children@.len()
        ==> d.bookmark_table@[k].children@[i] > k && d.bookmark_table@.contains_key(d.bookmark_table@[k].children@[i])
}
