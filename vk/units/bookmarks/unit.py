B = 'src/bookmarks.rs'
D = 'src/document.rs'
P = 'src/processor.rs'
REN = dict(rule='R7', pat=r'\bold\b', to='old_id', note='parameter `old` renamed old_id: `old(..)` is a keyword of the specification language')
SLICE1 = dict(rule='R5', lit='&children[..]', to='children.as_slice()', count=1, note='`&v[..]` of a Vec written `v.as_slice()`')
SLICE = dict(rule='R5', lit='&children[..]', to='children.as_slice()', count=2, note='`&v[..]` of a Vec written `v.as_slice()` (same slice; vstd states its view at the call)')
O = 'src/object.rs'
UNIT = dict(
    properties=['C17'],
    rlimit=80,
    prelude=['arch64.rs', 'containers.rs'],
    types=[
        dict(file=O, kind='type', name='ObjectId'),
        dict(file=B, kind='struct', name='Bookmark'),
    ],
    functions=[
        dict(file=B, impl='Bookmark', name='new', rules=dict(no_sink=True)),
        dict(file=B, impl='Document', name='add_bookmark', rules=dict(no_sink=True)),
        dict(file=D, impl='Document', name='recursive_fix_pages', rules=dict(no_sink=True, pre_subst=[SLICE])),
        dict(file=D, impl='Document', name='adjust_zero_pages', rules=dict(no_sink=True)),
        dict(file=P, impl='Document', name='update_bookmark_pages', props=['C10'], rules=dict(no_sink=True, pre_subst=[SLICE1, REN])),
        dict(file=P, impl='Document', name='renumber_bookmarks', props=['C10'], rules=dict(no_sink=True, pre_subst=[REN])),
    ],
)
