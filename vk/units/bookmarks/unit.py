B = 'src/bookmarks.rs'
O = 'src/object.rs'
UNIT = dict(
    properties=['C17'],
    prelude=['arch64.rs', 'containers.rs'],
    types=[
        dict(file=O, kind='type', name='ObjectId'),
        dict(file=B, kind='struct', name='Bookmark'),
    ],
    functions=[
        dict(file=B, impl='Document', name='add_bookmark', rules=dict(no_sink=True)),
    ],
)
