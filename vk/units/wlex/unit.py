W = 'src/writer.rs'
ITOA = [dict(rule='R5', lit='itoa::Buffer::new()', to='ItoaBuffer::new()', note='itoa shim'),
        dict(rule='R5', lit='buf.format(*value).as_bytes()', to='buf.format(*value).as_slice()', note='itoa shim returns Vec<u8>')]
UNIT = dict(
    properties=['C01', 'C03', 'C14', 'C19'],
    prelude=['io.rs', 'pdfobj.rs'],
    types=[
        dict(file='src/object.rs', kind='type', name='ObjectId'),
        dict(file='src/object.rs', kind='enum', name='StringFormat'),
        dict(file='src/object.rs', kind='struct', name='Stream'),
        dict(file='src/object.rs', kind='enum', name='Object'),
    ],
    functions=[
        dict(file=W, impl='Writer', name='need_separator', rules=dict(no_sink=True)),
        dict(file=W, impl='Writer', name='need_end_separator', rules=dict(no_sink=True)),
        dict(file=W, impl='Writer', name='write_object', rules=dict(subst=ITOA)),
        dict(file=W, impl='Writer', name='write_name'),
        dict(file=W, impl='Writer', name='write_string'),
        dict(file=W, impl='Writer', name='write_array'),
        dict(file=W, impl='Writer', name='write_dictionary', rules=dict(loops={1: dict(kind='pairs', seq='dictionary.entries')})),
        dict(file=W, impl='Writer', name='write_stream'),
        dict(file=W, impl='Writer', name='write_binary_mark', rules=dict(subst=[
            dict(rule='R10', lit='binary_mark.iter().all(|&byte| byte >= 128)', to='all_ge_128(binary_mark)', note='iter().all template'),
            dict(rule='R7', pat=r'Err\(std::io::Error::new\(\s*std::io::ErrorKind::InvalidData,\s*"Invalid binary mark",\s*\)\)', to='Err(IoError)', note='error payload dropped'),
        ])),
    ],
)
