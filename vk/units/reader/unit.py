R = 'src/reader.rs'
X = 'src/xref.rs'
UNIT = dict(
    properties=['C02', 'C04', 'C07'],
    prelude=['arch64.rs', 'containers.rs'],
    types=[
        dict(file=X, kind='enum', name='XrefType'),
        dict(file=X, kind='enum', name='XrefEntry'),
        dict(file=X, kind='struct', name='Xref', subst=[dict(rule='R8', lit='BTreeMap<u32, XrefEntry>', to='VBTreeMap<u32, XrefEntry>', note='BTreeMap model')]),
    ],
    functions=[
        dict(file='src/parser_aux.rs', name='read_big_endian_integer', props=['C02', 'C04'], rules=dict(no_sink=True, raw_sig=True, loops={1: dict(kind='index', limit='buffer.len()')}, pre_subst=[
            dict(rule='R7', lit='fn read_big_endian_integer(reader: &mut Cursor<Vec<u8>>, buffer: &mut [u8]) -> Result<u32> {', to='fn read_big_endian_integer(reader: &mut Cursor, buffer: &mut [u8]) -> (r: core::result::Result<u32, ErrTag>)\n{', count=1, note='std::io::Cursor<Vec<u8>> model; result named'),
            dict(rule='R10', lit='for &mut byte in buffer {', to='for byte in buffer_by_index {', count=1, note='iteration over a mutable slice by value: index loop'),
        ], subst=[
            dict(rule='R10', pat=r'value = ([^;\n]*)u32::from\(byte\);', to=r'let byte = buffer[__k1 - 1];\n        value = \1u32_from(byte);', count=1, note='index loop: element k; u32::from(u8) shim'),
            dict(rule='R5', lit='let mut value = 0;', to='let mut value: u32 = 0;', count=1, note='integer type made explicit (inferred from the return type)'),
        ])),
        dict(file=R, impl="Reader<'_>", emit_impl='impl Reader', key_impl='Reader', name='search_substring', props=['C02', 'C04', 'C07'], rules=dict(no_sink=True, subst=[
            dict(rule='R5', lit='return Self::search_substring(buffer, pattern, res + 1).or(Some(res));', to='return opt_or(Self::search_substring(buffer, pattern, res + 1), res);', count=1, note='Option::or shim'),
        ])),
        dict(file=X, impl='Xref', name='merge', props=['C07', 'C08'], rules=dict(no_sink=True, loops={1: dict(kind='pairs_owned', seq='__merge_src')}, pre_subst=[
            dict(rule='R8', lit='for (id, entry) in xref.entries {', to='for (id, entry) in __merge_src {', count=1, note='BTreeMap into_iter = key-ordered entry list'),
        ], subst=[
            dict(rule='R8', lit='self.entries.entry(id).or_insert(entry);', to='self.entries.insert_if_absent(id, entry);', count=1, note='entry(k).or_insert(v) template'),
        ])),
    ],
)
