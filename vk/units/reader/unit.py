R = 'src/reader.rs'
X = 'src/xref.rs'
UNIT = dict(
    properties=['C02', 'C04', 'C07'],
    prelude=['arch64.rs', 'containers.rs'],
    spec=['xsspec.rs', 'spec.rs'],
    types=[
        dict(file=X, kind='enum', name='XrefType'),
        dict(file=X, kind='enum', name='XrefEntry'),
        dict(file=X, kind='struct', name='Xref', subst=[dict(rule='R8', lit='BTreeMap<u32, XrefEntry>', to='VBTreeMap<u32, XrefEntry>', note='BTreeMap model')]),
    ],
    functions=[
        dict(file='src/parser_aux.rs', name='read_big_endian_integer', props=['C02', 'C04'], rules=dict(no_sink=True, raw_sig=True, loops={1: dict(kind='index', limit='buffer.len()')}, pre_subst=[
            dict(rule='R7', lit='fn read_big_endian_integer(reader: &mut Cursor<Vec<u8>>, buffer: &mut [u8]) -> Result<u32> {', to='fn read_big_endian_integer(reader: &mut Cursor, buffer: &mut [u8]) -> (r: core::result::Result<u32, ErrTag>)\n{', count=1, note='std::io::Cursor<Vec<u8>> model; result named'),
            dict(rule='R10', lit='for &mut byte in buffer {', to='for byte in buffer_by_index {', count=1, note='iteration over a mutable slice by value: index loop'),
        ], subst=[
            dict(rule='R10', pat=r'value = ([^;\n]*)u32::from\(byte\);', to=r'let byte = buffer[__k1 - 1];\n        value = \1u32_from(byte);', count=1, note='index loop: element k; u32::from(u8) shim'),
            dict(rule='R5', lit='let mut value = 0;', to='let mut value: u32 = 0;', count=1, note='integer type made explicit (inferred from the return type)'),
        ])),
        dict(file='src/parser_aux.rs', name='decode_xref_stream', props=['C02', 'C04'], rules=dict(no_sink=True, raw_sig=True, loops={1: dict(kind='keep'), 2: dict(kind='keep')}, pre_subst=[
            dict(rule='R2', lit='for i in 0..section_indice.len() / 2 {', to='for i in __it1: 0..section_indice.len() / 2 {', count=1, note='the ghost iterator of the for loop is named (Verus syntax) so that invariants can speak of its position when the range is empty'),
            dict(rule='R2', lit='for j in 0..count {', to='for j in __it2: 0..count {', count=1, note='same'),
            dict(rule='R5', pat=r'let generation = (if [^;]*?\n\s*\}) as u16;', to=r'let __g32: u32 = \1;\n                        let generation = #[verifier::truncate] (__g32 as u16);', count=1, note='`as u16` on a u32 keeps the low-order 16 bits: the u32 is named and the cast marked as intended truncation for Verus'),
            dict(rule='R5', pat=r'let index = (read_big_endian_integer\([^;]*?\)\?) as u16;', to=r'let __i32: u32 = \1;\n                        let index = #[verifier::truncate] (__i32 as u16);', count=1, note='same'),
            dict(rule='R7', lit='fn decode_xref_stream(mut stream: Stream) -> Result<(Xref, Dictionary)> {', to='fn decode_xref_stream(stream0: Stream) -> (r: core::result::Result<(Xref, Dictionary), ErrTag>)\n{\n    let mut stream = stream0;', count=1, note='result named; crate Error as an opaque tag; `mut` by-value parameter written as an immutable parameter moved into a mutable local (what it means), so that the contract can name the argument'),
            dict(rule='R10', pat=r'let size = dict\s*\.get\(b"Size"\)\s*\.and_then\(Object::as_i64\)\s*\.map_err\(\|_\| ParseError::InvalidXref\)\?;', to='let size = dict_get_i64(&dict, b"Size")?;', count=1, note='get(k).and_then(as_i64).map_err(..)? template: shim dict_get_i64'),
            dict(rule='R10', pat=r'let section_indice = dict\s*\.get\(b"Index"\)\s*\.and_then\(parse_integer_array\)\s*\.unwrap_or_else\(\|_\| vec!\[0, size\]\);', to='let section_indice = match dict_get_int_array(&dict, b"Index") { Ok(v) => v, Err(_) => vec2(0, size) };', count=1, note='get(k).and_then(parse_integer_array).unwrap_or_else(|_| d) template: shim dict_get_int_array (parse_integer_array is the loop over Object::as_i64)'),
            dict(rule='R10', pat=r'let field_widths = dict\s*\.get\(b"W"\)\s*\.and_then\(parse_integer_array\)\s*\.map_err\(\|_\| ParseError::InvalidXref\)\?;', to='let field_widths = dict_get_int_array(&dict, b"W")?;', count=1, note='same template with map_err(..)?'),
            dict(rule='R10', lit='field_widths[..3].iter().all(|&w| w == 0)', to='all3_zero(&field_widths)', optional=True, note='slice.iter().all over the first three elements: verified helper'),
            dict(rule='R10', lit='field_widths[..3].iter().any(|&w| w as u64 > data_len)', to='any3_gt(&field_widths, data_len)', optional=True, note='slice.iter().any over the first three elements: verified helper'),
            dict(rule='R10', lit='let id = start.checked_add(j).and_then(|id| u32::try_from(id).ok());', to='let id = id_of(start, j);', optional=True, note='checked_add(..).and_then(u32::try_from(..).ok()) template: verified helper id_of'),
            dict(rule='R10', pat=r'u32::try_from\(([^()]+)\)\.ok\(\)', to=r'u32_try_from_i64(\1)', optional=True, note='u32::try_from(i64).ok(): verified helper'),
            dict(rule='R5', lit='dict.remove(b"Length");', to='dict_remove(&mut dict, b"Length");', count=1, note='Dictionary::remove shim'),
            dict(rule='R5', lit='dict.remove(b"W");', to='dict_remove(&mut dict, b"W");', count=1, note='Dictionary::remove shim'),
            dict(rule='R5', lit='dict.remove(b"Index");', to='dict_remove(&mut dict, b"Index");', count=1, note='Dictionary::remove shim'),
        ], subst=[
            dict(rule='R5', pat=r'field_widths\[(\d)\]\.is_negative\(\)', to=r'field_widths[\1] < 0', note='i64::is_negative'),
            dict(rule='R5', lit='return Err(ParseError::InvalidXref.into());', to='return Err(ErrTag);', count=2, note='error value as opaque tag'),
            dict(rule='R5', lit='reader.get_ref().len() as u64', to='reader.data.len() as u64', count=1, note='Cursor::get_ref'),
            dict(rule='R5', pat=r'vec!\[0_u8; field_widths\[(\d)\] as usize\]', to=r'zeros_bounded(field_widths[\1] as usize, Ghost(data_len as nat))', count=3, note='vec![0; n] shim whose precondition is the allocation bound n <= data length'),
        ])),
        dict(file=R, impl="Reader<'_>", emit_impl='impl Reader', key_impl='Reader', name='search_substring', props=['C02', 'C04', 'C07'], rules=dict(no_sink=True, subst=[
            dict(rule='R5', lit='return Self::search_substring(buffer, pattern, res + 1).or(Some(res));', to='return opt_or(Self::search_substring(buffer, pattern, res + 1), res);', count=1, note='Option::or shim'),
        ])),
        dict(file=X, impl='Xref', name='new', overlay='../../writer/ov/Xref.new.ov', props=['C02', 'C04'], rules=dict(no_sink=True, subst=[dict(rule='R8', lit='BTreeMap::new()', to='VBTreeMap::new()', note='BTreeMap model')])),
        dict(file=X, impl='Xref', name='insert', overlay='../../writer/ov/Xref.insert.ov', props=['C02', 'C04'], rules=dict(no_sink=True)),
        dict(file=X, impl='Xref', name='merge', props=['C07', 'C08'], rules=dict(no_sink=True, loops={1: dict(kind='pairs_owned', seq='__merge_src')}, pre_subst=[
            dict(rule='R8', lit='for (id, entry) in xref.entries {', to='for (id, entry) in __merge_src {', count=1, note='BTreeMap into_iter = key-ordered entry list'),
        ], subst=[
            dict(rule='R8', lit='self.entries.entry(id).or_insert(entry);', to='self.entries.insert_if_absent(id, entry);', count=1, note='entry(k).or_insert(v) template'),
        ])),
    ],
)
