pub struct Reader;
pub open spec fn matches_at(b: Seq<u8>, pat: Seq<u8>, p: int) -> bool {
    0 <= p && p + pat.len() <= b.len() && b.subrange(p, p + pat.len()) == pat
}
pub fn opt_or(a: Option<usize>, b: usize) -> (r: Option<usize>) ensures r == (if a is Some { a } else { Some(b) }) { match a { Some(x) => Some(x), None => Some(b) } }
// R5: derived Clone on XrefEntry (moving out of the consumed map's entry list)
#[verifier::external_body]
pub fn clone_entry(e: &XrefEntry) -> (r: XrefEntry) ensures r == *e { unimplemented!() }

// ---- cross-reference stream fields: big-endian integers read through std::io::Cursor (model) -----------------
pub struct ErrTag;
pub struct Cursor { pub data: Vec<u8>, pub pos: usize }
impl Cursor {
    /// std::io::Read::read_exact on a Cursor: fills the whole buffer from the current position or fails
    #[verifier::external_body]
    pub fn read_exact(&mut self, buf: &mut [u8]) -> (r: core::result::Result<(), ErrTag>)
        ensures
            final(self).data == old(self).data, final(buf)@.len() == old(buf)@.len(),
            r is Ok <==> old(self).pos + old(buf)@.len() <= old(self).data@.len(),
            r is Ok ==> final(self).pos == old(self).pos + old(buf)@.len() && final(buf)@ == old(self).data@.subrange(old(self).pos as int, old(self).pos + old(buf)@.len()),
    { unimplemented!() }
}
pub fn u32_from(b: u8) -> (r: u32) ensures r == b as u32 { b as u32 }
/// value of the bytes read high-order first, modulo 2^32 (a field wider than 4 bytes keeps its low-order 4 bytes)
pub open spec fn be_value(b: Seq<u8>) -> nat decreases b.len() {
    if b.len() == 0 { 0 } else { (be_value(b.drop_last()) * 256 + b.last() as nat) % 0x1_0000_0000 }
}
pub proof fn lemma_shl8_add(v: u32, b: u8)
    ensures (v << 8) as nat + b as nat <= 0xFFFF_FFFF, ((v << 8) + b as u32) as nat == (v as nat * 256 + b as nat) % 0x1_0000_0000
{
    assert((v << 8) & 0xffu32 == 0 && (v << 8) <= 0xFFFF_FF00u32) by (bit_vector);
    let lo: u32 = v & 0xFF_FFFFu32;
    assert((v << 8) == (lo << 8) && lo == v % 0x100_0000u32 && lo <= 0xFF_FFFFu32) by (bit_vector) requires lo == v & 0xFF_FFFFu32;
    assert(lo << 8 == lo * 256) by (bit_vector) requires lo <= 0xFF_FFFFu32;
    assert((v as nat * 256) % 0x1_0000_0000 == (v as nat % 0x100_0000) * 256) by (nonlinear_arith);
    assert((v << 8) as nat == (v as nat * 256) % 0x1_0000_0000);
    assert(((v as nat * 256) % 0x1_0000_0000 + b as nat) == (v as nat * 256 + b as nat) % 0x1_0000_0000) by {
        let m = (v as nat * 256) % 0x1_0000_0000;
        assert(m % 256 == 0) by (nonlinear_arith) requires m == (v as nat * 256) % 0x1_0000_0000;
        assert(m + 255 < 0x1_0000_0000) by (nonlinear_arith) requires m % 256 == 0, m < 0x1_0000_0000;
        assert(m + (b as nat) < 0x1_0000_0000);
        assert((v as nat * 256 + b as nat) % 0x1_0000_0000 == m + b as nat) by (nonlinear_arith)
            requires m == (v as nat * 256) % 0x1_0000_0000, m + (b as nat) < 0x1_0000_0000;
    }
}
