pub struct Reader;
pub open spec fn matches_at(b: Seq<u8>, pat: Seq<u8>, p: int) -> bool {
    0 <= p && p + pat.len() <= b.len() && b.subrange(p, p + pat.len()) == pat
}
pub fn opt_or(a: Option<usize>, b: usize) -> (r: Option<usize>) ensures r == (if a is Some { a } else { Some(b) }) { match a { Some(x) => Some(x), None => Some(b) } }
// R5: derived Clone on XrefEntry (moving out of the consumed map's entry list)
#[verifier::external_body]
pub fn clone_entry(e: &XrefEntry) -> (r: XrefEntry) ensures r == *e { unimplemented!() }
