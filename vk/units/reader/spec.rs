pub struct Reader;
pub open spec fn matches_at(b: Seq<u8>, pat: Seq<u8>, p: int) -> bool {
    0 <= p && p + pat.len() <= b.len() && b.subrange(p, p + pat.len()) == pat
}
pub fn opt_or(a: Option<usize>, b: usize) -> (r: Option<usize>) ensures r == (if a is Some { a } else { Some(b) }) { match a { Some(x) => Some(x), None => Some(b) } }
// R5: derived Clone on XrefEntry (moving out of the consumed map's entry list)
#[verifier::external_body]
pub fn clone_entry(e: &XrefEntry) -> (r: XrefEntry) ensures r == *e { unimplemented!() }

// ---- cross-reference stream fields: big-endian integers read through std::io::Cursor (model) -----------------
pub struct ErrTag;
pub struct Cursor { pub data: Vec<u8>, pub pos: usize }
impl Cursor {
    /// std::io::Read::read_exact on a Cursor: fills the whole buffer from the current position or fails
    #[verifier::external_body]
    pub fn read_exact(&mut self, buf: &mut [u8]) -> (r: core::result::Result<(), ErrTag>)
        ensures
            final(self).data == old(self).data, final(buf)@.len() == old(buf)@.len(),
            r is Ok <==> old(self).pos + old(buf)@.len() <= old(self).data@.len(),
            r is Ok ==> final(self).pos == old(self).pos + old(buf)@.len() && final(buf)@ == old(self).data@.subrange(old(self).pos as int, old(self).pos + old(buf)@.len()),
    { unimplemented!() }
}
pub fn u32_from(b: u8) -> (r: u32) ensures r == b as u32 { b as u32 }
pub proof fn lemma_shl8_add(v: u32, b: u8)
    ensures (v << 8) as nat + b as nat <= 0xFFFF_FFFF, ((v << 8) + b as u32) as nat == (v as nat * 256 + b as nat) % 0x1_0000_0000
{
    assert((v << 8) & 0xffu32 == 0 && (v << 8) <= 0xFFFF_FF00u32) by (bit_vector);
    let lo: u32 = v & 0xFF_FFFFu32;
    assert((v << 8) == (lo << 8) && lo == v % 0x100_0000u32 && lo <= 0xFF_FFFFu32) by (bit_vector) requires lo == v & 0xFF_FFFFu32;
    assert(lo << 8 == lo * 256) by (bit_vector) requires lo <= 0xFF_FFFFu32;
    assert((v as nat * 256) % 0x1_0000_0000 == (v as nat % 0x100_0000) * 256) by (nonlinear_arith);
    assert((v << 8) as nat == (v as nat * 256) % 0x1_0000_0000);
    assert(((v as nat * 256) % 0x1_0000_0000 + b as nat) == (v as nat * 256 + b as nat) % 0x1_0000_0000) by {
        let m = (v as nat * 256) % 0x1_0000_0000;
        assert(m % 256 == 0) by (nonlinear_arith) requires m == (v as nat * 256) % 0x1_0000_0000;
        assert(m + 255 < 0x1_0000_0000) by (nonlinear_arith) requires m % 256 == 0, m < 0x1_0000_0000;
        assert(m + (b as nat) < 0x1_0000_0000);
        assert((v as nat * 256 + b as nat) % 0x1_0000_0000 == m + b as nat) by (nonlinear_arith)
            requires m == (v as nat * 256) % 0x1_0000_0000, m + (b as nat) < 0x1_0000_0000;
    }
}

// ---- decode_xref_stream: abstract stream / dictionary (callee contracts only) ---------------------------------------
#[verifier::external_body]
pub struct Dictionary { _p: () }
impl Dictionary {
    /// the entry is an integer
    pub uninterp spec fn int_at(&self, key: Seq<u8>) -> Option<i64>;
    /// the entry is an array of integers (parse_integer_array: Object::as_i64 on every element)
    pub uninterp spec fn ints_at(&self, key: Seq<u8>) -> Option<Seq<i64>>;
    /// the dictionary without the entry
    pub uninterp spec fn without(&self, key: Seq<u8>) -> Dictionary;
}
pub struct Stream { pub dict: Dictionary, pub content: Vec<u8> }
impl Stream {
    pub uninterp spec fn compressed(&self) -> bool;
    /// unit `stream` proves what decompress yields (decoded_content); here: whether it succeeds, and what it leaves
    pub uninterp spec fn decodable(&self) -> bool;
    pub uninterp spec fn decoded_dict(&self) -> Dictionary;
    pub uninterp spec fn decoded_data(&self) -> Seq<u8>;
    #[verifier::external_body]
    pub fn is_compressed(&self) -> (r: bool) ensures r == self.compressed() { unimplemented!() }
    #[verifier::external_body]
    pub fn decompress(&mut self) -> (r: core::result::Result<(), ErrTag>)
        ensures r is Ok <==> old(self).decodable(), r is Ok ==> final(self).dict == old(self).decoded_dict() && final(self).content@ == old(self).decoded_data()
    { unimplemented!() }
    /// dictionary and data the cross-reference section is read from
    pub open spec fn plain_dict(&self) -> Dictionary { if self.compressed() { self.decoded_dict() } else { self.dict } }
    pub open spec fn plain_data(&self) -> Seq<u8> { if self.compressed() { self.decoded_data() } else { self.content@ } }
}
impl Cursor {
    pub fn new(data: Vec<u8>) -> (r: Cursor) ensures r.data == data, r.pos == 0 { Cursor { data, pos: 0 } }
}
#[verifier::external_body]
pub fn dict_get_i64(d: &Dictionary, key: &[u8]) -> (r: core::result::Result<i64, ErrTag>)
    ensures r is Ok <==> d.int_at(key@) is Some, r is Ok ==> r->Ok_0 == d.int_at(key@)->Some_0
{ unimplemented!() }
#[verifier::external_body]
pub fn dict_get_int_array(d: &Dictionary, key: &[u8]) -> (r: core::result::Result<Vec<i64>, ErrTag>)
    ensures r is Ok <==> d.ints_at(key@) is Some, r is Ok ==> r->Ok_0@ == d.ints_at(key@)->Some_0
{ unimplemented!() }
#[verifier::external_body]
pub fn dict_remove(d: &mut Dictionary, key: &[u8]) ensures *final(d) == old(d).without(key@) { unimplemented!() }
pub fn vec2(a: i64, b: i64) -> (r: Vec<i64>) ensures r@ == seq![a, b] { let mut v = Vec::new(); v.push(a); v.push(b); v }
pub fn all3_zero(w: &Vec<i64>) -> (r: bool) requires w@.len() >= 3 ensures r == (w@[0] == 0 && w@[1] == 0 && w@[2] == 0) { w[0] == 0 && w[1] == 0 && w[2] == 0 }
pub fn any3_gt(w: &Vec<i64>, n: u64) -> (r: bool)
    requires w@.len() >= 3, w@[0] >= 0, w@[1] >= 0, w@[2] >= 0
    ensures r == (w@[0] as u64 > n || w@[1] as u64 > n || w@[2] as u64 > n)
{ w[0] as u64 > n || w[1] as u64 > n || w[2] as u64 > n }
/// object number of entry j of a subsection starting at `start`, if it is one (0 ..= u32::MAX)
pub fn id_of(start: i64, j: i64) -> (r: Option<u32>)
    ensures r is Some <==> (0 <= start + j <= u32::MAX), r is Some ==> r->Some_0 as int == start + j
{
    match start.checked_add(j) { Some(x) => if 0 <= x && x <= u32::MAX as i64 { Some(x as u32) } else { None }, None => None }
}
/// `vec![0; n]` with the allocation bound as a precondition: never more than the data could fill
#[verifier::external_body]
pub fn zeros_bounded(n: usize, Ghost(limit): Ghost<nat>) -> (r: Vec<u8>)
    requires n <= limit
    ensures r@.len() == n
{ vec![0u8; n] }
pub fn u32_try_from_i64(x: i64) -> (r: Option<u32>) ensures r is Some <==> (0 <= x <= u32::MAX), r is Some ==> r->Some_0 as int == x
{ if 0 <= x && x <= u32::MAX as i64 { Some(x as u32) } else { None } }

// ---- (fld, row_entry, xs_rows, xs_sections and their unfolding lemmas: xsspec.rs, shared with unit writer) ----
/// the entries of the cross-reference stream with dictionary `d` and (decoded) data `data`; None = rejected
pub open spec fn xs_decode(d: Dictionary, data: Seq<u8>) -> Option<Map<u32, XrefEntry>> {
    match d.int_at(k_size()) {
        None => None,
        Some(size) => {
            let idx = match d.ints_at(k_index()) { Some(v) => v, None => seq![0i64, size] };   // default: one subsection 0 .. Size
            match d.ints_at(k_w()) {
                None => None,
                Some(w) => if w.len() < 3 || w[0] < 0 || w[1] < 0 || w[2] < 0 { None }
                    else if (w[0] == 0 && w[1] == 0 && w[2] == 0) || w[0] > data.len() || w[1] > data.len() || w[2] > data.len() { None }
                    else { match xs_sections(data, w[0] as nat, w[1] as nat, w[2] as nat, idx, 0, Map::empty(), 0) { Some((m, _)) => Some(m), None => None } },
            }
        }
    }
}

pub proof fn lemma_trunc_u16(x: u32, r: u16)
    requires r == #[verifier::truncate] (x as u16)
    ensures r as nat == (x as nat) % 0x1_0000
{
    assert(r == (x & 0xffff) as u16) by (bit_vector) requires r == #[verifier::truncate] (x as u16);
    assert((x & 0xffff) == x % 0x1_0000) by (bit_vector);
}
