// ===== what the rows of a cross-reference stream say (ISO 32000-1, 7.5.8.2 and 7.5.8.3): pure specification, shared by unit
// reader (contract of decode_xref_stream) and unit writer (round-trip theorem xrefrt.rs) =====
/// value of the bytes read high-order first, modulo 2^32 (a field wider than 4 bytes keeps its low-order 4 bytes)
pub open spec fn be_value(b: Seq<u8>) -> nat decreases b.len() {
    if b.len() == 0 { 0 } else { (be_value(b.drop_last()) * 256 + b.last() as nat) % 0x1_0000_0000 }
}
// ---- what a cross-reference stream says (ISO 32000-1, 7.5.8.2 and 7.5.8.3) ---------------------------------------------
pub open spec fn k_size() -> Seq<u8> { seq![0x53u8, 0x69u8, 0x7Au8, 0x65u8] }
pub open spec fn k_index() -> Seq<u8> { seq![0x49u8, 0x6Eu8, 0x64u8, 0x65u8, 0x78u8] }
pub open spec fn k_w() -> Seq<u8> { seq![0x57u8] }
pub open spec fn k_length() -> Seq<u8> { seq![0x4Cu8, 0x65u8, 0x6Eu8, 0x67u8, 0x74u8, 0x68u8] }
/// a field of w bytes at pos, high-order byte first (a field wider than 4 bytes keeps its low-order 32 bits)
pub open spec fn fld(data: Seq<u8>, pos: int, w: nat) -> nat { be_value(data.subrange(pos, pos + w)) }
/// Table 18: type 1 = in use (offset, generation), type 2 = compressed (object stream, index); type 0 = free and every
/// other type = the null object leave no entry. A missing type field means type 1, a missing third field means 0.
pub open spec fn row_entry(data: Seq<u8>, pos: int, w0: nat, w1: nat, w2: nat) -> Option<XrefEntry> {
    let t = if w0 == 0 { 1nat } else { fld(data, pos, w0) };
    let f2 = fld(data, pos + w0, w1);
    let f3 = fld(data, pos + w0 + w1, w2);
    if t == 1 { Some(XrefEntry::Normal { offset: f2 as u32, generation: (f3 % 0x1_0000) as u16 }) }
    else if t == 2 { Some(XrefEntry::Compressed { container: f2 as u32, index: (f3 % 0x1_0000) as u16 }) }
    else { None }
}
/// rows j.. of the subsection (start, count): every row takes w0 + w1 + w2 bytes whatever its type; a later row for the
/// same object number replaces an earlier one; object numbers outside 0 ..= u32::MAX name nothing. None = the data ends
/// inside a row.
#[verifier::opaque]
pub open spec fn xs_rows(data: Seq<u8>, w0: nat, w1: nat, w2: nat, start: int, count: int, j: int, m: Map<u32, XrefEntry>, pos: int) -> Option<(Map<u32, XrefEntry>, int)>
    decreases count - j
{
    if j >= count { Some((m, pos)) }
    else if pos + w0 + w1 + w2 > data.len() { None }
    else {
        let id = start + j;
        let m2 = match row_entry(data, pos, w0, w1, w2) { Some(e) => if 0 <= id <= u32::MAX { m.insert(id as u32, e) } else { m }, None => m };
        xs_rows(data, w0, w1, w2, start, count, j + 1, m2, pos + w0 + w1 + w2)
    }
}
/// subsections i.. of /Index (pairs first object number, count)
#[verifier::opaque]
pub open spec fn xs_sections(data: Seq<u8>, w0: nat, w1: nat, w2: nat, idx: Seq<i64>, i: int, m: Map<u32, XrefEntry>, pos: int) -> Option<(Map<u32, XrefEntry>, int)>
    decreases idx.len() / 2 - i
{
    if i < 0 || i >= idx.len() / 2 { Some((m, pos)) }
    else {
        match xs_rows(data, w0, w1, w2, idx[2 * i] as int, idx[2 * i + 1] as int, 0, m, pos) {
            None => None,
            Some((m2, p2)) => xs_sections(data, w0, w1, w2, idx, i + 1, m2, p2),
        }
    }
}
pub proof fn lemma_xs_rows_unfold(data: Seq<u8>, w0: nat, w1: nat, w2: nat, start: int, count: int, j: int, m: Map<u32, XrefEntry>, pos: int)
    ensures xs_rows(data, w0, w1, w2, start, count, j, m, pos) == (
        if j >= count { Some((m, pos)) }
        else if pos + w0 + w1 + w2 > data.len() { None }
        else {
            let id = start + j;
            let m2 = match row_entry(data, pos, w0, w1, w2) { Some(e) => if 0 <= id <= u32::MAX { m.insert(id as u32, e) } else { m }, None => m };
            xs_rows(data, w0, w1, w2, start, count, j + 1, m2, pos + w0 + w1 + w2)
        })
{ reveal_with_fuel(xs_rows, 2); }
pub proof fn lemma_xs_sections_unfold(data: Seq<u8>, w0: nat, w1: nat, w2: nat, idx: Seq<i64>, i: int, m: Map<u32, XrefEntry>, pos: int)
    ensures xs_sections(data, w0, w1, w2, idx, i, m, pos) == (
        if i < 0 || i >= idx.len() / 2 { Some((m, pos)) }
        else {
            match xs_rows(data, w0, w1, w2, idx[2 * i] as int, idx[2 * i + 1] as int, 0, m, pos) {
                None => None,
                Some((m2, p2)) => xs_sections(data, w0, w1, w2, idx, i + 1, m2, p2),
            }
        })
{ reveal_with_fuel(xs_sections, 2); }

