// =====================================================================================
// RC4 as defined (KSA / PRGA), the oracle for Rc4::{new, apply_keystream, decrypt, encrypt}
// =====================================================================================
pub open spec fn ident256() -> Seq<u8> { Seq::new(256, |i: int| i as u8) }
pub open spec fn swp(s: Seq<u8>, i: int, j: int) -> Seq<u8> { s.update(i, s[j]).update(j, s[i]) }
pub open spec fn ksa(key: Seq<u8>, t: int) -> (Seq<u8>, u8) decreases t {
    if t <= 0 { (ident256(), 0u8) } else {
        let (s, j) = ksa(key, t - 1);
        let i = t - 1;
        let j2 = ((j as int + s[i] as int + key[i % (key.len() as int)] as int) % 256) as u8;
        (swp(s, i, j2 as int), j2)
    }
}
pub open spec fn prga(s0: Seq<u8>, t: int) -> (Seq<u8>, u8, u8, u8) decreases t {
    if t <= 0 { (s0, 0u8, 0u8, 0u8) } else {
        let (s, i, j, _k) = prga(s0, t - 1);
        let i2 = ((i as int + 1) % 256) as u8;
        let j2 = ((j as int + s[i2 as int] as int) % 256) as u8;
        let s2 = swp(s, i2 as int, j2 as int);
        (s2, i2, j2, s2[(s2[i2 as int] as int + s2[j2 as int] as int) % 256])
    }
}
pub open spec fn keystream(s0: Seq<u8>, k: int) -> u8 { prga(s0, k + 1).3 }
pub open spec fn rc4_xor(s0: Seq<u8>, input: Seq<u8>) -> Seq<u8> { Seq::new(input.len(), |k: int| input[k] ^ keystream(s0, k)) }

pub proof fn lemma_ksa_len(key: Seq<u8>, t: int) requires key.len() > 0, 0 <= t <= 256 ensures ksa(key, t).0.len() == 256 decreases t
{ if t > 0 { lemma_ksa_len(key, t - 1); } }
pub proof fn lemma_prga_len(s0: Seq<u8>, t: int) requires s0.len() == 256, 0 <= t ensures prga(s0, t).0.len() == 256 decreases t
{ if t > 0 { lemma_prga_len(s0, t - 1); } }

// RC4 is an involution: decrypt(k, encrypt(k, x)) == x
pub proof fn lemma_rc4_involution(s0: Seq<u8>, x: Seq<u8>)
    ensures rc4_xor(s0, rc4_xor(s0, x)) =~= x
{
    assert forall|k: int| 0 <= k < x.len() implies rc4_xor(s0, rc4_xor(s0, x))[k] == x[k] by {
        let a = x[k]; let b = keystream(s0, k);
        assert((a ^ b) ^ b == a) by (bit_vector);
    }
}

#[verifier::external_body]
pub fn swap256(a: &mut [u8; 256], i: usize, j: usize)
    requires i < 256, j < 256
    ensures final(a)@ == swp(old(a)@, i as int, j as int)
{ a.swap(i, j) }
pub fn min_len(a: &[u8], b: &Vec<u8>) -> (r: usize) ensures r == (if a@.len() <= b@.len() { a@.len() } else { b@.len() })
{ if a.len() <= b.len() { a.len() } else { b.len() } }

// =====================================================================================
// PKCS#5 / PKCS#7 padding (RFC 2898 6.1.1): pad with n bytes of value n
// =====================================================================================
pub struct Pkcs5;
pub struct UnpadError;
pub fn panic_unreachable() requires false { }
pub open spec fn padded(b: Seq<u8>, pos: int) -> Seq<u8> { Seq::new(b.len(), |i: int| if i < pos { b[i] } else { (b.len() - pos) as u8 }) }
pub open spec fn unpadded(b: Seq<u8>) -> Option<Seq<u8>> {
    let n = b[b.len() - 1];
    if n == 0 || n as int > b.len() { None }
    else if exists|i: int| b.len() - n as int <= i < b.len() - 1 && b[i] != n { None }
    else { Some(b.subrange(0, b.len() - n as int)) }
}
#[verifier::external_body]
pub fn any_ne(block: &[u8], a: usize, b: usize, n: u8) -> (r: bool)
    requires a <= b <= block@.len()
    ensures r == exists|i: int| a <= i < b && block@[i] != n
{ block[a..b].iter().any(|&v| v != n) }
#[verifier::external_body]
pub fn prefix(block: &[u8], s: usize) -> (r: &[u8]) requires s <= block@.len() ensures r@ == block@.subrange(0, s as int) { &block[..s] }
// unpad(pad(b, pos)) == b[..pos]
pub proof fn lemma_pad_unpad(b: Seq<u8>, pos: int)
    requires 1 <= b.len() <= 16, 0 <= pos < b.len()
    ensures unpadded(padded(b, pos)) == Some(b.subrange(0, pos))
{
    let p = padded(b, pos);
    let n = p[p.len() - 1];
    assert(n == (b.len() - pos) as u8);
    assert(p.subrange(0, p.len() - n as int) =~= b.subrange(0, pos));
}
