R = 'src/encryption/rc4.rs'
K = 'src/encryption/pkcs5.rs'
UNIT = dict(
    properties=['C05', 'C06'],
    prelude=['arch64.rs'],
    types=[dict(file=R, kind='struct', name='Rc4')],
    functions=[
        dict(file=R, impl='Rc4', name='new', rules=dict(no_sink=True, loops={1: dict(kind='index', index='i', limit='256')}, pre_subst=[
            dict(rule='R11', lit='fn new<Key: AsRef<[u8]>>(key: Key) -> Self {', to='fn new(key: &[u8]) -> Self {', count=1, note='AsRef<[u8]> at &[u8]'),
            dict(rule='R11', lit='let key = key.as_ref();', to='', count=1, note='AsRef<[u8]> at &[u8]'),
            dict(rule='R10', lit='for (i, v) in initial_state.iter_mut().enumerate() {', to='for (i, v) in initial_state_iter_mut_enumerate {', count=1, note='iter_mut().enumerate() template (index loop)'),
        ], subst=[
            dict(rule='R10', lit='*v = i as u8;', to='initial_state[i] = i as u8;', count=1, note='iter_mut().enumerate() template: *v is initial_state[i]'),
            dict(rule='R5', lit='initial_state.swap(i, j as usize);', to='swap256(&mut initial_state, i, j as usize);', count=1, note='<[u8]>::swap shim'),
            dict(rule='R5', lit='assert!(!key.is_empty() && key.len() <= 256);', to='', count=1, note='assert! becomes the precondition (stated in the overlay)'),
        ])),
        dict(file=R, impl='Rc4', name='apply_keystream', rules=dict(no_sink=True, raw_sig=True, loops={1: dict(kind='index', limit='min_len(input, output)')}, pre_subst=[
            dict(rule='R10', pat=r"fn apply_keystream<'i, 'o, Input, Output>\(&self, input: Input, output: Output\)\s*where\s*Input: Iterator<Item = &'i u8>,\s*Output: Iterator<Item = &'o mut u8>,\s*\{", to='fn apply_keystream(&self, input: &[u8], output: &mut Vec<u8>)\n    {', count=1, note='zip template: the two iterators are slice iterators at every call site (decrypt)'),
            dict(rule='R10', lit='for (i_byte, o_byte) in input.zip(output) {', to='for (i_byte, o_byte) in input_zip_output {', count=1, note='zip template (index loop over the shorter length)'),
        ], subst=[
            dict(rule='R10', lit='*o_byte = i_byte ^ key_byte;', to='output[__k1 - 1] = input[__k1 - 1] ^ key_byte;', count=1, note='zip template: element k of both'),
            dict(rule='R5', lit='state.swap(i as usize, j as usize);', to='swap256(&mut state, i as usize, j as usize);', count=1, note='<[u8]>::swap shim'),
        ])),
        dict(file=R, impl='Rc4', name='decrypt', rules=dict(no_sink=True, pre_subst=[
            dict(rule='R11', pat=r'fn decrypt<Input>\(&self, input: Input\) -> Vec<u8>\s*where\s*Input: AsRef<\[u8\]>,\s*\{', to='fn decrypt(&self, input: &[u8]) -> Vec<u8>\n    {', count=1, note='AsRef<[u8]> at &[u8]'),
            dict(rule='R11', lit='let input = input.as_ref();', to='', count=1, note='AsRef<[u8]> at &[u8]'),
            dict(rule='R10', lit='self.apply_keystream(input.iter(), output.iter_mut());', to='self.apply_keystream(input, &mut output);', count=1, note='zip template call site'),
        ])),
        dict(file=R, impl='Rc4', name='encrypt', rules=dict(no_sink=True, pre_subst=[
            dict(rule='R11', pat=r'fn encrypt<Input>\(&self, input: Input\) -> Vec<u8>\s*where\s*Input: AsRef<\[u8\]>,\s*\{', to='fn encrypt(&self, input: &[u8]) -> Vec<u8>\n    {', count=1, note='AsRef<[u8]> at &[u8]'),
        ])),
        dict(file=K, impl='Pkcs5', name='unpad', rules=dict(no_sink=True, raw_sig=True, subst=[
            dict(rule='R7', lit='-> Result<&[u8], UnpadError>', to='-> (r: core::result::Result<&[u8], UnpadError>)', count=1, note='result named'),
            dict(rule='R5', lit='panic!("block size is too big for PKCS#5");', to='panic_unreachable();', count=1, note='panic! is an obligation: must be unreachable under the precondition'),
            dict(rule='R10', lit='block[s..bs - 1].iter().any(|&v| v != n)', to='any_ne(block, s, bs - 1, n)', count=1, note='slice.iter().any template'),
            dict(rule='R5', lit='Ok(&block[..s])', to='Ok(prefix(block, s))', count=1, note='sub-slice shim'),
        ])),
        dict(file=K, impl='RawPadding for Pkcs5', emit_impl='impl Pkcs5', key_impl='Pkcs5', name='raw_pad', rules=dict(no_sink=True, loops={1: dict(kind='index', start='pos', limit='block.len()')}, pre_subst=[
            dict(rule='R10', lit='for b in &mut block[pos..] {', to='for b in block_iter_mut_from_pos {', count=1, note='iter_mut over a sub-slice: index loop from pos'),
        ], subst=[
            dict(rule='R10', lit='*b = n;', to='block[__k1 - 1] = n;', count=1, note='iter_mut template: *b is block[k]'),
            dict(rule='R5', lit='panic!("block size is too big for PKCS#5");', to='panic_unreachable();', count=1, note='panic! must be unreachable'),
            dict(rule='R5', lit='panic!("`pos` is bigger or equal to block size");', to='panic_unreachable();', count=1, note='panic! must be unreachable'),
        ])),
        dict(file=K, impl='RawPadding for Pkcs5', emit_impl='impl Pkcs5', key_impl='Pkcs5', name='raw_unpad', rules=dict(no_sink=True, raw_sig=True, subst=[
            dict(rule='R7', lit='-> Result<&[u8], UnpadError>', to='-> (r: core::result::Result<&[u8], UnpadError>)', count=1, note='result named'),
        ])),
    ],
)
