// ===== inherited resources: the walk up the Parent chain (contracts of the callees only) =====
pub enum Error { ReferenceCycle(ObjectId), Other }
pub type Result<T> = core::result::Result<T, Error>;

/// A dictionary as far as the walk looks at it: which of its entries are references, which hold a dictionary directly
#[verifier::external_body]
pub struct Dictionary { _p: () }
impl Dictionary {
    pub uninterp spec fn ref_at(&self, key: Seq<u8>) -> Option<ObjectId>;
    pub uninterp spec fn dict_at(&self, key: Seq<u8>) -> Option<Dictionary>;
    #[verifier::external_body]
    pub fn get_ref(&self, key: &[u8]) -> (r: Result<ObjectId>)
        ensures r is Ok <==> self.ref_at(key@) is Some, r is Ok ==> r->Ok_0 == self.ref_at(key@)->Some_0
    { unimplemented!() }
    /// the dictionary that the entry holds, or that the reference it holds leads to
    pub uninterp spec fn deref_dict_at(&self, doc: &Document, key: Seq<u8>) -> Option<Dictionary>;
    #[verifier::external_body]
    pub fn get_deref_dict<'a>(&'a self, key: &[u8], doc: &'a Document) -> (r: Result<&'a Dictionary>)
        ensures r is Ok <==> self.deref_dict_at(doc, key@) is Some, r is Ok ==> *r->Ok_0 == self.deref_dict_at(doc, key@)->Some_0
    { unimplemented!() }
    #[verifier::external_body]
    pub fn get_dict_opt(&self, key: &[u8]) -> (r: Option<&Dictionary>)
        ensures r is Some <==> self.dict_at(key@) is Some, r is Some ==> *r->Some_0 == self.dict_at(key@)->Some_0
    { unimplemented!() }
}
#[verifier::external_body]
pub struct Document { _p: () }
impl Document {
    /// the object numbers in use
    pub uninterp spec fn ids(&self) -> Set<ObjectId>;
    /// the objects that are dictionaries (directly or through references, as Document::get_dictionary resolves them)
    pub uninterp spec fn dicts(&self) -> Map<ObjectId, Dictionary>;
    /// ASSUMED: a document holds finitely many objects (a BTreeMap), and get_dictionary(id) succeeds only for an id in it
    #[verifier::external_body]
    pub proof fn axiom_ids(&self) ensures self.dicts().dom().subset_of(self.ids()) { }
    #[verifier::external_body]
    pub fn get_dictionary(&self, id: ObjectId) -> (r: Result<&Dictionary>)
        ensures r is Ok <==> self.dicts().dom().contains(id), r is Ok ==> *r->Ok_0 == self.dicts()[id]
    { unimplemented!() }
}
/// std::collections::HashSet<ObjectId> as far as the walk uses it
#[verifier::external_body]
pub struct IdSet { _p: () }
impl IdSet {
    pub uninterp spec fn view(&self) -> Set<ObjectId>;
    #[verifier::external_body]
    pub fn new() -> (r: IdSet) ensures r@ == Set::<ObjectId>::empty() { unimplemented!() }
    #[verifier::external_body]
    pub fn insert(&mut self, id: ObjectId) -> (r: bool)
        ensures final(self)@ == old(self)@.insert(id), r == !old(self)@.contains(id)
    { unimplemented!() }
}
pub open spec fn k_resources() -> Seq<u8> { seq![0x52u8, 0x65u8, 0x73u8, 0x6Fu8, 0x75u8, 0x72u8, 0x63u8, 0x65u8, 0x73u8] }
pub open spec fn k_parent() -> Seq<u8> { seq![0x50u8, 0x61u8, 0x72u8, 0x65u8, 0x6Eu8, 0x74u8] }
pub open spec fn here(node: Dictionary) -> Seq<ObjectId> { match node.ref_at(k_resources()) { Some(id) => seq![id], None => seq![] } }
/// The Resources references from `node` up the Parent chain, nearest first. None = the chain names a node twice (a cycle)
/// or a Parent that is not a dictionary of the document. `fuel` bounds the recursion; with at least as much fuel as there
/// are objects not yet seen it never runs out (lemma_fuel_irrelevant).
#[verifier::opaque]
pub open spec fn walk(doc: &Document, node: Dictionary, seen: Set<ObjectId>, fuel: nat) -> Option<Seq<ObjectId>>
    decreases fuel
{
    match node.ref_at(k_parent()) {
        None => Some(here(node)),
        Some(p) => if seen.contains(p) || !doc.dicts().dom().contains(p) || fuel == 0 { None } else {
            match walk(doc, doc.dicts()[p], seen.insert(p), (fuel - 1) as nat) { Some(rest) => Some(here(node) + rest), None => None }
        }
    }
}
pub open spec fn prepend(acc: Seq<ObjectId>, w: Option<Seq<ObjectId>>) -> Option<Seq<ObjectId>> { match w { Some(s) => Some(acc + s), None => None } }
/// what get_page_resources returns for a page that is a dictionary
pub open spec fn chain(doc: &Document, page: Dictionary) -> Option<Seq<ObjectId>> { walk(doc, page, Set::empty(), doc.ids().len()) }

/// BTreeMap<Vec<u8>, &Dictionary> of get_page_fonts as far as the walk is concerned: which Resources dictionaries were
/// handed to collect_fonts_from_resources, in which order (that helper keeps the first font of every name)
#[verifier::external_body]
pub struct FontMap { _p: () }
impl FontMap {
    pub uninterp spec fn view(&self) -> Seq<Dictionary>;
    #[verifier::external_body]
    pub fn new() -> (r: FontMap) ensures r@ == Seq::<Dictionary>::empty() { unimplemented!() }
}
#[verifier::external_body]
pub fn collect_fonts_from_resources(resources: &Dictionary, fonts: &mut FontMap, doc: &Document)
    ensures final(fonts)@ == old(fonts)@.push(*resources)
{ unimplemented!() }
pub fn ok_opt<'a>(r: Result<&'a Dictionary>) -> (o: Option<&'a Dictionary>)
    ensures o is Some <==> r is Ok, o is Some ==> o->Some_0 == r->Ok_0
{ match r { Ok(d) => Some(d), Err(_) => None } }
pub open spec fn res_here(doc: &Document, node: Dictionary) -> Seq<Dictionary> { match node.deref_dict_at(doc, k_resources()) { Some(d) => seq![d], None => seq![] } }
/// The Resources dictionaries in effect for a page, nearest first: its own and those of its ancestors, held directly or by
/// reference (ISO 32000-1 7.7.3.4 as get_page_fonts reads it: an inherited entry is visible unless a nearer one has the name)
#[verifier::opaque]
pub open spec fn res_walk(doc: &Document, node: Dictionary, seen: Set<ObjectId>, fuel: nat) -> Option<Seq<Dictionary>>
    decreases fuel
{
    match node.ref_at(k_parent()) {
        None => Some(res_here(doc, node)),
        Some(p) => if seen.contains(p) || !doc.dicts().dom().contains(p) || fuel == 0 { None } else {
            match res_walk(doc, doc.dicts()[p], seen.insert(p), (fuel - 1) as nat) { Some(rest) => Some(res_here(doc, node) + rest), None => None }
        }
    }
}
pub open spec fn res_prepend(acc: Seq<Dictionary>, w: Option<Seq<Dictionary>>) -> Option<Seq<Dictionary>> { match w { Some(s) => Some(acc + s), None => None } }
pub open spec fn res_chain(doc: &Document, page: Dictionary) -> Option<Seq<Dictionary>> { res_walk(doc, page, Set::empty(), doc.ids().len()) }

pub proof fn lemma_res_walk_unfold(doc: &Document, node: Dictionary, seen: Set<ObjectId>, fuel: nat)
    ensures res_walk(doc, node, seen, fuel) == (match node.ref_at(k_parent()) {
        None => Some(res_here(doc, node)),
        Some(p) => if seen.contains(p) || !doc.dicts().dom().contains(p) || fuel == 0 { None } else {
            res_prepend(res_here(doc, node), res_walk(doc, doc.dicts()[p], seen.insert(p), (fuel - 1) as nat))
        }
    })
{ reveal_with_fuel(res_walk, 2); }
pub proof fn lemma_res_prepend_assoc(a: Seq<Dictionary>, b: Seq<Dictionary>, w: Option<Seq<Dictionary>>)
    ensures res_prepend(a, res_prepend(b, w)) == res_prepend(a + b, w)
{ if w is Some { assert(a + (b + w->Some_0) =~= (a + b) + w->Some_0); } }

pub proof fn lemma_walk_unfold(doc: &Document, node: Dictionary, seen: Set<ObjectId>, fuel: nat)
    ensures walk(doc, node, seen, fuel) == (match node.ref_at(k_parent()) {
        None => Some(here(node)),
        Some(p) => if seen.contains(p) || !doc.dicts().dom().contains(p) || fuel == 0 { None } else {
            prepend(here(node), walk(doc, doc.dicts()[p], seen.insert(p), (fuel - 1) as nat))
        }
    })
{ reveal_with_fuel(walk, 2); }
pub proof fn lemma_prepend_assoc(a: Seq<ObjectId>, b: Seq<ObjectId>, w: Option<Seq<ObjectId>>)
    ensures prepend(a, prepend(b, w)) == prepend(a + b, w)
{ if w is Some { assert(a + (b + w->Some_0) =~= (a + b) + w->Some_0); } }
