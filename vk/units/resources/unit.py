D = 'src/document.rs'
O = 'src/object.rs'
UNIT = dict(
    properties=['C13'],
    prelude=['arch64.rs'],
    rlimit=80,
    types=[
        dict(file=O, kind='type', name='ObjectId'),
    ],
    functions=[
        dict(file=D, impl='Document', name='get_page_resources', rules=dict(no_sink=True, raw_sig=True, loops={}, pre_subst=[
            dict(rule='R7', lit='fn get_page_resources(&self, page_id: ObjectId) -> Result<(Option<&Dictionary>, Vec<ObjectId>)> {', to='fn get_page_resources(&self, page_id: ObjectId) -> (r: Result<(Option<&Dictionary>, Vec<ObjectId>)>)\n    {', count=1, note='result named'),
            dict(rule='R10', pat=r'(\w+)\.get\(b"(\w+)"\)\.and_then\(Object::as_reference\)', to=r'\1.get_ref(b"\2")', note='Dictionary::get(key).and_then(Object::as_reference) template: shim Dictionary::get_ref (the id when the entry is a reference, an error otherwise)'),
            dict(rule='R10', pat=r'(\w+)\.get\(b"(\w+)"\)\.and_then\(Object::as_dict\)\.ok\(\)', to=r'\1.get_dict_opt(b"\2")', note='Dictionary::get(key).and_then(Object::as_dict).ok() template: shim Dictionary::get_dict_opt (the dictionary when the entry holds one directly)'),
            dict(rule='R5', lit='HashSet::new()', to='IdSet::new()', count=1, note='std HashSet<ObjectId> as the shim IdSet with a ghost Set view (new, insert)'),
        ])),
        dict(file=D, impl='Document', name='get_page_fonts', rules=dict(no_sink=True, raw_sig=True, loops={}, pre_subst=[
            dict(rule='R7', lit='fn get_page_fonts(&self, page_id: ObjectId) -> Result<BTreeMap<Vec<u8>, &Dictionary>> {', to='fn get_page_fonts(&self, page_id: ObjectId) -> (r: Result<FontMap>)\n    {', count=1, note='result named; BTreeMap<Vec<u8>, &Dictionary> as the shim FontMap (ghost view: the Resources dictionaries handed to collect_fonts_from_resources, in order)'),
            dict(rule='R13', pat=r"fn collect_fonts_from_resources<'a>\(.*?\n        \}\n", to='', count=1, note='the nested helper collect_fonts_from_resources (per-dictionary font collection, first name wins) is dropped from the verified text: shim with the contract "records the dictionary it was given"'),
            dict(rule='R5', lit='BTreeMap::new()', to='FontMap::new()', count=1, note='FontMap shim'),
            dict(rule='R10', pat=r'(\w+)\.get\(b"(\w+)"\)\.and_then\(Object::as_reference\)', to=r'\1.get_ref(b"\2")', note='Dictionary::get(key).and_then(Object::as_reference) template: shim Dictionary::get_ref'),
            dict(rule='R10', pat=r'(\w+)\.get_deref\(b"(\w+)", self\)\.and_then\(Object::as_dict\)', to=r'\1.get_deref_dict(b"\2", self)', note='Dictionary::get_deref(key, doc).and_then(Object::as_dict) template: shim Dictionary::get_deref_dict (the dictionary the entry holds or refers to)'),
            dict(rule='R5', lit='HashSet::new()', to='IdSet::new()', count=1, note='std HashSet<ObjectId> as the shim IdSet'),
            dict(rule='R2', lit='while let Some(node) = page_node {', to='loop {\n            let __wl = page_node;\n            if __wl.is_none() {\n                break;\n            }\n            let node = __wl.unwrap();', count=1, note='`while let Some(p) = e { body }` as `loop { let t = e; if t.is_none() { break } let p = t.unwrap(); body }`'),
            dict(rule='R5', lit='self.get_dictionary(page_id).ok()', to='ok_opt(self.get_dictionary(page_id))', count=1, note='Result::ok shim'),
        ])),
    ],
)
