// ===== object numbering: Document as far as id allocation sees it =====
pub struct Object { pub tag: int }   // the stored value is opaque to id allocation
pub struct Document { pub max_id: u32, pub objects: VBTreeMap<ObjectId, Object> }
/// representation invariant the editing functions rely on: no object number above max_id
pub open spec fn ids_wf(d: &Document) -> bool { forall|k: ObjectId| d.objects@.contains_key(k) ==> k.0 <= d.max_id }
pub fn max_u32(a: u32, b: u32) -> (r: u32) ensures r == (if a >= b { a } else { b }) { if a >= b { a } else { b } }
