C = 'src/creator.rs'
O = 'src/object.rs'
INTO = dict(rule='R11', pat=r'<T: Into<Object>>\((.*?)object: T\)', to=r'(\1object: Object)', count=1, note='Into<Object> at Object')
INTO2 = dict(rule='R11', lit='object.into()', to='object', count=1, note='Into<Object> at Object')
UNIT = dict(
    properties=['C11'],
    prelude=['arch64.rs', 'containers.rs'],
    types=[dict(file=O, kind='type', name='ObjectId')],
    functions=[
        dict(file=C, impl='Document', name='new_object_id', rules=dict(no_sink=True)),
        dict(file=C, impl='Document', name='add_object', rules=dict(no_sink=True, pre_subst=[INTO], subst=[INTO2])),
        dict(file=C, impl='Document', name='set_object', rules=dict(no_sink=True, pre_subst=[INTO], subst=[
            INTO2, dict(rule='R5', lit='self.max_id.max(id.0)', to='max_u32(self.max_id, id.0)', optional=True, note='u32::max shim'),
        ])),
    ],
)
