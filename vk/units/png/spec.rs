use core::mem;
// =====================================================================================
// PNG (ISO/IEC 15948) 9.2-9.4 reconstruction functions, as used by ISO 32000-1 7.4.4.4 predictors 10-15
// =====================================================================================
pub open spec fn iabs(x: int) -> int { if x < 0 { -x } else { x } }
pub open spec fn png_paeth(a: u8, b: u8, c: u8) -> u8 {
    let p = a as int + b as int - c as int;
    let pa = iabs(p - a as int);
    let pb = iabs(p - b as int);
    let pc = iabs(p - c as int);
    if pa <= pb && pa <= pc { a } else if pb <= pc { b } else { c }
}
pub open spec fn add8(x: u8, y: int) -> u8 { ((x as int + y) % 256) as u8 }

// Recon(x) of byte i of a scanline: `raw` the filtered bytes, `prev` the reconstructed previous scanline
pub open spec fn recon(f: FilterType, bpp: int, prev: Seq<u8>, raw: Seq<u8>, i: int) -> u8 decreases i {
    if i < 0 || i >= raw.len() || bpp <= 0 { 0u8 } else {
        let left: u8 = if i >= bpp { recon(f, bpp, prev, raw, i - bpp) } else { 0u8 };
        let up: u8 = prev[i];
        let ul: u8 = if i >= bpp { prev[i - bpp] } else { 0u8 };
        match f {
            FilterType::None => raw[i],
            FilterType::Sub => add8(raw[i], left as int),
            FilterType::Up => add8(raw[i], up as int),
            FilterType::Avg => add8(raw[i], (left as int + up as int) / 2),
            FilterType::Paeth => add8(raw[i], png_paeth(left, up, ul) as int),
        }
    }
}
pub open spec fn recon_row(f: FilterType, bpp: int, prev: Seq<u8>, raw: Seq<u8>) -> Seq<u8> {
    Seq::new(raw.len(), |i: int| recon(f, bpp, prev, raw, i))
}
pub open spec fn filter_of(n: u8) -> Option<FilterType> {
    if n == 0 { Some(FilterType::None) } else if n == 1 { Some(FilterType::Sub) } else if n == 2 { Some(FilterType::Up) }
    else if n == 3 { Some(FilterType::Avg) } else if n == 4 { Some(FilterType::Paeth) } else { None }
}
// the whole frame: rows of 1 + bpr bytes; a truncated last row or an unknown filter byte is an error (None)
pub open spec fn frame(content: Seq<u8>, bpp: int, bpr: int, pos: int, prev: Seq<u8>) -> Option<Seq<u8>> decreases content.len() - pos {
    if pos >= content.len() || pos < 0 || bpr < 0 { Some(Seq::<u8>::empty()) }
    else {
        match filter_of(content[pos]) {
            None => None,
            Some(f) => {
                if pos + 1 + bpr > content.len() { None } else {
                    let row = recon_row(f, bpp, prev, content.subrange(pos + 1, pos + 1 + bpr));
                    match frame(content, bpp, bpr, pos + 1 + bpr, row) {
                        None => None,
                        Some(rest) => Some(row + rest),
                    }
                }
            }
        }
    }
}
pub open spec fn zeros8(n: int) -> Seq<u8> { Seq::new(n as nat, |i: int| 0u8) }
