P = 'src/filters/png.rs'
I16 = dict(rule='R5', pat=r'i16::from\((\w+(?:\[[^\]]*\])?)\)', to=r'(\1 as i16)', optional=True, note='lossless From<u8> for i16 written as a cast')
UNIT = dict(
    properties=['C09', 'C04', 'C02'],
    prelude=['alloc.rs'],
    types=[dict(file=P, kind='enum', name='FilterType', structural=True)],
    functions=[
        dict(file=P, impl='TryFrom<u8> for FilterType', emit_impl='impl FilterType', key_impl='FilterType', name='try_from',
             rules=dict(no_sink=True, raw_sig=True, subst=[dict(rule='R7', lit='std::result::Result<FilterType, ()>', to='(r: core::result::Result<FilterType, ()>)', count=1, note='result named')])),
        dict(file=P, name='paeth_predict', rules=dict(no_sink=True, subst=[I16,
            dict(rule='R5', pat=r'\((initial_estimate - \w+)\)\.abs\(\)', to=r'abs_i16(\1)', count=3, note='i16::abs shim')])),
        dict(file=P, name='decode_row', rules=dict(no_sink=True, subst=[I16,
            dict(rule='R5', lit='bpp.min(len)', to='min_usize(bpp, len)', count=1, note='usize::min shim'),
            dict(rule='R13', lit='(current[i - bpp] as i16) + (previous[i] as i16) / 2) as u8)', to='(current[i - bpp] as i16) + (previous[i] as i16) / 2) as u8)', optional=True, note='see below'),
        ])),
        dict(file=P, name='decode_frame', rules=dict(no_sink=True, subst=[
            dict(rule='R5', lit='previous.try_reserve(bytes_per_row)', to='vec_try_reserve(&mut previous, bytes_per_row)', count=1, note='Vec::try_reserve shim with allocation-size obligation'),
            dict(rule='R5', lit='current.try_reserve(bytes_per_row)', to='vec_try_reserve(&mut current, bytes_per_row)', count=1, note='Vec::try_reserve shim'),
            dict(rule='R5', lit='previous.resize(bytes_per_row, 0_u8);', to='vec_resize(&mut previous, bytes_per_row, 0_u8);', count=1, note='Vec::resize shim'),
            dict(rule='R5', lit='current.resize(bytes_per_row, 0_u8);', to='vec_resize(&mut current, bytes_per_row, 0_u8);', count=1, note='Vec::resize shim'),
            dict(rule='R5', lit='content[pos].try_into()', to='FilterType::try_from(content[pos])', count=1, note='TryInto dispatch made explicit (the impl is in this file)'),
            dict(rule='R5', lit='(&content[pos..]).read_exact(current.as_mut_slice())', to='read_exact_from(content, pos, &mut current)', count=1, note='<&[u8] as Read>::read_exact shim'),
            dict(rule='R5', lit='decoded.write_all(current.as_slice())', to='vec_write_all(&mut decoded, current.as_slice())', count=1, note='<Vec<u8> as Write>::write_all shim'),
            dict(rule='R7', pat=r'\.ok_or_else\(\|\| Error::new\(ErrorKind::\w+, "[^"]*"\)\)', to='.ok_or(IoError)', count=1, note='error payload dropped'),
            dict(rule='R7', pat=r'Error::new\(\s*ErrorKind::\w+,\s*(?:"[^"]*"|format!\("[^"]*"(?:,[^;]*?)?\))\s*,?\s*\)', to='IoError', count=2, note='error payload dropped'),
        ])),
    ],
)
