D = 'src/document.rs'
O = 'src/object.rs'
UNIT = dict(
    properties=['C13'],
    prelude=['arch64.rs', 'containers.rs'],
    rlimit=80,
    types=[
        dict(file=O, kind='type', name='ObjectId'),
        dict(file=D, kind='const', name='DEREF_LIMIT'),
    ],
    functions=[
        dict(file=D, impl='Document', name='dereference', rules=dict(no_sink=True, raw_sig=True, loops={}, pre_subst=[
            dict(rule='R7', lit="fn dereference<'a>(&'a self, mut object: &'a Object) -> Result<(Option<ObjectId>, &'a Object)> {", to="fn dereference<'a>(&'a self, object0: &'a Object) -> (r: Result<(Option<ObjectId>, &'a Object)>)\n    {\n        let mut object = object0;", count=1, note='result named; `mut` by-value parameter written as an immutable parameter moved into a mutable local'),
            dict(rule='R2', lit='while let Ok(ref_id) = object.as_reference() {', to='loop {\n            let __wl = object.as_reference();\n            if __wl.is_err() {\n                break;\n            }\n            let ref_id = __wl.unwrap();', count=1, note='`while let Ok(p) = e { body }` as `loop { let t = e; if t.is_err() { break } let p = t.unwrap(); body }`'),
            dict(rule='R5', lit='self.objects.get(&ref_id).ok_or(Error::ObjectNotFound(ref_id))?', to='ok_or_not_found(self.objects.get(&ref_id), ref_id)?', count=1, note='Option::ok_or shim'),
            dict(rule='R5', lit='Self::DEREF_LIMIT', to='DEREF_LIMIT', count=1, note='associated constant (cut from the impl block) as a module constant'),
        ])),
        dict(file=D, impl='Document', name='get_object', rules=dict(no_sink=True, raw_sig=True, pre_subst=[
            dict(rule='R7', lit='fn get_object(&self, id: ObjectId) -> Result<&Object> {', to='fn get_object(&self, id: ObjectId) -> (r: Result<&Object>)\n    {', count=1, note='result named'),
            dict(rule='R5', lit='self.objects.get(&id).ok_or(Error::ObjectNotFound(id))?', to='ok_or_not_found(self.objects.get(&id), id)?', count=1, note='Option::ok_or shim'),
            dict(rule='R10', lit='self.dereference(object).map(|(_, object)| object)', to='match self.dereference(object) { Ok((_, object)) => Ok(object), Err(e) => Err(e) }', count=1, note='Result::map with a projecting closure as a match'),
        ])),
    ],
)
