// ===== object lookup and the following of references (contracts of the callees only) =====
#[derive(Debug)]
pub enum Error { ObjectNotFound(ObjectId), ReferenceLimit, Other }
pub type Result<T> = core::result::Result<T, Error>;
/// Object as far as the lookup looks at it: a reference or something else (told apart by a tag)
pub enum Object { Reference(ObjectId), Other(int) }
impl Object {
    pub fn as_reference(&self) -> (r: Result<ObjectId>)
        ensures r is Ok <==> self is Reference, r is Ok ==> r->Ok_0 == self->Reference_0
    { match self { Object::Reference(id) => Ok(*id), _ => Err(Error::Other) } }
}
pub struct Document { pub objects: VBTreeMap<ObjectId, Object> }
pub fn ok_or_not_found<'a>(o: Option<&'a Object>, id: ObjectId) -> (r: Result<&'a Object>)
    ensures r is Ok <==> o is Some, r is Ok ==> r->Ok_0 == o->Some_0, r is Err ==> r->Err_0 == Error::ObjectNotFound(id)
{ match o { Some(x) => Ok(x), None => Err(Error::ObjectNotFound(id)) } }

/// Following references from `obj`, `hops` of them already followed and `last` the id followed last: the object the chain
/// ends in and the last id, or the error: a reference to an object the document does not hold, or more than DEREF_LIMIT hops
/// (which every cyclic chain runs into).
spec fn chase(m: Map<ObjectId, Object>, obj: Object, last: Option<ObjectId>, hops: nat) -> core::result::Result<(Option<ObjectId>, Object), Error>
    decreases DEREF_LIMIT + 1 - hops
{
    match obj {
        Object::Reference(id) =>
            if !m.contains_key(id) { Err(Error::ObjectNotFound(id)) }
            else if hops + 1 > DEREF_LIMIT { Err(Error::ReferenceLimit) }
            else { chase(m, m[id], Some(id), hops + 1) },
        Object::Other(_) => Ok((last, obj)),
    }
}
