// =====================================================================================
// Cross-reference table / stream layout, from ISO 32000-1 7.5.4 and 7.5.8
// =====================================================================================
pub open spec fn zeros(n: nat) -> Seq<u8> { Seq::new(n, |i: int| 0x30u8) }
// `{:>0W}` of a non-negative integer: right-aligned, zero filled to at least W columns
pub open spec fn dec_pad(v: nat, w: nat) -> Seq<u8> {
    let d = dec_nat(v);
    if d.len() >= w { d } else { zeros((w - d.len()) as nat) + d }
}
pub open spec fn pow10(k: nat) -> nat decreases k { if k == 0 { 1 } else { 10 * pow10((k - 1) as nat) } }
pub proof fn lemma_dec_len(v: nat, k: nat)
    requires k >= 1, v < pow10(k)
    ensures 1 <= dec_nat(v).len() <= k
    decreases k
{
    reveal_with_fuel(pow10, 2);
    if v >= 10 {
        assert(k >= 2);
        assert(v / 10 < pow10((k - 1) as nat));
        lemma_dec_len(v / 10, (k - 1) as nat);
    }
}
pub proof fn lemma_pad_len(v: nat, k: nat)
    requires k >= 1, v < pow10(k)
    ensures dec_pad(v, k).len() == k
{ lemma_dec_len(v, k); }

pub open spec fn TAIL_N() -> Seq<u8> { seq![0x20u8, 0x6e, 0x20, 0x0a] }   // " n \n"
pub open spec fn TAIL_F() -> Seq<u8> { seq![0x20u8, 0x66, 0x20, 0x0a] }   // " f \n"
pub open spec fn entry20(e: XrefEntry) -> Seq<u8> {
    match e {
        XrefEntry::Normal { offset, generation } => dec_pad(offset as nat, 10) + seq![0x20u8] + dec_pad(generation as nat, 5) + TAIL_N(),
        XrefEntry::Free => dec_pad(0, 10) + seq![0x20u8] + dec_pad(0, 5) + TAIL_F(),
        _ => dec_pad(0, 10) + seq![0x20u8] + dec_pad(65535, 5) + TAIL_F(),
    }
}
// "table entries are exactly 20 bytes"
pub proof fn lemma_entry20_len(e: XrefEntry) ensures entry20(e).len() == 20
{
    reveal_with_fuel(pow10, 11);
    assert(pow10(10) == 10000000000);
    assert(pow10(5) == 100000);
    match e {
        XrefEntry::Normal { offset, generation } => { lemma_pad_len(offset as nat, 10); lemma_pad_len(generation as nat, 5); }
        XrefEntry::Free => { lemma_pad_len(0, 10); lemma_pad_len(0, 5); }
        _ => { lemma_pad_len(0, 10); lemma_pad_len(65535, 5); }
    }
}

pub open spec fn ents_bytes(es: Seq<XrefEntry>, i: int) -> Seq<u8> decreases i {
    if i <= 0 { Seq::<u8>::empty() } else { ents_bytes(es, i - 1) + entry20(es[i - 1]) }
}
pub open spec fn sec_head(start: u32, n: nat) -> Seq<u8> { dec_nat(start as nat) + seq![0x20u8] + dec_nat(n) + seq![0x0au8] }
pub open spec fn sec_bytes(start: u32, es: Seq<XrefEntry>) -> Seq<u8> {
    if es.len() == 0 { Seq::<u8>::empty() } else { sec_head(start, es.len()) + ents_bytes(es, es.len() as int) }
}
pub proof fn lemma_ents_mono(es: Seq<XrefEntry>, i: int, j: int)
    requires 0 <= i <= j ensures ents_bytes(es, i).is_prefix_of(ents_bytes(es, j)) decreases j - i
{
    if i < j { lemma_ents_mono(es, i, j - 1); lemma_prefix_app(ents_bytes(es, j - 1), entry20(es[j - 1])); lemma_prefix_trans(ents_bytes(es, i), ents_bytes(es, j - 1), ents_bytes(es, j)); }
}
pub proof fn lemma_ents_len(es: Seq<XrefEntry>, i: int)
    requires 0 <= i ensures ents_bytes(es, i).len() == 20 * i decreases i
{ if i > 0 { lemma_ents_len(es, i - 1); lemma_entry20_len(es[i - 1]); } }

// ---- the table as a function of the entry map: object 0 is always listed (free, 65535); subsections are
// the maximal runs of listed object numbers below `size`; an entry held in an object stream is listed free.
pub open spec fn tbl_present(m: Map<u32, XrefEntry>, id: int) -> bool { id == 0 || (0 < id <= u32::MAX && m.contains_key(id as u32)) }
pub open spec fn tbl_ent(m: Map<u32, XrefEntry>, id: int) -> XrefEntry {
    if id == 0 { XrefEntry::UnusableFree } else {
        match m[id as u32] {
            XrefEntry::Normal { offset, generation } => XrefEntry::Normal { offset, generation },
            XrefEntry::Free => XrefEntry::Free,
            _ => XrefEntry::UnusableFree,
        }
    }
}
pub open spec fn tbl_run_end(m: Map<u32, XrefEntry>, size: int, s: int) -> int decreases size - s {
    if s >= size || !tbl_present(m, s) { s } else { tbl_run_end(m, size, s + 1) }
}
pub open spec fn tbl_run(m: Map<u32, XrefEntry>, s: int, e: int) -> Seq<XrefEntry> { Seq::new((e - s) as nat, |j: int| tbl_ent(m, s + j)) }
pub open spec fn table_from(m: Map<u32, XrefEntry>, size: int, s: int) -> Seq<u8> decreases size - s {
    if s >= size { Seq::<u8>::empty() }
    else if !tbl_present(m, s) { table_from(m, size, s + 1) }
    else { let e = tbl_run_end(m, size, s); if e <= s || e > size { Seq::<u8>::empty() } else { sec_bytes(s as u32, tbl_run(m, s, e)) + table_from(m, size, e) } }
}
pub open spec fn KW_XREF() -> Seq<u8> { seq![0x78u8, 0x72, 0x65, 0x66, 0x0a] }
pub open spec fn xref_table(m: Map<u32, XrefEntry>, size: u32) -> Seq<u8> { KW_XREF() + table_from(m, size as int, 0) }

pub proof fn lemma_run_end_bounds(m: Map<u32, XrefEntry>, size: int, s: int)
    requires s < size, tbl_present(m, s)
    ensures s < tbl_run_end(m, size, s) <= size,
            forall|j: int| s <= j < tbl_run_end(m, size, s) ==> tbl_present(m, j),
            tbl_run_end(m, size, s) < size ==> !tbl_present(m, tbl_run_end(m, size, s))
    decreases size - s
{
    assert(tbl_run_end(m, size, s) == tbl_run_end(m, size, s + 1));
    if s + 1 < size && tbl_present(m, s + 1) { lemma_run_end_bounds(m, size, s + 1); }
    else { assert(tbl_run_end(m, size, s + 1) == s + 1); }
}
// a run that is known to stop at e
pub proof fn lemma_run_end_is(m: Map<u32, XrefEntry>, size: int, s: int, e: int)
    requires s <= e <= size, forall|j: int| s <= j < e ==> tbl_present(m, j), e == size || !tbl_present(m, e)
    ensures tbl_run_end(m, size, s) == e
    decreases e - s
{
    if s < e { lemma_run_end_is(m, size, s + 1, e); }
}

// =====================================================================================
// Cross-reference stream rows, W = [1 4 2] (7.5.8.3)
// =====================================================================================
pub open spec fn row7(id: u32, e: XrefEntry) -> Seq<u8> {
    match e {
        XrefEntry::Free => seq![0u8] + be32(id) + seq![0u8, 0u8],
        XrefEntry::UnusableFree => seq![0u8] + be32(id) + be16(65535),
        XrefEntry::Normal { offset, generation } => seq![1u8] + be32(offset) + be16(generation),
        XrefEntry::Compressed { container, index } => seq![2u8] + be32(container) + be16(index),
    }
}
pub proof fn lemma_row7_len(id: u32, e: XrefEntry) ensures row7(id, e).len() == 7 { }
pub open spec fn sec_rows(start: u32, es: Seq<XrefEntry>, i: int) -> Seq<u8> decreases i {
    if i <= 0 { Seq::<u8>::empty() } else { sec_rows(start, es, i - 1) + row7((start + i - 1) as u32, es[i - 1]) }
}
pub proof fn lemma_sec_rows_len(start: u32, es: Seq<XrefEntry>, i: int)
    requires 0 <= i ensures sec_rows(start, es, i).len() == 7 * i decreases i
{ if i > 0 { lemma_sec_rows_len(start, es, i - 1); } }

pub open spec fn pairs_stream(ps: Seq<(u32, Seq<XrefEntry>)>, k: int) -> Seq<u8> decreases k {
    if k <= 0 { Seq::<u8>::empty() } else { pairs_stream(ps, k - 1) + sec_rows(ps[k - 1].0, ps[k - 1].1, ps[k - 1].1.len() as int) }
}
pub open spec fn pairs_index(ps: Seq<(u32, Seq<XrefEntry>)>, k: int) -> Seq<SObj> decreases k {
    if k <= 0 { Seq::<SObj>::empty() } else { pairs_index(ps, k - 1).push(SObj::Integer(ps[k - 1].0 as i64)).push(SObj::Integer((ps[k - 1].1.len() as usize) as i64)) }
}
pub proof fn lemma_abs_items_prefix(a: Seq<Object>, x: Object, i: int)
    requires 0 <= i <= a.len() ensures abs_items(a.push(x), i) == abs_items(a, i) decreases i
{ if i > 0 { lemma_abs_items_prefix(a, x, i - 1); } }
pub proof fn lemma_abs_items_push(a: Seq<Object>, x: Object)
    ensures abs_items(a.push(x), a.len() as int + 1) == abs_items(a, a.len() as int).push(abs(x))
{ lemma_abs_items_prefix(a, x, a.len() as int); }
pub open spec fn pairs_count(ps: Seq<(u32, Seq<XrefEntry>)>, k: int) -> int decreases k {
    if k <= 0 { 0 } else { pairs_count(ps, k - 1) + ps[k - 1].1.len() }
}
// "Length = 7 x the number of rows the Index pairs announce"
pub proof fn lemma_pairs_stream_len(ps: Seq<(u32, Seq<XrefEntry>)>, k: int)
    requires 0 <= k ensures pairs_stream(ps, k).len() == 7 * pairs_count(ps, k) decreases k
{ if k > 0 { lemma_pairs_stream_len(ps, k - 1); lemma_sec_rows_len(ps[k - 1].0, ps[k - 1].1, ps[k - 1].1.len() as int); } }

// the sections of a cross-reference stream as a function of the entry map: maximal runs of listed numbers in [1, lim)
pub open spec fn st_present(m: Map<u32, XrefEntry>, id: int) -> bool { 0 < id <= u32::MAX && m.contains_key(id as u32) }
pub open spec fn st_run_end(m: Map<u32, XrefEntry>, lim: int, s: int) -> int decreases lim - s {
    if s >= lim || !st_present(m, s) { s } else { st_run_end(m, lim, s + 1) }
}
pub open spec fn st_run(m: Map<u32, XrefEntry>, s: int, e: int) -> Seq<XrefEntry> { Seq::new((e - s) as nat, |j: int| m[(s + j) as u32]) }
// (start, entries) pairs
pub open spec fn st_sections(m: Map<u32, XrefEntry>, lim: int, s: int) -> Seq<(u32, Seq<XrefEntry>)> decreases lim - s {
    if s >= lim { Seq::empty() }
    else if !st_present(m, s) { st_sections(m, lim, s + 1) }
    else { let e = st_run_end(m, lim, s); if e <= s || e > lim { Seq::empty() } else { seq![(s as u32, st_run(m, s, e))] + st_sections(m, lim, e) } }
}
pub open spec fn secs_view(secs: Seq<XrefSection>) -> Seq<(u32, Seq<XrefEntry>)> { Seq::new(secs.len(), |k: int| (secs[k].starting_id, secs[k].entries@)) }
pub proof fn lemma_st_run_end_is(m: Map<u32, XrefEntry>, lim: int, s: int, e: int)
    requires s <= e <= lim, forall|j: int| s <= j < e ==> st_present(m, j), e == lim || !st_present(m, e)
    ensures st_run_end(m, lim, s) == e
    decreases e - s
{
    if s < e { lemma_st_run_end_is(m, lim, s + 1, e); }
}

// =====================================================================================
// fmt shims (R3) of the cross-reference code
// =====================================================================================
// LIT fmt_ecc1cbad: "{:>010} {:>05} n \n"
#[verifier::external_body]
pub fn fmt_ecc1cbad<W: Write>(file: &mut W, a: &u32, b: &u16) -> (r: Result<()>)
    ensures wrote(*old(file), *final(file), r is Ok, dec_pad(*a as nat, 10) + seq![0x20u8] + dec_pad(*b as nat, 5) + TAIL_N())
{ unimplemented!() }
// LIT fmt_1c4d873f: "{:>010} {:>05} f \n"
#[verifier::external_body]
pub fn fmt_1c4d873f<W: Write>(file: &mut W, a: u32, b: u32) -> (r: Result<()>)
    ensures wrote(*old(file), *final(file), r is Ok, dec_pad(a as nat, 10) + seq![0x20u8] + dec_pad(b as nat, 5) + TAIL_F())
{ unimplemented!() }
// LIT fmt_060f8867: "{} {}\n"
#[verifier::external_body]
pub fn fmt_060f8867<W: Write>(file: &mut W, a: u32, b: usize) -> (r: Result<()>)
    ensures wrote(*old(file), *final(file), r is Ok, dec_nat(a as nat) + seq![0x20u8] + dec_nat(b as nat) + seq![0x0au8])
{ unimplemented!() }
// LIT fmt_837aab39: "xref\n"
#[verifier::external_body]
pub fn fmt_837aab39<W: Write>(file: &mut W) -> (r: Result<()>)
    ensures wrote(*old(file), *final(file), r is Ok, KW_XREF())
{ unimplemented!() }
pub open spec fn KW_OBJ() -> Seq<u8> { seq![0x20u8, 0x6f, 0x62, 0x6a, 0x0a] }               // " obj\n"
pub open spec fn KW_ENDOBJ() -> Seq<u8> { seq![0x0au8, 0x65, 0x6e, 0x64, 0x6f, 0x62, 0x6a, 0x0a] }  // "\nendobj\n"
// LIT fmt_e1f57e1f: "{} {} obj\n{}"
#[verifier::external_body]
pub fn fmt_e1f57e1f<W: Write>(file: &mut W, a: u32, b: u16, c: &[u8]) -> (r: Result<()>)
    ensures wrote(*old(file), *final(file), r is Ok, dec_nat(a as nat) + seq![0x20u8] + dec_nat(b as nat) + KW_OBJ() + c@)
{ unimplemented!() }
// LIT fmt_3053f955: "{}\nendobj\n"
#[verifier::external_body]
pub fn fmt_3053f955<W: Write>(file: &mut W, c: &[u8]) -> (r: Result<()>)
    ensures wrote(*old(file), *final(file), r is Ok, c@ + KW_ENDOBJ())
{ unimplemented!() }

// R5: #[derive(Clone)] on a plain-data enum is the structural identity
#[verifier::external_body]
pub fn clone_xref_entry(e: &XrefEntry) -> (r: XrefEntry) ensures r == *e { unimplemented!() }
// R15: ASCIIHex re-encoding of the row data (never reached: the only caller passes XRefStreamFilter::None)
pub uninterp spec fn ascii_hex(s: Seq<u8>) -> Seq<u8>;
#[verifier::external_body]
pub fn ascii_hex_encode(v: Vec<u8>) -> (r: Vec<u8>) ensures r@ == ascii_hex(v@) { unimplemented!() }

// one indirect object as it appears in the file body
pub open spec fn enc_indirect(id: u32, generation: u16, o: Object) -> Seq<u8> {
    dec_nat(id as nat) + seq![0x20u8] + dec_nat(generation as nat) + KW_OBJ() + sep(sp_before(o)) + enc_obj(o) + sep(sp_after(o)) + KW_ENDOBJ()
}

// abstraction function of CountingWrite: it is a sink whose position is its own byte counter
impl<W: Write> SinkView for CountingWrite<W> {
    open spec fn delivered(&self) -> Seq<u8> { self.inner.delivered() }
    open spec fn cap(&self) -> nat { self.inner.cap() }
    open spec fn pos(&self) -> nat { self.bytes_written as nat }
    open spec fn unbounded(&self) -> bool { self.inner.unbounded() }
}

// what create_xref_steam returns for the entry map m and table size `size` (rows for object numbers 1..=size)
pub open spec fn xref_stream_pairs(m: Map<u32, XrefEntry>, size: u32) -> Seq<(u32, Seq<XrefEntry>)> { st_sections(m, size + 1, 1) }
pub open spec fn xref_stream_raw(m: Map<u32, XrefEntry>, size: u32) -> Seq<u8> { let ps = xref_stream_pairs(m, size); pairs_stream(ps, ps.len() as int) }
pub open spec fn xref_stream_index(m: Map<u32, XrefEntry>, size: u32) -> Seq<SObj> { let ps = xref_stream_pairs(m, size); pairs_index(ps, ps.len() as int) }
