W = 'src/writer.rs'
SKIP = dict(rule='R15', pat=r'if object\s*\.type_name\(\)\s*\.map\(\|name\| \[lit_4f626a53746d\(\)\.as_slice\(\), lit_58526566\(\)\.as_slice\(\), lit_4c696e656172697a6564\(\)\.as_slice\(\)\]\.contains\(&name\)\)\s*\.ok\(\)\s*!= Some\(true\)\s*\{', to='if !is_structural_object(object) {', count=1, note='ObjStm/XRef/Linearized skip test replaced by an uninterpreted predicate')
CW0 = dict(rule='R4c', pat=r'let mut target = CountingWrite \{\s*inner: target,\s*bytes_written: ([^,]+),\s*\};', to=r'let __bw0: usize = \1;', count=1, note='construction of CountingWrite hoisted to the caller: the parameter is the CountingWrite itself')
SIG = dict(rule='R4c', pat=r'fn save_internal<W: Write>\(&mut self, target: &mut W\)', to='fn save_internal<W: Write>(&mut self, target: &mut CountingWrite<W>)', count=1, note='see R4c')
VERS = dict(rule='R3', lit='(target, self.version)', to='(target, &self.version)', count=1, note='format arguments are taken by reference')
VERS2 = dict(rule='R3', lit='(target, self.new_document.version)', to='(target, &self.new_document.version)', count=1, note='format arguments are taken by reference')
TARGET = dict(rule='R4c', pat=r'&mut target\b', to='target', note='`&mut target` -> `target` (the parameter already is the &mut CountingWrite)')

X = 'src/xref.rs'
BT = [dict(rule='R8', lit='BTreeMap::new()', to='VBTreeMap::new()', note='BTreeMap model')]
ITOA = [dict(rule='R5', lit='itoa::Buffer::new()', to='ItoaBuffer::new()', note='itoa shim'),
        dict(rule='R5', lit='buf.format(*value).as_bytes()', to='buf.format(*value).as_slice()', note='itoa shim returns Vec<u8>')]
UNIT = dict(
    rlimit=120,
    properties=['C01', 'C03', 'C14', 'C19'],   # default tags; per-function `props` below override
    prelude=['io.rs', 'pdfobj.rs', 'absobj.rs', 'containers.rs'],
    spec=['spec.rs', 'xrefspec.rs', 'docspec.rs'],
    post=['grammar.rs', '../reader/xsspec.rs', 'xrefrt.rs'],
    types=[
        dict(file='src/reader.rs', kind='const', name='MAX_BRACKET'),
        dict(file='src/object.rs', kind='type', name='ObjectId'),
        dict(file='src/object.rs', kind='enum', name='StringFormat'),
        dict(file='src/object.rs', kind='struct', name='Stream'),
        dict(file='src/object.rs', kind='enum', name='Object'),
        dict(file='src/content.rs', kind='struct', name='Operation', subst=[dict(rule='R12', lit='pub operator: String,', to='pub operator: std::string::String,', count=1, note='path made explicit')]),
        dict(file='src/content.rs', kind='struct', name='Content', subst=[
            dict(rule='R11', lit='pub struct Content<Operations: AsRef<[Operation]> = Vec<Operation>> {', to='pub struct Content {', count=1, note='generic parameter at its default Vec<Operation>'),
            dict(rule='R11', lit='pub operations: Operations,', to='pub operations: Vec<Operation>,', count=1, note='generic parameter at its default')]),
        dict(file='src/writer.rs', kind='struct', name='CountingWrite'),
        dict(file='src/xref.rs', kind='enum', name='XrefType'),
        dict(file='src/writer.rs', kind='enum', name='XRefStreamFilter', structural=True),
        dict(file='src/xref.rs', kind='enum', name='XrefEntry'),
        dict(file='src/xref.rs', kind='struct', name='XrefSection'),
        dict(file='src/document.rs', kind='struct', name='Document', subst=[
            dict(rule='R8', lit='BTreeMap<ObjectId, Object>', to='ObjMap', count=1, note='BTreeMap model: key-ordered entry list'),
            dict(rule='R12', lit='pub version: String,', to='pub version: std::string::String,', count=1, note='path made explicit (flattened module has `use Object::*`)'),
            dict(rule='R15', pat=r'^\s*pub bookmark_table: HashMap<u32, Bookmark>,\n', to='', count=1, note='field not used by the writer'),
            dict(rule='R15', pat=r'^\s*pub encryption_state: Option<EncryptionState>,\n', to='', count=1, note='field not used by the writer')]),
        dict(file='src/incremental_document.rs', kind='struct', name='IncrementalDocument'),
        dict(file='src/xref.rs', kind='struct', name='Xref', subst=[dict(rule='R8', lit='BTreeMap<u32, XrefEntry>', to='VBTreeMap<u32, XrefEntry>', note='BTreeMap model')]),
    ],
    functions=[
        dict(file=W, impl='Write for CountingWrite<W>', emit_impl='impl<W: Write> Write for CountingWrite<W>', name='write', props=['C01', 'C03', 'C19'], rules=dict(no_sink=True, subst=[
            dict(rule='R17', lit='self.bytes_written += bytes;', to='self.bytes_written = counter_add(self.bytes_written, bytes);', count=1, note='byte counter cannot overflow')])),
        dict(file=W, impl='Write for CountingWrite<W>', emit_impl='impl<W: Write> Write for CountingWrite<W>', name='write_all', props=['C01', 'C03', 'C19'], rules=dict(no_sink=True, subst=[
            dict(rule='R17', lit='self.bytes_written += buffer.len();', to='self.bytes_written = counter_add(self.bytes_written, buffer.len());', count=1, note='byte counter cannot overflow')])),
        dict(file=W, impl='Write for CountingWrite<W>', emit_impl='impl<W: Write> Write for CountingWrite<W>', name='flush', props=['C01', 'C03', 'C19'], rules=dict(no_sink=True)),
        dict(file=X, impl='Xref', name='new', props=['C01','C03','C19'], rules=dict(subst=BT)),
        dict(file=X, impl='Xref', name='get', props=['C01','C03','C19']),
        dict(file=X, impl='Xref', name='insert', props=['C01','C03','C19']),
        dict(file=X, impl='XrefEntry', name='write_xref_entry', props=['C01', 'C03', 'C19']),
        dict(file=X, impl='XrefSection', name='new', props=['C01','C03','C19']),
        dict(file=X, impl='XrefSection', name='add_entry', props=['C01', 'C03', 'C19']),
        dict(file=X, impl='XrefSection', name='add_unusable_free_entry', props=['C01', 'C03', 'C19']),
        dict(file=X, impl='XrefSection', name='is_empty', props=['C01', 'C03', 'C19']),
        dict(file=X, impl='XrefSection', name='write_xref_section', props=['C01', 'C03', 'C19']),
        dict(file=W, impl='Writer', name='need_separator', rules=dict(no_sink=True)),
        dict(file=W, impl='Writer', name='need_end_separator', rules=dict(no_sink=True)),
        dict(file=W, impl='Writer', name='write_object', rules=dict(subst=ITOA + [dict(rule='R5', lit='value.fract() == 0.0 && value.abs() >= 9.223372e18', to='f32_integral_beyond_i64(*value)', count=1, note='f32 test replaced by an uninterpreted predicate')])),
        dict(file=W, impl='Writer', name='write_name'),
        dict(file=W, impl='Writer', name='write_string', rules=dict(subst=[dict(rule='R5', lit='crate::reader::MAX_BRACKET', to='MAX_BRACKET', optional=True, note='constant cut from reader.rs into the generated module')])),
        dict(file=W, impl='Writer', name='write_array'),
        dict(file=W, impl='Writer', name='write_dictionary', rules=dict(loops={1: dict(kind='pairs', seq='dictionary.entries')})),
        dict(file=W, impl='Writer', name='write_stream'),
        dict(file=W, impl='Writer', name='write_xref', props=['C01', 'C03', 'C19']),
        dict(file=W, impl='Writer', name='create_xref_steam', props=['C01', 'C03', 'C19'], rules=dict(subst=[
            dict(rule='R5', lit='xref_stream.extend(obj_id.to_be_bytes());', to='extend_be_u32(&mut xref_stream, obj_id);', count=2, note='to_be_bytes shim'),
            dict(rule='R5', lit='xref_stream.extend(vec![0, 0]);', to='extend_vec(&mut xref_stream, vec![0, 0]);', count=1, note='Vec::extend shim'),
            dict(rule='R5', lit='xref_stream.extend(65535_u16.to_be_bytes());', to='extend_be_u16(&mut xref_stream, 65535_u16);', count=1, note='to_be_bytes shim'),
            dict(rule='R5', lit='xref_stream.extend(offset.to_be_bytes());', to='extend_be_u32(&mut xref_stream, *offset);', count=1, note='to_be_bytes shim'),
            dict(rule='R5', lit='xref_stream.extend(generation.to_be_bytes());', to='extend_be_u16(&mut xref_stream, *generation);', count=1, note='to_be_bytes shim'),
            dict(rule='R5', lit='xref_stream.extend(container.to_be_bytes());', to='extend_be_u32(&mut xref_stream, *container);', count=1, note='to_be_bytes shim'),
            dict(rule='R5', lit='xref_stream.extend(index.to_be_bytes());', to='extend_be_u16(&mut xref_stream, *index);', count=1, note='to_be_bytes shim'),
            dict(rule='R5', lit='entry.clone()', to='clone_xref_entry(entry)', count=1, note='derived Clone is structural identity'),
            dict(rule='R15', pat=r'xref_stream = xref_stream\s*\.iter\(\)\s*\.flat_map\(\|c\| format!\("\{:02X\}", c\)\.as_bytes\(\)\.to_vec\(\)\)\s*\.collect::<Vec<u8>>\(\);', to='xref_stream = ascii_hex_encode(xref_stream);', count=1, note='ASCIIHex branch (dead: the only caller passes XRefStreamFilter::None) replaced by an uninterpreted shim'),
        ])),
        dict(file=W, impl='Writer', name='write_indirect_object', props=['C01', 'C03', 'C19']),
        dict(file='src/incremental_document.rs', impl='IncrementalDocument', name='get_prev_documents', props=['C03','C07','C19'], rules=dict(no_sink=True)),
        dict(file='src/incremental_document.rs', impl='IncrementalDocument', name='get_prev_documents_bytes', props=['C03','C07','C19'], rules=dict(no_sink=True)),
        dict(file=W, impl='Document', name='write_trailer', props=['C01', 'C03', 'C19'], rules=dict(subst=[
            dict(rule='R11', lit='i64::from(self.max_id + 1));', to='Object::Integer((self.max_id + 1) as i64));', count=1, note='Into<Object> at i64 made concrete (object.rs:64 From<i64>)')])),
        dict(file=W, impl='Document', name='write_cross_reference_stream', props=['C01', 'C03', 'C19'], rules=dict(subst=[
            dict(rule='R11', lit='i64::from(self.max_id + 1));', to='Object::Integer((self.max_id + 1) as i64));', count=1, note='Into<Object> at i64 made concrete'),
            dict(rule='R11', lit='stream_length as i64);', to='Object::Integer(stream_length as i64));', count=1, note='Into<Object> at i64 made concrete'),
            dict(rule='R5', lit='trailer.clone()', to='clone_dictionary(trailer)', count=1, note='derived Clone is structural identity'),
        ])),
        dict(file=W, impl='Document', name='save_internal', props=['C01','C03','C19'], rules=dict(loops={1: dict(kind='idpairs', seq='self.objects.entries')}, pre_subst=[SIG], subst=[SKIP, CW0, TARGET, VERS])),
        dict(file=W, impl='IncrementalDocument', name='save_internal', props=['C03','C07','C19'], rules=dict(loops={1: dict(kind='idpairs', seq='self.new_document.objects.entries')}, pre_subst=[SIG], subst=[SKIP, CW0, TARGET, VERS2, dict(rule='R17', lit='target.bytes_written += prev_document_bytes.len();', to='target.bytes_written = counter_add(target.bytes_written, prev_document_bytes.len());', count=1, note='byte counter cannot overflow')])),
        dict(file='src/content.rs', impl=r're:^impl<Operations: AsRef<\[Operation\]>> Content<Operations> \{', emit_impl='impl Content', key_impl='Content', name='encode', props=['C14', 'C01'], rules=dict(
            loops={2: dict(kind='pairs', seq='image.dict.entries')},
            pre_subst=[dict(rule='R11', lit='self.operations.as_ref()', to='self.operations', count=1, note='AsRef<[Operation]> at Vec<Operation>'),
                       dict(rule='R10', lit='for (key, value) in image.dict.iter() {', to='for (key, value) in image_dict {', count=1, note='IndexMap iteration = entry list (R8)')],
            subst=[dict(rule='R5', lit='operation.operator.as_bytes()', to='string_as_bytes(&operation.operator)', count=1, note='String::as_bytes shim'),
                   dict(rule='R5', lit='operation.operator == "BI"', to='string_is(&operation.operator, lit_4249())', count=1, note='String == &str shim'),
                   dict(rule='R10', lit='if let [Object::Stream(image)] = operation.operands.as_slice() {', to='if let Some(image) = single_stream_operand(&operation.operands) {', count=1, note='slice pattern [Stream(x)] template'),
                   dict(rule='R5', lit='key == lit_4c656e677468()', to='vec_is(key, lit_4c656e677468())', count=1, note='Vec<u8> == &[u8] shim'),
                   dict(rule='R5', lit='key.clone()', to='clone_vec_u8(key)', count=1, note='Vec<u8>::clone shim'),
            ])),
        dict(file=W, impl='Writer', name='write_binary_mark', props=['C01', 'C03', 'C19'], rules=dict(subst=[
            dict(rule='R10', lit='binary_mark.iter().all(|&byte| byte >= 128)', to='all_ge_128(binary_mark)', note='iter().all template'),
            dict(rule='R7', pat=r'Err\(std::io::Error::new\(\s*std::io::ErrorKind::InvalidData,\s*"Invalid binary mark",\s*\)\)', to='Err(IoError)', note='error payload dropped'),
        ])),
    ],
)
