W = 'src/writer.rs'
X = 'src/xref.rs'
BT = [dict(rule='R8', lit='BTreeMap::new()', to='VBTreeMap::new()', note='BTreeMap model')]
ITOA = [dict(rule='R5', lit='itoa::Buffer::new()', to='ItoaBuffer::new()', note='itoa shim'),
        dict(rule='R5', lit='buf.format(*value).as_bytes()', to='buf.format(*value).as_slice()', note='itoa shim returns Vec<u8>')]
UNIT = dict(
    properties=['C01', 'C03', 'C14', 'C19'],
    prelude=['io.rs', 'pdfobj.rs', 'containers.rs'],
    spec=['spec.rs', 'xrefspec.rs'],
    types=[
        dict(file='src/object.rs', kind='type', name='ObjectId'),
        dict(file='src/object.rs', kind='enum', name='StringFormat'),
        dict(file='src/object.rs', kind='struct', name='Stream'),
        dict(file='src/object.rs', kind='enum', name='Object'),
        dict(file='src/writer.rs', kind='struct', name='CountingWrite'),
        dict(file='src/xref.rs', kind='enum', name='XrefType'),
        dict(file='src/writer.rs', kind='enum', name='XRefStreamFilter', structural=True),
        dict(file='src/xref.rs', kind='enum', name='XrefEntry'),
        dict(file='src/xref.rs', kind='struct', name='XrefSection'),
        dict(file='src/xref.rs', kind='struct', name='Xref', subst=[dict(rule='R8', lit='BTreeMap<u32, XrefEntry>', to='VBTreeMap<u32, XrefEntry>', note='BTreeMap model')]),
    ],
    functions=[
        dict(file=W, impl='Write for CountingWrite<W>', emit_impl='impl<W: Write> Write for CountingWrite<W>', name='write', rules=dict(no_sink=True, subst=[
            dict(rule='R17', lit='self.bytes_written += bytes;', to='self.bytes_written = counter_add(self.bytes_written, bytes);', count=1, note='byte counter cannot overflow')])),
        dict(file=W, impl='Write for CountingWrite<W>', emit_impl='impl<W: Write> Write for CountingWrite<W>', name='write_all', rules=dict(no_sink=True, subst=[
            dict(rule='R17', lit='self.bytes_written += buffer.len();', to='self.bytes_written = counter_add(self.bytes_written, buffer.len());', count=1, note='byte counter cannot overflow')])),
        dict(file=W, impl='Write for CountingWrite<W>', emit_impl='impl<W: Write> Write for CountingWrite<W>', name='flush', rules=dict(no_sink=True)),
        dict(file=X, impl='Xref', name='new', rules=dict(subst=BT)),
        dict(file=X, impl='Xref', name='get'),
        dict(file=X, impl='Xref', name='insert'),
        dict(file=X, impl='XrefEntry', name='write_xref_entry'),
        dict(file=X, impl='XrefSection', name='new'),
        dict(file=X, impl='XrefSection', name='add_entry'),
        dict(file=X, impl='XrefSection', name='add_unusable_free_entry'),
        dict(file=X, impl='XrefSection', name='is_empty'),
        dict(file=X, impl='XrefSection', name='write_xref_section'),
        dict(file=W, impl='Writer', name='need_separator', rules=dict(no_sink=True)),
        dict(file=W, impl='Writer', name='need_end_separator', rules=dict(no_sink=True)),
        dict(file=W, impl='Writer', name='write_object', rules=dict(subst=ITOA)),
        dict(file=W, impl='Writer', name='write_name'),
        dict(file=W, impl='Writer', name='write_string'),
        dict(file=W, impl='Writer', name='write_array'),
        dict(file=W, impl='Writer', name='write_dictionary', rules=dict(loops={1: dict(kind='pairs', seq='dictionary.entries')})),
        dict(file=W, impl='Writer', name='write_stream'),
        dict(file=W, impl='Writer', name='write_xref'),
        dict(file=W, impl='Writer', name='create_xref_steam', rules=dict(subst=[
            dict(rule='R5', lit='xref_stream.extend(obj_id.to_be_bytes());', to='extend_be_u32(&mut xref_stream, obj_id);', count=2, note='to_be_bytes shim'),
            dict(rule='R5', lit='xref_stream.extend(vec![0, 0]);', to='extend_vec(&mut xref_stream, vec![0, 0]);', count=1, note='Vec::extend shim'),
            dict(rule='R5', lit='xref_stream.extend(65535_u16.to_be_bytes());', to='extend_be_u16(&mut xref_stream, 65535_u16);', count=1, note='to_be_bytes shim'),
            dict(rule='R5', lit='xref_stream.extend(offset.to_be_bytes());', to='extend_be_u32(&mut xref_stream, *offset);', count=1, note='to_be_bytes shim'),
            dict(rule='R5', lit='xref_stream.extend(generation.to_be_bytes());', to='extend_be_u16(&mut xref_stream, *generation);', count=1, note='to_be_bytes shim'),
            dict(rule='R5', lit='xref_stream.extend(container.to_be_bytes());', to='extend_be_u32(&mut xref_stream, *container);', count=1, note='to_be_bytes shim'),
            dict(rule='R5', lit='xref_stream.extend(index.to_be_bytes());', to='extend_be_u16(&mut xref_stream, *index);', count=1, note='to_be_bytes shim'),
            dict(rule='R5', lit='entry.clone()', to='clone_xref_entry(entry)', count=1, note='derived Clone is structural identity'),
            dict(rule='R15', pat=r'xref_stream = xref_stream\s*\.iter\(\)\s*\.flat_map\(\|c\| format!\("\{:02X\}", c\)\.as_bytes\(\)\.to_vec\(\)\)\s*\.collect::<Vec<u8>>\(\);', to='xref_stream = ascii_hex_encode(xref_stream);', count=1, note='ASCIIHex branch (dead: the only caller passes XRefStreamFilter::None) replaced by an uninterpreted shim'),
        ])),
        dict(file=W, impl='Writer', name='write_indirect_object'),
        dict(file=W, impl='Writer', name='write_binary_mark', rules=dict(subst=[
            dict(rule='R10', lit='binary_mark.iter().all(|&byte| byte >= 128)', to='all_ge_128(binary_mark)', note='iter().all template'),
            dict(rule='R7', pat=r'Err\(std::io::Error::new\(\s*std::io::ErrorKind::InvalidData,\s*"Invalid binary mark",\s*\)\)', to='Err(IoError)', note='error payload dropped'),
        ])),
    ],
)
