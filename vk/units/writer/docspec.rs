// =====================================================================================
// Document-level models (R8) and the complete file layout (ISO 32000-1 7.5)
// =====================================================================================
// R8: BTreeMap<ObjectId, Object> is modelled by its key-ordered entry list (iteration order of a BTreeMap)
pub struct ObjMap { pub entries: Vec<((u32, u16), Object)> }

pub assume_specification<T: Clone> [<[T]>::to_vec] (s: &[T]) -> (r: Vec<T>) ensures r@ == s@;   // used at T = u8 only

// R15: the ObjStm / XRef / Linearized skip test of save_internal; its meaning is irrelevant to the layout
pub uninterp spec fn skip_obj(o: Object) -> bool;
#[verifier::external_body]
pub fn is_structural_object(o: &Object) -> (r: bool) ensures r == skip_obj(*o) { unimplemented!() }

// UTF-8 bytes of a String (Display of a String prints exactly them)
pub uninterp spec fn str_bytes(s: std::string::String) -> Seq<u8>;

pub open spec fn KW_PDF() -> Seq<u8> { seq![0x25u8, 0x50, 0x44, 0x46, 0x2d] }
pub open spec fn KW_TRAILER() -> Seq<u8> { seq![0x74u8, 0x72, 0x61, 0x69, 0x6c, 0x65, 0x72, 0x0a] }
pub open spec fn KW_STARTXREF() -> Seq<u8> { seq![0x0au8, 0x73, 0x74, 0x61, 0x72, 0x74, 0x78, 0x72, 0x65, 0x66, 0x0a] }
pub open spec fn KW_EOF() -> Seq<u8> { seq![0x0au8, 0x25, 0x25, 0x45, 0x4f, 0x46] }
pub open spec fn K_SIZE() -> Seq<u8> { seq![0x53u8, 0x69, 0x7a, 0x65] }
pub open spec fn K_TYPE() -> Seq<u8> { seq![0x54u8, 0x79, 0x70, 0x65] }
pub open spec fn K_XREF() -> Seq<u8> { seq![0x58u8, 0x52, 0x65, 0x66] }
pub open spec fn K_W() -> Seq<u8> { seq![0x57u8] }
pub open spec fn K_INDEX() -> Seq<u8> { seq![0x49u8, 0x6e, 0x64, 0x65, 0x78] }
pub open spec fn K_FILTER() -> Seq<u8> { seq![0x46u8, 0x69, 0x6c, 0x74, 0x65, 0x72] }
pub open spec fn K_LENGTH() -> Seq<u8> { seq![0x4cu8, 0x65, 0x6e, 0x67, 0x74, 0x68] }

// LIT fmt_9bfd86b9: "%PDF-{}\n"
#[verifier::external_body]
pub fn fmt_9bfd86b9<W: Write>(file: &mut W, v: &std::string::String) -> (r: Result<()>)
    ensures wrote(*old(file), *final(file), r is Ok, KW_PDF() + str_bytes(*v) + seq![0x0au8])
{ unimplemented!() }
// LIT fmt_a7a400fb: "\nstartxref\n{}\n%%EOF"
#[verifier::external_body]
pub fn fmt_a7a400fb<W: Write>(file: &mut W, v: usize) -> (r: Result<()>)
    ensures wrote(*old(file), *final(file), r is Ok, tail_bytes(v as nat))
{ unimplemented!() }
// LIT fmt_ef7e6794: "\n"
#[verifier::external_body]
pub fn fmt_ef7e6794<W: Write>(file: &mut W) -> (r: Result<()>)
    ensures wrote(*old(file), *final(file), r is Ok, seq![0x0au8])
{ unimplemented!() }

pub open spec fn header_bytes(v: Seq<u8>, mark: Seq<u8>) -> Seq<u8> { KW_PDF() + v + seq![0x0au8] + enc_binary_mark(mark) }
pub open spec fn tail_bytes(xref_start: nat) -> Seq<u8> { KW_STARTXREF() + dec_nat(xref_start) + KW_EOF() }

// body: the objects in key order, skipping the R15 set
pub open spec fn body(es: Seq<((u32, u16), Object)>, i: int) -> Seq<u8> decreases i {
    if i <= 0 || i > es.len() { Seq::<u8>::empty() }
    else { body(es, i - 1) + (if skip_obj(es[i - 1].1) { Seq::<u8>::empty() } else { enc_indirect(es[i - 1].0.0, es[i - 1].0.1, es[i - 1].1) }) }
}
// the cross-reference map the writer records: every written object at the offset of its "n g obj" header
pub open spec fn body_xref(es: Seq<((u32, u16), Object)>, i: int, base: int) -> Map<u32, XrefEntry> decreases i {
    if i <= 0 || i > es.len() { Map::<u32, XrefEntry>::empty() }
    else {
        let prev = body_xref(es, i - 1, base);
        if skip_obj(es[i - 1].1) { prev }
        else { prev.insert(es[i - 1].0.0, XrefEntry::Normal { offset: (base + body(es, i - 1).len()) as u32, generation: es[i - 1].0.1 }) }
    }
}
pub proof fn lemma_body_mono(es: Seq<((u32, u16), Object)>, i: int, j: int)
    requires 0 <= i <= j <= es.len() ensures body(es, i).is_prefix_of(body(es, j)) decreases j - i
{
    if i < j {
        lemma_body_mono(es, i, j - 1);
        let x = body(es, j - 1);
        let y = if skip_obj(es[j - 1].1) { Seq::<u8>::empty() } else { enc_indirect(es[j - 1].0.0, es[j - 1].0.1, es[j - 1].1) };
        lemma_prefix_app(x, y);
        lemma_prefix_trans(body(es, i), x, body(es, j));
    }
}

pub open spec fn enc_indirect_s(id: u32, generation: u16, o: SObj) -> Seq<u8> {
    dec_nat(id as nat) + seq![0x20u8] + dec_nat(generation as nat) + KW_OBJ() + sep(s_sp_before(o)) + enc_s(o) + sep(s_sp_after(o)) + KW_ENDOBJ()
}
pub proof fn lemma_enc_indirect_abs(id: u32, generation: u16, o: Object)
    ensures enc_indirect(id, generation, o) == enc_indirect_s(id, generation, abs(o))
{ lemma_enc_abs(o); }

// ---- the trailer / cross-reference section
pub open spec fn trailer_for_table(tr: SDict, max_id: u32) -> SDict { sdict_set(tr, K_SIZE(), SObj::Integer((max_id + 1) as i64)) }
pub open spec fn xref_section_table(tr: SDict, xm: Map<u32, XrefEntry>, max_id: u32) -> Seq<u8> {
    xref_table(xm, (max_id + 1) as u32) + KW_TRAILER() + enc_s_dict(trailer_for_table(tr, max_id))
}
pub open spec fn W_142() -> SObj { SObj::Array(seq![SObj::Integer(1), SObj::Integer(4), SObj::Integer(2)]) }
pub open spec fn crs_map(xm: Map<u32, XrefEntry>, max_id: u32, xref_start: u32) -> Map<u32, XrefEntry> {
    xm.insert((max_id + 1) as u32, XrefEntry::Normal { offset: xref_start, generation: 0 })
}
pub open spec fn trailer_for_stream(tr: SDict, xm: Map<u32, XrefEntry>, max_id: u32, xref_start: u32) -> SDict {
    let xm2 = crs_map(xm, max_id, xref_start);
    let size = (max_id + 1) as u32;
    let t1 = sdict_set(tr, K_TYPE(), SObj::Name(K_XREF()));
    let t2 = sdict_set(t1, K_SIZE(), SObj::Integer((max_id + 2) as i64));
    let t3 = sdict_set(t2, K_W(), W_142());
    let t4 = sdict_set(t3, K_INDEX(), SObj::Array(xref_stream_index(xm2, size)));
    let t5 = sdict_remove(t4, K_FILTER());
    sdict_set(t5, K_LENGTH(), SObj::Integer((xref_stream_raw(xm2, size).len() as usize) as i64))
}
pub open spec fn xref_section_stream(tr: SDict, xm: Map<u32, XrefEntry>, max_id: u32, xref_start: u32) -> Seq<u8> {
    let xm2 = crs_map(xm, max_id, xref_start);
    enc_indirect_s((max_id + 1) as u32, 0, SObj::Stream(trailer_for_stream(tr, xm, max_id, xref_start), xref_stream_raw(xm2, (max_id + 1) as u32)))
}
pub open spec fn xref_section(xt: XrefType, tr: SDict, xm: Map<u32, XrefEntry>, max_id: u32, xref_start: nat) -> Seq<u8> {
    match xt {
        XrefType::CrossReferenceTable => xref_section_table(tr, xm, max_id),
        XrefType::CrossReferenceStream => xref_section_stream(tr, xm, max_id, xref_start as u32),
    }
}
// the complete revision written at stream position `base`
pub open spec fn revision_layout(v: Seq<u8>, mark: Seq<u8>, es: Seq<((u32, u16), Object)>, tr: SDict, max_id: u32, xt: XrefType, base: nat) -> Seq<u8> {
    let hd = header_bytes(v, mark);
    let bd = body(es, es.len() as int);
    let xs = base + hd.len() + bd.len();
    hd + bd + xref_section(xt, tr, body_xref(es, es.len() as int, (base + hd.len()) as int), max_id, xs) + tail_bytes(xs)
}
pub open spec fn doc_layout(d: Document, xt: XrefType, base: nat) -> Seq<u8> {
    revision_layout(str_bytes(d.version), d.binary_mark@, d.objects.entries@, abs_dict(d.trailer), d.max_id, xt, base)
}

// ---- incremental save (7.5.6): previous bytes unchanged, a newline if they do not end with one, then one more revision
pub open spec fn inc_newline(prev: Seq<u8>) -> Seq<u8> { if prev.len() > 0 && prev.last() != 0x0au8 { seq![0x0au8] } else { Seq::<u8>::empty() } }
pub open spec fn inc_prefix(prev: Seq<u8>) -> Seq<u8> { prev + inc_newline(prev) }
pub open spec fn inc_layout(d: IncrementalDocument) -> Seq<u8> {
    inc_prefix(d.bytes_documents@) + doc_layout(d.new_document, d.prev_documents.reference_table.cross_reference_type, inc_prefix(d.bytes_documents@).len())
}

// ---- content streams (ISO 32000-1 7.8.2): operands each followed by one space, then the operator; operations joined by '\n'
#[verifier::external_body]
pub fn string_as_bytes(s: &std::string::String) -> (r: &[u8]) ensures r@ == str_bytes(*s) { unimplemented!() }
pub open spec fn enc_operands(a: Seq<Object>, i: int) -> Seq<u8> decreases i {
    if i <= 0 || i > a.len() { Seq::<u8>::empty() } else { enc_operands(a, i - 1) + enc_obj(a[i - 1]) + seq![0x20u8] }
}
pub open spec fn BI() -> Seq<u8> { seq![0x42u8, 0x49u8] }
// an inline image as Content::decode represents it: operator BI with one stream operand (7.8.4.4 / 8.9.7)
pub open spec fn is_inline_image(op: Operation) -> bool { str_bytes(op.operator) == BI() && op.operands@.len() == 1 && op.operands@[0] is Stream }
pub open spec fn enc_bi_entries(e: Seq<(Vec<u8>, Object)>, i: int) -> Seq<u8> decreases i {
    if i <= 0 || i > e.len() { Seq::<u8>::empty() }
    else { enc_bi_entries(e, i - 1) + (if e[i - 1].0@ == K_LENGTH() { Seq::<u8>::empty() } else { seq![0x20u8] + enc_name(e[i - 1].0@) + seq![0x20u8] + enc_obj(e[i - 1].1) }) }
}
pub open spec fn enc_inline(st: Stream) -> Seq<u8> {
    BI() + enc_bi_entries(st.dict.entries@, st.dict.entries@.len() as int) + seq![0x20u8, 0x49u8, 0x44u8, 0x20u8] + st.content@ + seq![0x20u8, 0x45u8, 0x49u8]
}
pub open spec fn enc_operation(op: Operation) -> Seq<u8> {
    if is_inline_image(op) { enc_inline(op.operands@[0]->Stream_0) }
    else { enc_operands(op.operands@, op.operands@.len() as int) + str_bytes(op.operator) }
}
#[verifier::external_body]
pub fn string_is(s: &std::string::String, b: &[u8]) -> (r: bool) ensures r == (str_bytes(*s) == b@) { unimplemented!() }
#[verifier::external_body]
pub fn vec_is(v: &Vec<u8>, b: &[u8]) -> (r: bool) ensures r == (v@ == b@) { unimplemented!() }
#[verifier::external_body]
pub fn clone_vec_u8(v: &Vec<u8>) -> (r: Vec<u8>) ensures r@ == v@ { unimplemented!() }
// R10: `if let [Object::Stream(x)] = v.as_slice()`
pub fn single_stream_operand(v: &Vec<Object>) -> (r: Option<&Stream>)
    ensures r is Some <==> (v@.len() == 1 && v@[0] is Stream), r is Some ==> *r->Some_0 == v@[0]->Stream_0
{
    if v.len() == 1 { match &v[0] { Object::Stream(s) => Some(s), _ => None } } else { None }
}
pub open spec fn enc_content(ops: Seq<Operation>, i: int) -> Seq<u8> decreases i {
    if i <= 0 || i > ops.len() { Seq::<u8>::empty() } else { enc_content(ops, i - 1) + sep_nl(i - 1 > 0) + enc_operation(ops[i - 1]) }
}
pub open spec fn sep_nl(b: bool) -> Seq<u8> { if b { seq![0x0au8] } else { Seq::<u8>::empty() } }
