use Object::*;

// =====================================================================================
// Spec encodings, written from ISO 32000-1 7.3 as encodings a conforming reader accepts
// =====================================================================================

// ---- 7.3.5 names: '/' then every byte outside 33..126, or a delimiter/white-space/'#', as #XX
pub open spec fn name_needs_escape(b: u8) -> bool {
    b == 0x20 || b == 0x09 || b == 0x0a || b == 0x0d || b == 0x0c || b == 0x28 || b == 0x29 || b == 0x3c || b == 0x3e
    || b == 0x5b || b == 0x5d || b == 0x7b || b == 0x7d || b == 0x2f || b == 0x25 || b == 0x23 || b < 33 || b > 126
}
pub open spec fn enc_name_byte(b: u8) -> Seq<u8> {
    if name_needs_escape(b) { seq![0x23u8] + hex2(b) } else { seq![b] }
}
pub open spec fn enc_name_body(s: Seq<u8>, i: int) -> Seq<u8> decreases i {
    if i <= 0 { Seq::<u8>::empty() } else { enc_name_body(s, i - 1) + enc_name_byte(s[i - 1]) }
}
pub open spec fn enc_name(s: Seq<u8>) -> Seq<u8> { seq![0x2fu8] + enc_name_body(s, s.len() as int) }

// ---- 7.3.4.2 literal strings.  h = nesting height before index i when only *balanced* pairs count,
// m = minimum height from i to the end.  A ')' must be escaped iff it would close nothing (h == 0);
// a '(' must be escaped iff it is never closed (the height never returns to its level).
pub spec const LP: u8 = 0x28;
pub spec const RP: u8 = 0x29;
pub spec const BS: u8 = 0x5c;
pub spec const CR: u8 = 0x0d;
/// the reader follows at most this many levels of nested parentheses (reader.rs MAX_BRACKET); deeper ones are written escaped
pub spec const CAP: int = 100;

pub open spec fn h(s: Seq<u8>, i: int) -> int decreases i {
    if i <= 0 { 0 } else {
        let p = h(s, i - 1);
        let c = s[i - 1];
        if c == LP { if p < CAP { p + 1 } else { p } } else if c == RP && p > 0 { p - 1 } else { p }
    }
}
pub open spec fn m(s: Seq<u8>, i: int) -> int decreases s.len() - i {
    if i >= s.len() { h(s, s.len() as int) } else { let r = m(s, i + 1); if h(s, i) < r { h(s, i) } else { r } }
}
pub open spec fn esc(s: Seq<u8>, k: int) -> bool {
    let c = s[k];
    c == BS || c == CR || (c == RP && h(s, k) == 0) || (c == LP && (h(s, k) >= CAP || m(s, k + 1) == h(s, k + 1)))
}
pub open spec fn render_byte(s: Seq<u8>, k: int) -> Seq<u8> {
    if esc(s, k) { seq![BS, if s[k] == CR { 0x72u8 } else { s[k] }] } else { seq![s[k]] }
}
pub open spec fn render(s: Seq<u8>, i: int) -> Seq<u8> decreases i {
    if i <= 0 { Seq::<u8>::empty() } else { render(s, i - 1) + render_byte(s, i - 1) }
}
pub open spec fn enc_lit(s: Seq<u8>) -> Seq<u8> { seq![LP] + render(s, s.len() as int) + seq![RP] }

// ---- 7.3.4.3 hexadecimal strings
pub open spec fn enc_hex_body(s: Seq<u8>, i: int) -> Seq<u8> decreases i {
    if i <= 0 { Seq::<u8>::empty() } else { enc_hex_body(s, i - 1) + hex2(s[i - 1]) }
}
pub open spec fn enc_hex(s: Seq<u8>) -> Seq<u8> { seq![0x3cu8] + enc_hex_body(s, s.len() as int) + seq![0x3eu8] }

// ---- separators: a space exactly where two regular-character tokens would otherwise touch
pub open spec fn sp_before(o: Object) -> bool { o is Null || o is Boolean || o is Integer || o is Real || o is Reference }
pub open spec fn sp_after(o: Object) -> bool { o is Null || o is Boolean || o is Integer || o is Real || o is Name || o is Reference || o is Stream }
pub open spec fn sep(b: bool) -> Seq<u8> { if b { seq![0x20u8] } else { Seq::<u8>::empty() } }

pub open spec fn KW_NULL() -> Seq<u8> { seq![0x6eu8, 0x75, 0x6c, 0x6c] }
pub open spec fn KW_TRUE() -> Seq<u8> { seq![0x74u8, 0x72, 0x75, 0x65] }
pub open spec fn KW_FALSE() -> Seq<u8> { seq![0x66u8, 0x61, 0x6c, 0x73, 0x65] }
pub open spec fn KW_STREAM() -> Seq<u8> { seq![0x73u8, 0x74, 0x72, 0x65, 0x61, 0x6d, 0x0a] }
pub open spec fn KW_ENDSTREAM() -> Seq<u8> { seq![0x0au8, 0x65, 0x6e, 0x64, 0x73, 0x74, 0x72, 0x65, 0x61, 0x6d] }

pub open spec fn enc_ref(id: ObjectId) -> Seq<u8> { dec_nat(id.0 as nat) + seq![0x20u8] + dec_nat(id.1 as nat) + seq![0x20u8, 0x52u8] }

pub open spec fn enc_obj(o: Object) -> Seq<u8> decreases o {
    match o {
        Object::Null => KW_NULL(),
        Object::Boolean(b) => if b { KW_TRUE() } else { KW_FALSE() },
        Object::Integer(v) => dec_int(v as int),
        Object::Real(v) => enc_real(v),
        Object::Name(n) => enc_name(n@),
        Object::String(t, f) => match f { StringFormat::Literal => enc_lit(t@), StringFormat::Hexadecimal => enc_hex(t@) },
        Object::Array(a) => enc_array(a@),
        Object::Dictionary(d) => enc_dict(d),
        Object::Stream(st) => enc_stream(st),
        Object::Reference(id) => enc_ref(id),
    }
}
pub open spec fn enc_items(a: Seq<Object>, i: int) -> Seq<u8> decreases a, i {
    if i <= 0 || i > a.len() { Seq::<u8>::empty() } else { enc_items(a, i - 1) + sep(i - 1 > 0 && sp_before(a[i - 1])) + enc_obj(a[i - 1]) }
}
pub open spec fn enc_array(a: Seq<Object>) -> Seq<u8> decreases a, a.len() + 1 { seq![0x5bu8] + enc_items(a, a.len() as int) + seq![0x5du8] }
pub open spec fn enc_entries(e: Seq<(Vec<u8>, Object)>, i: int) -> Seq<u8> decreases e, i {
    if i <= 0 || i > e.len() { Seq::<u8>::empty() } else { enc_entries(e, i - 1) + enc_name(e[i - 1].0@) + sep(sp_before(e[i - 1].1)) + enc_obj(e[i - 1].1) }
}
pub open spec fn enc_dict(d: Dictionary) -> Seq<u8> decreases d { seq![0x3cu8, 0x3cu8] + enc_entries(d.entries@, d.entries@.len() as int) + seq![0x3eu8, 0x3eu8] }
pub open spec fn enc_stream(st: Stream) -> Seq<u8> decreases st { enc_dict(st.dict) + KW_STREAM() + st.content@ + KW_ENDSTREAM() }

pub open spec fn is_binary_mark(s: Seq<u8>) -> bool { forall|i: int| 0 <= i < s.len() ==> s[i] >= 128 }
pub open spec fn enc_binary_mark(s: Seq<u8>) -> Seq<u8> { seq![0x25u8] + s + seq![0x0au8] }

// =====================================================================================
// Operational description of write_string's first pass, and its equivalence to `esc`
// =====================================================================================
pub open spec fn lit_stack(s: Seq<u8>, i: int) -> Seq<usize> decreases i {
    if i <= 0 { Seq::<usize>::empty() } else {
        let p = lit_stack(s, i - 1);
        let c = s[i - 1];
        if c == LP { if p.len() < CAP { p.push((i - 1) as usize) } else { p } } else if c == RP && p.len() > 0 { p.drop_last() } else { p }
    }
}
pub open spec fn lit_esc1(s: Seq<u8>, i: int) -> Seq<usize> decreases i {
    if i <= 0 { Seq::<usize>::empty() } else {
        let e = lit_esc1(s, i - 1);
        let c = s[i - 1];
        if (c == RP && lit_stack(s, i - 1).len() == 0) || c == BS || c == CR || (c == LP && lit_stack(s, i - 1).len() >= CAP) { e.push((i - 1) as usize) } else { e }
    }
}
pub open spec fn lit_escapes(s: Seq<u8>) -> Seq<usize> { lit_esc1(s, s.len() as int) + lit_stack(s, s.len() as int) }

pub open spec fn open_at(s: Seq<u8>, k: int, i: int) -> bool {
    0 <= k < i && s[k] == LP && h(s, k) < CAP && forall|j: int| k < j <= i ==> h(s, j) > h(s, k)
}
pub open spec fn esc1(s: Seq<u8>, k: int) -> bool {
    let c = s[k];
    c == BS || c == CR || (c == RP && h(s, k) == 0) || (c == LP && h(s, k) >= CAP)
}

pub proof fn lemma_h_nonneg(s: Seq<u8>, i: int) ensures h(s, i) >= 0 decreases i { if i > 0 { lemma_h_nonneg(s, i - 1); } }

proof fn lemma_m_char(s: Seq<u8>, i: int, v: int)
    requires 0 <= i <= s.len()
    ensures (m(s, i) >= v) <==> (forall|j: int| i <= j <= s.len() ==> h(s, j) >= v)
    decreases s.len() - i
{
    if i < s.len() {
        lemma_m_char(s, i + 1, v);
        if forall|j: int| i <= j <= s.len() ==> h(s, j) >= v {
            assert(h(s, i) >= v);
            assert(forall|j: int| i + 1 <= j <= s.len() ==> h(s, j) >= v);
        }
        if m(s, i) >= v {
            assert forall|j: int| i <= j <= s.len() implies h(s, j) >= v by { if j > i { } }
        }
    } else {
        if m(s, i) >= v { assert forall|j: int| i <= j <= s.len() implies h(s, j) >= v by { assert(j == s.len()); } }
    }
}
proof fn lemma_m_le(s: Seq<u8>, i: int) requires 0 <= i <= s.len() ensures m(s, i) <= h(s, i) decreases s.len() - i
{ if i < s.len() { lemma_m_le(s, i + 1); } }

proof fn lemma_open_is_esc(s: Seq<u8>, k: int)
    requires 0 <= k < s.len(), s[k] == LP, h(s, k) < CAP
    ensures open_at(s, k, s.len() as int) <==> (m(s, k + 1) == h(s, k + 1))
{
    let n = s.len() as int;
    let v = h(s, k + 1);
    assert(v == h(s, k) + 1);
    lemma_m_char(s, k + 1, v);
    lemma_m_le(s, k + 1);
    if open_at(s, k, n) {
        assert forall|j: int| k + 1 <= j <= n implies h(s, j) >= v by { assert(h(s, j) > h(s, k)); }
    }
    if m(s, k + 1) == v {
        assert forall|j: int| k < j <= n implies h(s, j) > h(s, k) by { assert(h(s, j) >= v); }
    }
}

pub open spec fn stack_inv(s: Seq<u8>, i: int) -> bool {
    let p = lit_stack(s, i);
    let e = lit_esc1(s, i);
    &&& p.len() == h(s, i)
    &&& forall|t: int| 0 <= t < p.len() ==> open_at(s, #[trigger] p[t] as int, i) && h(s, p[t] as int) == t
    &&& forall|k: int| open_at(s, k, i) ==> 0 <= h(s, k) < p.len() && p[h(s, k)] == k
    &&& forall|k: int| 0 <= k < i ==> (e.contains(k as usize) <==> esc1(s, k))
    &&& forall|t: int| 0 <= t < e.len() ==> e[t] < i
}

proof fn lemma_push_contains(old_e: Seq<usize>, x: usize, k: usize)
    ensures old_e.push(x).contains(k) <==> (old_e.contains(k) || k == x)
{
    let e = old_e.push(x);
    if old_e.contains(k) { let w = choose|w: int| 0 <= w < old_e.len() && old_e[w] == k; assert(e[w] == k); }
    if k == x { assert(e[old_e.len() as int] == k); }
    if e.contains(k) { let w = choose|w: int| 0 <= w < e.len() && e[w] == k; if w < old_e.len() { assert(old_e[w] == k); } }
}

proof fn lemma_stack_inv(s: Seq<u8>, i: int)
    requires 0 <= i <= s.len(), s.len() <= usize::MAX
    ensures stack_inv(s, i)
    decreases i
{
    if i > 0 {
        lemma_stack_inv(s, i - 1);
        lemma_h_nonneg(s, i - 1);
        let j = i - 1;
        let old_p = lit_stack(s, j);
        let old_e = lit_esc1(s, j);
        let p = lit_stack(s, i);
        let e = lit_esc1(s, i);
        let c = s[j];
        assert(old_p.len() == h(s, j));
        if c == LP && h(s, j) < CAP {
            assert forall|k: int| open_at(s, k, i) implies 0 <= h(s, k) < p.len() && p[h(s, k)] == k by {
                if k < j { assert(open_at(s, k, j)); assert(h(s, k) < h(s, j)); }
            }
            assert forall|t: int| 0 <= t < p.len() implies open_at(s, #[trigger] p[t] as int, i) && h(s, p[t] as int) == t by {
                if t < old_p.len() { assert(open_at(s, old_p[t] as int, j)); }
            }
            assert(e == old_e);
        } else if c == LP {
            // at the cap: written escaped, opens nothing, the height stays
            assert(p == old_p && h(s, i) == h(s, j));
            assert forall|k: int| open_at(s, k, i) implies 0 <= h(s, k) < p.len() && p[h(s, k)] == k by { assert(k != j); assert(open_at(s, k, j)); }
            assert forall|t: int| 0 <= t < p.len() implies open_at(s, #[trigger] p[t] as int, i) && h(s, p[t] as int) == t by { assert(open_at(s, old_p[t] as int, j)); }
            assert forall|k: int| 0 <= k < i implies (e.contains(k as usize) <==> esc1(s, k)) by { lemma_push_contains(old_e, j as usize, k as usize); }
        } else if c == RP {
            if old_p.len() > 0 {
                assert forall|k: int| open_at(s, k, i) implies 0 <= h(s, k) < p.len() && p[h(s, k)] == k by {
                    assert(open_at(s, k, j));
                    assert(h(s, i) > h(s, k));
                }
                assert forall|t: int| 0 <= t < p.len() implies open_at(s, #[trigger] p[t] as int, i) && h(s, p[t] as int) == t by {
                    assert(open_at(s, old_p[t] as int, j));
                }
                assert(e == old_e);
            } else {
                assert forall|k: int| #[trigger] open_at(s, k, i) implies false by { assert(open_at(s, k, j)); }
                assert forall|k: int| 0 <= k < i implies (e.contains(k as usize) <==> esc1(s, k)) by { lemma_push_contains(old_e, j as usize, k as usize); }
            }
        } else {
            assert forall|k: int| open_at(s, k, i) implies 0 <= h(s, k) < p.len() && p[h(s, k)] == k by { assert(open_at(s, k, j)); }
            assert forall|t: int| 0 <= t < p.len() implies open_at(s, #[trigger] p[t] as int, i) && h(s, p[t] as int) == t by { assert(open_at(s, old_p[t] as int, j)); }
            if c == BS || c == CR {
                assert forall|k: int| 0 <= k < i implies (e.contains(k as usize) <==> esc1(s, k)) by { lemma_push_contains(old_e, j as usize, k as usize); }
            } else {
                assert(e == old_e);
            }
        }
    }
}

// the list the first pass builds contains exactly the indices the ISO rule says must be escaped
pub proof fn lemma_first_pass(s: Seq<u8>)
    requires s.len() <= usize::MAX
    ensures forall|k: int| 0 <= k < s.len() ==> (lit_escapes(s).contains(k as usize) <==> esc(s, k)),
{
    let n = s.len() as int;
    lemma_stack_inv(s, n);
    let e1 = lit_esc1(s, n);
    let p = lit_stack(s, n);
    let l = lit_escapes(s);
    assert(l =~= e1 + p);
    assert forall|k: int| 0 <= k < n implies (l.contains(k as usize) <==> esc(s, k)) by {
        if s[k] == LP && h(s, k) < CAP { lemma_open_is_esc(s, k); }
        assert(e1.contains(k as usize) <==> esc1(s, k));
        if l.contains(k as usize) {
            let w = choose|w: int| 0 <= w < l.len() && l[w] == k as usize;
            if w < e1.len() { assert(e1[w] == k as usize); assert(e1.contains(k as usize)); assert(esc(s, k)); }
            else {
                let t = w - e1.len();
                assert(p[t] == k as usize);
                assert(open_at(s, p[t] as int, n));
                assert(esc(s, k));
            }
        }
        if esc(s, k) {
            if esc1(s, k) { let w = choose|w: int| 0 <= w < e1.len() && e1[w] == k as usize; assert(l[w] == k as usize); }
            else {
                assert(s[k] == LP);
                assert(open_at(s, k, n));
                let t = h(s, k); assert(p[t] == k); assert(l[e1.len() + t] == k as usize);
            }
        }
    }
}

// nothing to escape  ==>  the rendering is the text itself (the writer's fast path)
pub proof fn lemma_render_plain(s: Seq<u8>, i: int)
    requires 0 <= i <= s.len(), forall|k: int| 0 <= k < s.len() ==> !esc(s, k)
    ensures render(s, i) =~= s.subrange(0, i)
    decreases i
{
    if i > 0 { lemma_render_plain(s, i - 1); }
}

// =====================================================================================
// Prefix facts used on failure paths inside loops
// =====================================================================================
pub proof fn lemma_prefix_app(a: Seq<u8>, b: Seq<u8>) ensures a.is_prefix_of(a + b) { assert((a + b).subrange(0, a.len() as int) =~= a); }
pub proof fn lemma_prefix_trans(a: Seq<u8>, b: Seq<u8>, c: Seq<u8>)
    requires a.is_prefix_of(b), b.is_prefix_of(c) ensures a.is_prefix_of(c)
{ assert(c.subrange(0, a.len() as int) =~= b.subrange(0, a.len() as int)); }
pub proof fn lemma_prefix_ctx(x: Seq<u8>, a: Seq<u8>, b: Seq<u8>, y: Seq<u8>)
    requires a.is_prefix_of(b) ensures (x + a).is_prefix_of(x + b + y)
{ assert((x + b + y).subrange(0, (x + a).len() as int) =~= x + b.subrange(0, a.len() as int)); }

pub proof fn lemma_step_p<W: SinkView>(s0: W, s1: W, s2: W, done: Seq<u8>, piece: Seq<u8>, ok: bool, full: Seq<u8>)
    requires wrote(s0, s1, true, done), wrote(s1, s2, ok, piece), (done + piece).is_prefix_of(full)
    ensures ok ==> wrote(s0, s2, true, done + piece),
            !ok ==> wrote(s0, s2, false, full)
{
    let dp = done + piece;
    let rest = full.subrange(dp.len() as int, full.len() as int);
    assert(full =~= dp + rest);
    lemma_step(s0, s1, s2, done, piece, rest, ok);
}

pub proof fn lemma_name_body_mono(s: Seq<u8>, i: int, j: int)
    requires 0 <= i <= j ensures enc_name_body(s, i).is_prefix_of(enc_name_body(s, j)) decreases j - i
{
    if i < j { lemma_name_body_mono(s, i, j - 1); lemma_prefix_app(enc_name_body(s, j - 1), enc_name_byte(s[j - 1])); lemma_prefix_trans(enc_name_body(s, i), enc_name_body(s, j - 1), enc_name_body(s, j)); }
}
pub proof fn lemma_hex_body_mono(s: Seq<u8>, i: int, j: int)
    requires 0 <= i <= j ensures enc_hex_body(s, i).is_prefix_of(enc_hex_body(s, j)) decreases j - i
{
    if i < j { lemma_hex_body_mono(s, i, j - 1); lemma_prefix_app(enc_hex_body(s, j - 1), hex2(s[j - 1])); lemma_prefix_trans(enc_hex_body(s, i), enc_hex_body(s, j - 1), enc_hex_body(s, j)); }
}
pub proof fn lemma_render_mono(s: Seq<u8>, i: int, j: int)
    requires 0 <= i <= j ensures render(s, i).is_prefix_of(render(s, j)) decreases j - i
{
    if i < j { lemma_render_mono(s, i, j - 1); lemma_prefix_app(render(s, j - 1), render_byte(s, j - 1)); lemma_prefix_trans(render(s, i), render(s, j - 1), render(s, j)); }
}
pub proof fn lemma_items_mono(a: Seq<Object>, i: int, j: int)
    requires 0 <= i <= j <= a.len() ensures enc_items(a, i).is_prefix_of(enc_items(a, j)) decreases j - i
{
    if i < j {
        lemma_items_mono(a, i, j - 1);
        let x = enc_items(a, j - 1);
        assert(enc_items(a, j) =~= x + (sep(j - 1 > 0 && sp_before(a[j - 1])) + enc_obj(a[j - 1])));
        lemma_prefix_app(x, sep(j - 1 > 0 && sp_before(a[j - 1])) + enc_obj(a[j - 1]));
        lemma_prefix_trans(enc_items(a, i), x, enc_items(a, j));
    }
}
pub proof fn lemma_entries_mono(e: Seq<(Vec<u8>, Object)>, i: int, j: int)
    requires 0 <= i <= j <= e.len() ensures enc_entries(e, i).is_prefix_of(enc_entries(e, j)) decreases j - i
{
    if i < j {
        lemma_entries_mono(e, i, j - 1);
        let x = enc_entries(e, j - 1);
        let y = enc_name(e[j - 1].0@) + sep(sp_before(e[j - 1].1)) + enc_obj(e[j - 1].1);
        assert(enc_entries(e, j) =~= x + y);
        lemma_prefix_app(x, y);
        lemma_prefix_trans(enc_entries(e, i), x, enc_entries(e, j));
    }
}

// =====================================================================================
// fmt shims (R3): one per format literal, contract written from the std::fmt grammar
// =====================================================================================
// R5: `value.fract() == 0.0 && value.abs() >= 9.223372e18` (f32 arithmetic is outside the verifier): an integral value
// whose `{}` spelling has no decimal point and does not fit an i64
pub uninterp spec fn real_needs_point(v: f32) -> bool;
#[verifier::external_body]
pub fn f32_integral_beyond_i64(v: f32) -> (r: bool) ensures r == real_needs_point(v) { unimplemented!() }
pub open spec fn enc_real(v: f32) -> Seq<u8> { if real_needs_point(v) { fmt_f32(v) + seq![0x2eu8, 0x30u8] } else { fmt_f32(v) } }
// LIT fmt_b4c25179: "{}.0"
#[verifier::external_body]
pub fn fmt_b4c25179<W: Write>(file: &mut W, v: &f32) -> (r: Result<()>)
    ensures wrote(*old(file), *final(file), r is Ok, fmt_f32(*v) + seq![0x2eu8, 0x30u8])
{ unimplemented!() }
// LIT fmt_bf21a9e8: "{}"
#[verifier::external_body]
pub fn fmt_bf21a9e8<W: Write>(file: &mut W, v: &f32) -> (r: Result<()>)
    ensures wrote(*old(file), *final(file), r is Ok, fmt_f32(*v))
{ unimplemented!() }
// LIT fmt_c88aae09: "{} {} R"
#[verifier::external_body]
pub fn fmt_c88aae09<W: Write>(file: &mut W, a: u32, b: u16) -> (r: Result<()>)
    ensures wrote(*old(file), *final(file), r is Ok, dec_nat(a as nat) + seq![0x20u8] + dec_nat(b as nat) + seq![0x20u8, 0x52u8])
{ unimplemented!() }
// LIT fmt_5d8d5a3f: "#{:02X}"
#[verifier::external_body]
pub fn fmt_5d8d5a3f<W: Write>(file: &mut W, b: u8) -> (r: Result<()>)
    ensures wrote(*old(file), *final(file), r is Ok, seq![0x23u8] + hex2(b))
{ unimplemented!() }
// LIT fmt_8e39c88f: "{:02X}"
#[verifier::external_body]
pub fn fmt_8e39c88f<W: Write>(file: &mut W, b: u8) -> (r: Result<()>)
    ensures wrote(*old(file), *final(file), r is Ok, hex2(b))
{ unimplemented!() }

// R10: `s.iter().all(|&b| b >= 128)`
pub fn all_ge_128(s: &[u8]) -> (r: bool)
    ensures r == is_binary_mark(s@)
{
    let mut i: usize = 0;
    while i < s.len()
        invariant i <= s.len(), forall|j: int| 0 <= j < i ==> s@[j] >= 128
        decreases s.len() - i
    {
        if !(s[i] >= 128) { return false; }
        i += 1;
    }
    true
}

// (the abstract object domain SObj / abs / abs_dict lives in prelude/absobj.rs)
pub open spec fn s_sp_before(o: SObj) -> bool { o is Null || o is Boolean || o is Integer || o is Real || o is Reference }
pub open spec fn s_sp_after(o: SObj) -> bool { o is Null || o is Boolean || o is Integer || o is Real || o is Name || o is Reference || o is Stream }

pub open spec fn enc_s(o: SObj) -> Seq<u8> decreases o {
    match o {
        SObj::Null => KW_NULL(),
        SObj::Boolean(b) => if b { KW_TRUE() } else { KW_FALSE() },
        SObj::Integer(v) => dec_int(v as int),
        SObj::Real(v) => enc_real(v),
        SObj::Name(n) => enc_name(n),
        SObj::String(t, f) => match f { StringFormat::Literal => enc_lit(t), StringFormat::Hexadecimal => enc_hex(t) },
        SObj::Array(a) => seq![0x5bu8] + enc_s_items(a, a.len() as int) + seq![0x5du8],
        SObj::Dictionary(d) => enc_s_dict(d),
        SObj::Stream(d, c) => enc_s_dict(d) + KW_STREAM() + c + KW_ENDSTREAM(),
        SObj::Reference(id) => enc_ref(id),
    }
}
pub open spec fn enc_s_items(a: Seq<SObj>, i: int) -> Seq<u8> decreases a, i {
    if i <= 0 || i > a.len() { Seq::<u8>::empty() } else { enc_s_items(a, i - 1) + sep(i - 1 > 0 && s_sp_before(a[i - 1])) + enc_s(a[i - 1]) }
}
pub open spec fn enc_s_entries(e: SDict, i: int) -> Seq<u8> decreases e, i {
    if i <= 0 || i > e.len() { Seq::<u8>::empty() } else { enc_s_entries(e, i - 1) + enc_name(e[i - 1].0) + sep(s_sp_before(e[i - 1].1)) + enc_s(e[i - 1].1) }
}
pub open spec fn enc_s_dict(d: SDict) -> Seq<u8> decreases d, d.len() + 1 { seq![0x3cu8, 0x3cu8] + enc_s_entries(d, d.len() as int) + seq![0x3eu8, 0x3eu8] }

// the concrete encoder spec and the abstract one agree
pub proof fn lemma_enc_abs(o: Object)
    ensures enc_obj(o) == enc_s(abs(o)), sp_before(o) == s_sp_before(abs(o)), sp_after(o) == s_sp_after(abs(o))
    decreases o, 0nat
{
    match o {
        Object::Array(a) => { lemma_enc_abs_items(a@, a@.len() as int, a@.len() as int); lemma_abs_items_len(a@, a@.len() as int); }
        Object::Dictionary(d) => { lemma_enc_abs_dict(d); }
        Object::Stream(st) => { lemma_enc_abs_dict(st.dict); }
        _ => {}
    }
}
pub proof fn lemma_enc_abs_items(a: Seq<Object>, i: int, n: int)
    requires 0 <= i <= n <= a.len()
    ensures enc_items(a, i) == enc_s_items(abs_items(a, n), i)
    decreases a, i
{
    lemma_abs_items_len(a, n);
    if i > 0 {
        lemma_enc_abs_items(a, i - 1, n);
        lemma_enc_abs(a[i - 1]);
    }
}
pub proof fn lemma_enc_abs_entries(e: Seq<(Vec<u8>, Object)>, i: int, n: int)
    requires 0 <= i <= n <= e.len()
    ensures enc_entries(e, i) == enc_s_entries(abs_entries(e, n), i)
    decreases e, i
{
    lemma_abs_entries_len(e, n);
    if i > 0 {
        lemma_enc_abs_entries(e, i - 1, n);
        lemma_enc_abs(e[i - 1].1);
    }
}
pub proof fn lemma_enc_abs_dict(d: Dictionary)
    ensures enc_dict(d) == enc_s_dict(abs_dict(d))
    decreases d, 1nat
{
    let n = d.entries@.len() as int;
    lemma_enc_abs_entries(d.entries@, n, n);
    lemma_abs_entries_len(d.entries@, n);
}
