// ===== C01, cross-reference stream: what the writer's specification says it writes, the reader's specification reads back =====
// Writer side (proved in this unit): create_xref_steam delivers xref_stream_raw(m, size), rows of W [1 4 2], and the Index
// pairs_index(..). Reader side (proved in unit reader): decode_xref_stream returns xs_decode(dict, data), defined by fld /
// row_entry / xs_rows / xs_sections (xsspec.rs, the same text in both units). This file: xs_sections over the writer's bytes
// and Index yields the writer's rows, entry by entry.

pub proof fn lemma_be_value_1(t: u8) ensures be_value(seq![t]) == t as nat
{
    reveal_with_fuel(be_value, 2);
    assert(seq![t].drop_last() =~= Seq::<u8>::empty());
}
pub proof fn lemma_be_value_be16(v: u16) ensures be_value(be16(v)) == v as nat
{
    reveal_with_fuel(be_value, 3);
    let b = be16(v);
    assert(b.drop_last() =~= seq![(v / 256) as u8]);
    assert(b.drop_last().drop_last() =~= Seq::<u8>::empty());
    assert((v / 256) as nat * 256 + (v % 256) as nat == v as nat);
}
pub proof fn lemma_be_value_be32(v: u32) ensures be_value(be32(v)) == v as nat
{
    reveal_with_fuel(be_value, 5);
    let b = be32(v);
    let b0 = (v / 0x1000000) as u8; let b1 = ((v / 0x10000) % 256) as u8; let b2 = ((v / 256) % 256) as u8; let b3 = (v % 256) as u8;
    assert(b.drop_last() =~= seq![b0, b1, b2]);
    assert(b.drop_last().drop_last() =~= seq![b0, b1]);
    assert(b.drop_last().drop_last().drop_last() =~= seq![b0]);
    assert(b.drop_last().drop_last().drop_last().drop_last() =~= Seq::<u8>::empty());
    assert(v / 0x10000 == (v / 0x1000000) * 256 + (v / 0x10000) % 256) by (bit_vector);
    assert(v / 256 == (v / 0x10000) * 256 + (v / 256) % 256) by (bit_vector);
    assert(v == (v / 256) * 256 + v % 256) by (bit_vector);
    assert(v / 0x1000000 < 256) by (bit_vector);
}

/// what a row leaves in the table: in-use and compressed entries, nothing for free ones
pub open spec fn in_use(e: XrefEntry) -> bool { e is Normal || e is Compressed }
pub open spec fn ins(m: Map<u32, XrefEntry>, id: int, e: XrefEntry) -> Map<u32, XrefEntry> {
    if in_use(e) && 0 <= id <= u32::MAX { m.insert(id as u32, e) } else { m }
}
/// a 7-byte row of the writer decodes to the entry it was written from
pub proof fn lemma_row7_decodes(data: Seq<u8>, pos: int, id: u32, e: XrefEntry)
    requires 0 <= pos, pos + 7 <= data.len(), data.subrange(pos, pos + 7) == row7(id, e),
    ensures row_entry(data, pos, 1, 4, 2) == (if in_use(e) { Some(e) } else { None::<XrefEntry> }),
{
    let r = row7(id, e);
    assert(data.subrange(pos, pos + 1) =~= r.subrange(0, 1));
    assert(data.subrange(pos + 1, pos + 5) =~= r.subrange(1, 5));
    assert(data.subrange(pos + 5, pos + 7) =~= r.subrange(5, 7));
    match e {
        XrefEntry::Free => { assert(r.subrange(0, 1) =~= seq![0u8]); lemma_be_value_1(0u8); }
        XrefEntry::UnusableFree => { assert(r.subrange(0, 1) =~= seq![0u8]); lemma_be_value_1(0u8); }
        XrefEntry::Normal { offset, generation } => {
            assert(r.subrange(0, 1) =~= seq![1u8]); lemma_be_value_1(1u8);
            assert(r.subrange(1, 5) =~= be32(offset)); lemma_be_value_be32(offset);
            assert(r.subrange(5, 7) =~= be16(generation)); lemma_be_value_be16(generation);
        }
        XrefEntry::Compressed { container, index } => {
            assert(r.subrange(0, 1) =~= seq![2u8]); lemma_be_value_1(2u8);
            assert(r.subrange(1, 5) =~= be32(container)); lemma_be_value_be32(container);
            assert(r.subrange(5, 7) =~= be16(index)); lemma_be_value_be16(index);
        }
    }
}
/// row j of a section sits at byte 7 j
pub proof fn lemma_sec_row_at(start: u32, es: Seq<XrefEntry>, n: int, j: int)
    requires 0 <= j < n <= es.len(),
    ensures sec_rows(start, es, n).len() == 7 * n, sec_rows(start, es, n).subrange(7 * j, 7 * j + 7) == row7((start + j) as u32, es[j]),
    decreases n
{
    lemma_sec_rows_len(start, es, n);
    lemma_sec_rows_len(start, es, n - 1);
    lemma_row7_len((start + n - 1) as u32, es[n - 1]);
    let prev = sec_rows(start, es, n - 1);
    let last = row7((start + n - 1) as u32, es[n - 1]);
    if j == n - 1 {
        assert((prev + last).subrange(7 * j, 7 * j + 7) =~= last);
    } else {
        lemma_sec_row_at(start, es, n - 1, j);
        assert((prev + last).subrange(7 * j, 7 * j + 7) =~= prev.subrange(7 * j, 7 * j + 7));
    }
}
/// the rows j.. of a section, read by the reader's specification, leave the section's in-use entries
pub open spec fn fold_rows(start: int, es: Seq<XrefEntry>, j: int, m: Map<u32, XrefEntry>) -> Map<u32, XrefEntry> decreases es.len() - j
{ if j < 0 || j >= es.len() { m } else { fold_rows(start, es, j + 1, ins(m, start + j, es[j])) } }
pub proof fn lemma_section_decodes(data: Seq<u8>, base: int, start: u32, es: Seq<XrefEntry>, j: int, m: Map<u32, XrefEntry>)
    requires 0 <= j <= es.len(), 0 <= base, base + 7 * es.len() <= data.len(),
        data.subrange(base, base + 7 * es.len()) == sec_rows(start, es, es.len() as int),
    ensures xs_rows(data, 1, 4, 2, start as int, es.len() as int, j, m, base + 7 * j) == Some((fold_rows(start as int, es, j, m), base + 7 * es.len())),
    decreases es.len() - j
{
    let n = es.len() as int;
    lemma_xs_rows_unfold(data, 1, 4, 2, start as int, n, j, m, base + 7 * j);
    if j < n {
        lemma_sec_row_at(start, es, n, j);
        let sec = data.subrange(base, base + 7 * n);
        assert(data.subrange(base + 7 * j, base + 7 * j + 7) =~= sec.subrange(7 * j, 7 * j + 7));
        lemma_row7_decodes(data, base + 7 * j, (start + j) as u32, es[j]);
        lemma_section_decodes(data, base, start, es, j + 1, ins(m, start + j, es[j]));
        assert(base + 7 * j + 1 + 4 + 2 == base + 7 * (j + 1));
    }
}

/// the integers of an /Index array as the reader sees them (parse_integer_array)
pub open spec fn ints_of(a: Seq<SObj>) -> Seq<i64> { Seq::new(a.len(), |k: int| match a[k] { SObj::Integer(i) => i, _ => 0i64 }) }
pub open spec fn small_sections(ps: Seq<(u32, Seq<XrefEntry>)>) -> bool { forall|k: int| 0 <= k < ps.len() ==> (#[trigger] ps[k]).1.len() <= 0x7fff_ffff }
pub proof fn lemma_pairs_index_at(ps: Seq<(u32, Seq<XrefEntry>)>, n: int, k: int)
    requires 0 <= k < n <= ps.len(), small_sections(ps),
    ensures pairs_index(ps, n).len() == 2 * n,
        ints_of(pairs_index(ps, n))[2 * k] == ps[k].0 as i64, ints_of(pairs_index(ps, n))[2 * k + 1] == ps[k].1.len() as i64,
    decreases n
{
    if n - 1 > 0 { lemma_pairs_index_at(ps, n - 1, 0); } else { assert(pairs_index(ps, 0).len() == 0); }
    assert(pairs_index(ps, n - 1).len() == 2 * (n - 1));
    if k < n - 1 { lemma_pairs_index_at(ps, n - 1, k); }
    assert(ps[n - 1].1.len() <= 0x7fff_ffff);
}
pub open spec fn off(ps: Seq<(u32, Seq<XrefEntry>)>, k: int) -> int { 7 * pairs_count(ps, k) }
pub proof fn lemma_pairs_count_mono(ps: Seq<(u32, Seq<XrefEntry>)>, k: int)
    requires 0 <= k ensures 0 <= pairs_count(ps, k), k > 0 ==> pairs_count(ps, k) == pairs_count(ps, k - 1) + ps[k - 1].1.len() decreases k
{ if k > 0 { lemma_pairs_count_mono(ps, k - 1); } }
/// section k of the stream sits at byte off(k)
pub proof fn lemma_pairs_sec_at(ps: Seq<(u32, Seq<XrefEntry>)>, n: int, k: int)
    requires 0 <= k < n <= ps.len(),
    ensures pairs_stream(ps, n).len() == off(ps, n), 0 <= off(ps, k) <= off(ps, k + 1) <= off(ps, n),
        pairs_stream(ps, n).subrange(off(ps, k), off(ps, k + 1)) == sec_rows(ps[k].0, ps[k].1, ps[k].1.len() as int),
    decreases n
{
    lemma_pairs_stream_len(ps, n);
    lemma_pairs_stream_len(ps, n - 1);
    lemma_pairs_count_mono(ps, n);
    lemma_pairs_count_mono(ps, n - 1);
    lemma_pairs_count_mono(ps, k);
    lemma_pairs_count_mono(ps, k + 1);
    let prev = pairs_stream(ps, n - 1);
    let last = sec_rows(ps[n - 1].0, ps[n - 1].1, ps[n - 1].1.len() as int);
    lemma_sec_rows_len(ps[n - 1].0, ps[n - 1].1, ps[n - 1].1.len() as int);
    if k == n - 1 {
        assert((prev + last).subrange(off(ps, k), off(ps, k + 1)) =~= last);
    } else {
        lemma_pairs_sec_at(ps, n - 1, k);
        assert((prev + last).subrange(off(ps, k), off(ps, k + 1)) =~= prev.subrange(off(ps, k), off(ps, k + 1)));
    }
}
pub open spec fn fold_pairs(ps: Seq<(u32, Seq<XrefEntry>)>, i: int, m: Map<u32, XrefEntry>) -> Map<u32, XrefEntry> decreases ps.len() - i
{ if i < 0 || i >= ps.len() { m } else { fold_pairs(ps, i + 1, fold_rows(ps[i].0 as int, ps[i].1, 0, m)) } }
/// the reader's specification, run over the writer's stream and Index from section i on, reads every section back
pub proof fn lemma_sections_decode(ps: Seq<(u32, Seq<XrefEntry>)>, i: int, m: Map<u32, XrefEntry>)
    requires 0 <= i <= ps.len(), small_sections(ps),
    ensures xs_sections(pairs_stream(ps, ps.len() as int), 1, 4, 2, ints_of(pairs_index(ps, ps.len() as int)), i, m, off(ps, i))
        == Some((fold_pairs(ps, i, m), off(ps, ps.len() as int))),
    decreases ps.len() - i
{
    let n = ps.len() as int;
    let data = pairs_stream(ps, n);
    let idx = ints_of(pairs_index(ps, n));
    lemma_xs_sections_unfold(data, 1, 4, 2, idx, i, m, off(ps, i));
    if n > 0 { lemma_pairs_index_at(ps, n, 0); } else { assert(pairs_index(ps, 0).len() == 0); }
    assert(idx.len() == 2 * n);
    if i < n {
        lemma_pairs_index_at(ps, n, i);
        lemma_pairs_sec_at(ps, n, i);
        lemma_pairs_count_mono(ps, i + 1);
        let es = ps[i].1;
        assert(off(ps, i + 1) == off(ps, i) + 7 * es.len());
        lemma_section_decodes(data, off(ps, i), ps[i].0, es, 0, m);
        lemma_sections_decode(ps, i + 1, fold_rows(ps[i].0 as int, es, 0, m));
    }
}
/// C01 for the cross-reference stream, specification against specification: the bytes and the Index that create_xref_steam
/// is proved to deliver for the table m, read as decode_xref_stream is proved to read them (W [1 4 2], no filter), give
/// back the in-use and compressed entries of every section the writer made, in order.
pub proof fn theorem_xref_stream_roundtrip(m: Map<u32, XrefEntry>, size: u32)
    requires small_sections(xref_stream_pairs(m, size)),
    ensures ({
        let ps = xref_stream_pairs(m, size);
        xs_sections(xref_stream_raw(m, size), 1, 4, 2, ints_of(xref_stream_index(m, size)), 0, Map::empty(), 0)
            == Some((fold_pairs(ps, 0, Map::empty()), xref_stream_raw(m, size).len() as int))
    }),
{
    let ps = xref_stream_pairs(m, size);
    lemma_sections_decode(ps, 0, Map::empty());
    lemma_pairs_stream_len(ps, ps.len() as int);
}

// ---- ... and those entries are exactly the in-use and compressed entries of the table -----------------------------------
pub open spec fn live(m: Map<u32, XrefEntry>, lo: int, hi: int, id: u32) -> bool { lo <= id < hi && st_present(m, id as int) && in_use(m[id]) }
/// r is acc plus the entries of m numbered lo .. hi-1 that are in use or compressed
pub open spec fn is_with_in_use(r: Map<u32, XrefEntry>, acc: Map<u32, XrefEntry>, m: Map<u32, XrefEntry>, lo: int, hi: int) -> bool {
    forall|id: u32| (#[trigger] r.contains_key(id) <==> (acc.contains_key(id) || live(m, lo, hi, id)))
        && (r.contains_key(id) ==> r[id] == (if live(m, lo, hi, id) { m[id] } else { acc[id] }))
}
pub proof fn lemma_fold_rows_run(m: Map<u32, XrefEntry>, s: int, e: int, j: int, acc0: Map<u32, XrefEntry>, acc: Map<u32, XrefEntry>)
    requires 0 < s <= e <= u32::MAX + 1, 0 <= j <= e - s, forall|t: int| s <= t < e ==> st_present(m, t),
        is_with_in_use(acc, acc0, m, s, s + j),
    ensures is_with_in_use(fold_rows(s, st_run(m, s, e), j, acc), acc0, m, s, e),
    decreases e - s - j
{
    let es = st_run(m, s, e);
    if j < e - s {
        let a2 = ins(acc, s + j, es[j]);
        assert(es[j] == m[(s + j) as u32]);
        assert(is_with_in_use(a2, acc0, m, s, s + j + 1)) by {
            assert forall|id: u32| (#[trigger] a2.contains_key(id) <==> (acc0.contains_key(id) || live(m, s, s + j + 1, id)))
                && (a2.contains_key(id) ==> a2[id] == (if live(m, s, s + j + 1, id) { m[id] } else { acc0[id] })) by {
                assert(acc.contains_key(id) <==> (acc0.contains_key(id) || live(m, s, s + j, id)));
            }
        }
        lemma_fold_rows_run(m, s, e, j + 1, acc0, a2);
    }
}
pub proof fn lemma_fold_pairs_shift(x: (u32, Seq<XrefEntry>), rest: Seq<(u32, Seq<XrefEntry>)>, k: int, acc: Map<u32, XrefEntry>)
    requires 0 <= k <= rest.len(),
    ensures fold_pairs(seq![x] + rest, k + 1, acc) == fold_pairs(rest, k, acc),
    decreases rest.len() - k
{
    let ps = seq![x] + rest;
    if k < rest.len() {
        assert(ps[k + 1] == rest[k]);
        lemma_fold_pairs_shift(x, rest, k + 1, fold_rows(rest[k].0 as int, rest[k].1, 0, acc));
    }
}
pub proof fn lemma_st_run_end_bounds(m: Map<u32, XrefEntry>, lim: int, s: int)
    requires s <= lim
    ensures s <= st_run_end(m, lim, s) <= lim, forall|t: int| s <= t < st_run_end(m, lim, s) ==> st_present(m, t),
        st_run_end(m, lim, s) < lim ==> !st_present(m, st_run_end(m, lim, s)),
    decreases lim - s
{ if s < lim && st_present(m, s) { lemma_st_run_end_bounds(m, lim, s + 1); } }
/// folding the sections made from object number s on adds exactly the in-use entries numbered s .. lim-1
pub proof fn lemma_fold_sections(m: Map<u32, XrefEntry>, lim: int, s0: int, s: int, acc0: Map<u32, XrefEntry>, acc: Map<u32, XrefEntry>)
    requires 0 < s0 <= s <= lim <= u32::MAX + 1, is_with_in_use(acc, acc0, m, s0, s),
    ensures is_with_in_use(fold_pairs(st_sections(m, lim, s), 0, acc), acc0, m, s0, lim),
    decreases lim - s
{
    if s >= lim {
    } else if !st_present(m, s) {
        assert(is_with_in_use(acc, acc0, m, s0, s + 1)) by {
            assert forall|id: u32| (#[trigger] acc.contains_key(id) <==> (acc0.contains_key(id) || live(m, s0, s + 1, id)))
                && (acc.contains_key(id) ==> acc[id] == (if live(m, s0, s + 1, id) { m[id] } else { acc0[id] })) by {
                assert(acc.contains_key(id) <==> (acc0.contains_key(id) || live(m, s0, s, id)));
            }
        }
        lemma_fold_sections(m, lim, s0, s + 1, acc0, acc);
    } else {
        let e = st_run_end(m, lim, s);
        lemma_st_run_end_bounds(m, lim, s);
        assert(e > s) by { reveal_with_fuel(st_run_end, 2); }
        let x = (s as u32, st_run(m, s, e));
        let rest = st_sections(m, lim, e);
        let ps = seq![x] + rest;
        assert(ps[0] == x);
        // the rows of the run, on top of acc = acc0 + live(s0 .. s): gives acc0 + live(s0 .. e)
        let a2 = fold_rows(s, x.1, 0, acc);
        assert(is_with_in_use(acc, acc, m, s, s)) by {
            assert forall|id: u32| (#[trigger] acc.contains_key(id) <==> (acc.contains_key(id) || live(m, s, s, id)))
                && (acc.contains_key(id) ==> acc[id] == (if live(m, s, s, id) { m[id] } else { acc[id] })) by { }
        }
        lemma_fold_rows_run(m, s, e, 0, acc, acc);
        assert(is_with_in_use(a2, acc0, m, s0, e)) by {
            assert forall|id: u32| (#[trigger] a2.contains_key(id) <==> (acc0.contains_key(id) || live(m, s0, e, id)))
                && (a2.contains_key(id) ==> a2[id] == (if live(m, s0, e, id) { m[id] } else { acc0[id] })) by {
                assert(a2.contains_key(id) <==> (acc.contains_key(id) || live(m, s, e, id)));
                assert(acc.contains_key(id) <==> (acc0.contains_key(id) || live(m, s0, s, id)));
            }
        }
        lemma_fold_pairs_shift(x, rest, 0, a2);
        lemma_fold_sections(m, lim, s0, e, acc0, a2);
    }
}
/// C01, cross-reference stream, end to end at the level of the two specifications: reading back what is written for the
/// table m gives m restricted to its in-use and compressed entries numbered 1 ..= size (free entries leave nothing, as in
/// every reader; the object number 0 is never written)
pub proof fn theorem_xref_stream_roundtrip_table(m: Map<u32, XrefEntry>, size: u32)
    requires small_sections(xref_stream_pairs(m, size)), size < u32::MAX,
    ensures ({
        let r = xs_sections(xref_stream_raw(m, size), 1, 4, 2, ints_of(xref_stream_index(m, size)), 0, Map::empty(), 0);
        r is Some && r->Some_0.1 == xref_stream_raw(m, size).len()
        && forall|id: u32| (#[trigger] r->Some_0.0.contains_key(id) <==> (1 <= id <= size && m.contains_key(id) && in_use(m[id])))
            && (r->Some_0.0.contains_key(id) ==> r->Some_0.0[id] == m[id])
    }),
{
    theorem_xref_stream_roundtrip(m, size);
    let e0 = Map::<u32, XrefEntry>::empty();
    assert(is_with_in_use(e0, e0, m, 1, 1)) by {
        assert forall|id: u32| (#[trigger] e0.contains_key(id) <==> (e0.contains_key(id) || live(m, 1, 1, id)))
            && (e0.contains_key(id) ==> e0[id] == (if live(m, 1, 1, id) { m[id] } else { e0[id] })) by { }
    }
    lemma_fold_sections(m, size + 1, 1, 1, e0, e0);
    let r = fold_pairs(xref_stream_pairs(m, size), 0, e0);
    assert forall|id: u32| (#[trigger] r.contains_key(id) <==> (1 <= id <= size && m.contains_key(id) && in_use(m[id])))
        && (r.contains_key(id) ==> r[id] == m[id]) by {
        assert(r.contains_key(id) <==> (e0.contains_key(id) || live(m, 1, size + 1, id)));
    }
}
