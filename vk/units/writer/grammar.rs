// =====================================================================================
// Lexical round trip: a reader that follows ISO 32000-1 7.3.4.2 / 7.3.4.3 / 7.3.5 (written here as spec functions,
// independent of lopdf's nom parser) recovers exactly the value from the bytes the writer is proved to emit.
// Together with the writer contracts (delivered bytes == enc_name / enc_lit / enc_hex) this is the writer half of
// C01 / C03 for names and strings: what is written is unambiguous and decodes to what was given.
// =====================================================================================
pub open spec fn g_is_ws(c: u8) -> bool { c == 0x20 || c == 0x09 || c == 0x0a || c == 0x0d || c == 0x00 || c == 0x0c }
pub open spec fn g_is_delim(c: u8) -> bool { c == 0x28 || c == 0x29 || c == 0x3c || c == 0x3e || c == 0x5b || c == 0x5d || c == 0x7b || c == 0x7d || c == 0x2f || c == 0x25 }
pub open spec fn g_is_regular(c: u8) -> bool { !g_is_ws(c) && !g_is_delim(c) }
pub open spec fn g_hex_val(c: u8) -> Option<u8> {
    if 0x30 <= c <= 0x39 { Some((c - 0x30) as u8) } else if 0x41 <= c <= 0x46 { Some((c - 0x41 + 10) as u8) } else if 0x61 <= c <= 0x66 { Some((c - 0x61 + 10) as u8) } else { None }
}
proof fn g_lemma_hex(b: u8)
    ensures g_hex_val(hex_upper(b / 16)) == Some((b / 16) as u8), g_hex_val(hex_upper(b % 16)) == Some((b % 16) as u8),
            ((b / 16) * 16 + (b % 16)) as u8 == b, hex2(b).len() == 2, hex2(b)[0] == hex_upper(b / 16), hex2(b)[1] == hex_upper(b % 16)
{}

// ---- 7.3.5 name: after the solidus, regular characters; '#' followed by two hex digits is one byte
pub open spec fn g_dec_name(i: Seq<u8>) -> (Seq<u8>, Seq<u8>) decreases i.len() {
    if i.len() == 0 { (Seq::<u8>::empty(), i) }
    else if i[0] == 0x23 {
        if i.len() >= 3 && g_hex_val(i[1]) is Some && g_hex_val(i[2]) is Some {
            let (r, rest) = g_dec_name(i.subrange(3, i.len() as int));
            (seq![(g_hex_val(i[1]).unwrap() * 16 + g_hex_val(i[2]).unwrap()) as u8] + r, rest)
        } else { (Seq::<u8>::empty(), i) }
    } else if g_is_regular(i[0]) {
        let (r, rest) = g_dec_name(i.subrange(1, i.len() as int));
        (seq![i[0]] + r, rest)
    } else { (Seq::<u8>::empty(), i) }
}
/// the writer's encoding read from the front (enc_name_body is defined from the back)
pub open spec fn g_enc_name_front(s: Seq<u8>) -> Seq<u8> decreases s.len() {
    if s.len() == 0 { Seq::<u8>::empty() } else { enc_name_byte(s[0]) + g_enc_name_front(s.subrange(1, s.len() as int)) }
}
proof fn g_lemma_front_push(s: Seq<u8>, b: u8)
    ensures g_enc_name_front(s.push(b)) =~= g_enc_name_front(s) + enc_name_byte(b)
    decreases s.len()
{
    if s.len() == 0 {
        assert(s.push(b).subrange(1, 1) =~= Seq::<u8>::empty());
        assert(g_enc_name_front(s.push(b).subrange(1, 1)) =~= Seq::<u8>::empty());
    } else {
        let t = s.subrange(1, s.len() as int);
        assert(s.push(b).subrange(1, s.len() as int + 1) =~= t.push(b));
        g_lemma_front_push(t, b);
    }
}
proof fn g_lemma_name_body_is_front(s: Seq<u8>, i: int)
    requires 0 <= i <= s.len()
    ensures enc_name_body(s, i) =~= g_enc_name_front(s.subrange(0, i))
    decreases i
{
    if i > 0 {
        g_lemma_name_body_is_front(s, i - 1);
        assert(s.subrange(0, i) =~= s.subrange(0, i - 1).push(s[i - 1]));
        g_lemma_front_push(s.subrange(0, i - 1), s[i - 1]);
    } else {
        assert(s.subrange(0, 0) =~= Seq::<u8>::empty());
    }
}
proof fn g_lemma_name_front_roundtrip(s: Seq<u8>, rest: Seq<u8>)
    requires rest.len() == 0 || !g_is_regular(rest[0]),
    ensures g_dec_name(g_enc_name_front(s) + rest) == (s, rest)
    decreases s.len()
{
    if s.len() == 0 {
        assert(g_enc_name_front(s) + rest =~= rest);
        if rest.len() > 0 { assert(rest[0] != 0x23); }
    } else {
        let b = s[0];
        let tail = s.subrange(1, s.len() as int);
        g_lemma_name_front_roundtrip(tail, rest);
        g_lemma_hex(b);
        let whole = g_enc_name_front(s) + rest;
        let after = g_enc_name_front(tail) + rest;
        if name_needs_escape(b) {
            assert(enc_name_byte(b) =~= seq![0x23u8, hex_upper(b / 16), hex_upper(b % 16)]);
            assert(whole =~= enc_name_byte(b) + after);
            assert(whole.subrange(3, whole.len() as int) =~= after);
            assert(whole[0] == 0x23 && whole[1] == hex_upper(b / 16) && whole[2] == hex_upper(b % 16));
        } else {
            assert(whole =~= seq![b] + after);
            assert(whole.subrange(1, whole.len() as int) =~= after);
            assert(g_is_regular(b) && b != 0x23);
        }
        assert(seq![b] + tail =~= s);
    }
}
/// THEOREM (names): the ISO name reader applied to what write_name emits, followed by anything that is not a
/// regular character, gives back the name.
pub proof fn theorem_name_roundtrip(s: Seq<u8>, rest: Seq<u8>)
    requires rest.len() == 0 || !g_is_regular(rest[0]),
    ensures
        enc_name(s)[0] == 0x2f,
        g_dec_name(enc_name(s).subrange(1, enc_name(s).len() as int) + rest) == (s, rest),
{
    g_lemma_name_body_is_front(s, s.len() as int);
    assert(s.subrange(0, s.len() as int) =~= s);
    g_lemma_name_front_roundtrip(s, rest);
    assert(enc_name(s).subrange(1, enc_name(s).len() as int) =~= enc_name_body(s, s.len() as int));
}

// ---- 7.3.4.3 hexadecimal string: pairs of hex digits up to '>'
pub open spec fn g_dec_hex(i: Seq<u8>) -> Option<(Seq<u8>, Seq<u8>)> decreases i.len() {
    if i.len() == 0 { None }
    else if i[0] == 0x3e { Some((Seq::<u8>::empty(), i.subrange(1, i.len() as int))) }
    else if i.len() >= 2 && g_hex_val(i[0]) is Some && g_hex_val(i[1]) is Some {
        match g_dec_hex(i.subrange(2, i.len() as int)) {
            Some((out, rest)) => Some((seq![(g_hex_val(i[0]).unwrap() * 16 + g_hex_val(i[1]).unwrap()) as u8] + out, rest)),
            None => None,
        }
    } else { None }
}
pub open spec fn g_enc_hex_front(s: Seq<u8>) -> Seq<u8> decreases s.len() {
    if s.len() == 0 { Seq::<u8>::empty() } else { hex2(s[0]) + g_enc_hex_front(s.subrange(1, s.len() as int)) }
}
proof fn g_lemma_hex_front_push(s: Seq<u8>, b: u8)
    ensures g_enc_hex_front(s.push(b)) =~= g_enc_hex_front(s) + hex2(b)
    decreases s.len()
{
    if s.len() == 0 {
        assert(s.push(b).subrange(1, 1) =~= Seq::<u8>::empty());
        assert(g_enc_hex_front(s.push(b).subrange(1, 1)) =~= Seq::<u8>::empty());
    } else {
        let t = s.subrange(1, s.len() as int);
        assert(s.push(b).subrange(1, s.len() as int + 1) =~= t.push(b));
        g_lemma_hex_front_push(t, b);
    }
}
proof fn g_lemma_hex_body_is_front(s: Seq<u8>, i: int)
    requires 0 <= i <= s.len()
    ensures enc_hex_body(s, i) =~= g_enc_hex_front(s.subrange(0, i))
    decreases i
{
    if i > 0 {
        g_lemma_hex_body_is_front(s, i - 1);
        assert(s.subrange(0, i) =~= s.subrange(0, i - 1).push(s[i - 1]));
        g_lemma_hex_front_push(s.subrange(0, i - 1), s[i - 1]);
    } else { assert(s.subrange(0, 0) =~= Seq::<u8>::empty()); }
}
proof fn g_lemma_hex_front_roundtrip(s: Seq<u8>, rest: Seq<u8>)
    ensures g_dec_hex(g_enc_hex_front(s) + seq![0x3eu8] + rest) == Some((s, rest))
    decreases s.len()
{
    let whole = g_enc_hex_front(s) + seq![0x3eu8] + rest;
    if s.len() == 0 {
        assert(whole =~= seq![0x3eu8] + rest);
        assert(whole.subrange(1, whole.len() as int) =~= rest);
    } else {
        let b = s[0];
        let tail = s.subrange(1, s.len() as int);
        g_lemma_hex_front_roundtrip(tail, rest);
        g_lemma_hex(b);
        let after = g_enc_hex_front(tail) + seq![0x3eu8] + rest;
        assert(whole =~= hex2(b) + after);
        assert(whole.subrange(2, whole.len() as int) =~= after);
        assert(whole[0] == hex_upper(b / 16) && whole[1] == hex_upper(b % 16));
        assert(whole[0] != 0x3e);
        assert(seq![b] + tail =~= s);
    }
}
/// THEOREM (hexadecimal strings)
pub proof fn theorem_hex_roundtrip(s: Seq<u8>, rest: Seq<u8>)
    ensures enc_hex(s)[0] == 0x3c, g_dec_hex(enc_hex(s).subrange(1, enc_hex(s).len() as int) + rest) == Some((s, rest))
{
    g_lemma_hex_body_is_front(s, s.len() as int);
    assert(s.subrange(0, s.len() as int) =~= s);
    g_lemma_hex_front_roundtrip(s, rest);
    assert(enc_hex(s).subrange(1, enc_hex(s).len() as int) + rest =~= g_enc_hex_front(s) + seq![0x3eu8] + rest);
}

// ---- 7.3.4.2 literal string: balanced parentheses need no escape; '\' escapes; an end-of-line marker that is
// not escaped reads as LF.  Escapes spelled out: \n \r \t \b \f \( \) \\ ; any other character after a backslash
// stands for itself.  (Octal escapes and line continuation are left out: the byte the writer puts after a
// backslash is one of '\', '(', ')', 'r', so neither can occur in what it emits.)
pub open spec fn g_unescape(e: u8) -> u8 {
    if e == 0x6e { 0x0au8 } else if e == 0x72 { 0x0du8 } else if e == 0x74 { 0x09u8 } else if e == 0x62 { 0x08u8 } else if e == 0x66 { 0x0cu8 } else { e }
}
pub open spec fn g_dec_lit(inp: Seq<u8>, depth: int) -> Option<(Seq<u8>, Seq<u8>)> decreases inp.len() {
    if inp.len() == 0 { None }
    else if inp[0] == BS {
        if inp.len() < 2 { None } else {
            match g_dec_lit(inp.subrange(2, inp.len() as int), depth) {
                Some((out, rest)) => Some((seq![g_unescape(inp[1])] + out, rest)),
                None => None,
            }
        }
    } else if inp[0] == RP && depth == 0 { Some((Seq::<u8>::empty(), inp.subrange(1, inp.len() as int))) }
    else if inp[0] == CR {
        // end-of-line marker (CR or CR LF) inside a literal string reads as one LF
        let skip: int = if inp.len() >= 2 && inp[1] == 0x0a { 2 } else { 1 };
        match g_dec_lit(inp.subrange(skip, inp.len() as int), depth) {
            Some((out, rest)) => Some((seq![0x0au8] + out, rest)),
            None => None,
        }
    } else if inp[0] == LP && depth >= CAP {
        // lopdf's reader follows at most CAP levels of nested parentheses (MAX_BRACKET) and gives up on more
        None
    } else {
        let d2 = if inp[0] == LP { depth + 1 } else if inp[0] == RP { depth - 1 } else { depth };
        match g_dec_lit(inp.subrange(1, inp.len() as int), d2) {
            Some((out, rest)) => Some((seq![inp[0]] + out, rest)),
            None => None,
        }
    }
}
pub open spec fn g_render_front(s: Seq<u8>, i: int) -> Seq<u8> decreases s.len() - i {
    if i >= s.len() || i < 0 { Seq::<u8>::empty() } else { render_byte(s, i) + g_render_front(s, i + 1) }
}
proof fn g_lemma_render_split(s: Seq<u8>, i: int)
    requires 0 <= i <= s.len()
    ensures render(s, s.len() as int) =~= render(s, i) + g_render_front(s, i)
    decreases s.len() - i
{
    if i < s.len() {
        g_lemma_render_split(s, i + 1);
        assert(render(s, i + 1) =~= render(s, i) + render_byte(s, i));
    }
}
proof fn g_lemma_h_cap(s: Seq<u8>, i: int) ensures h(s, i) <= CAP decreases i { if i > 0 { g_lemma_h_cap(s, i - 1); } }
proof fn g_lemma_m_bounds(s: Seq<u8>, i: int)
    requires 0 <= i <= s.len()
    ensures 0 <= m(s, i) <= h(s, i)
    decreases s.len() - i
{
    lemma_h_nonneg(s, i);
    lemma_h_nonneg(s, s.len() as int);
    if i < s.len() { g_lemma_m_bounds(s, i + 1); }
}
proof fn g_lemma_lit_roundtrip(s: Seq<u8>, i: int, rest: Seq<u8>)
    requires 0 <= i <= s.len()
    ensures g_dec_lit(g_render_front(s, i) + seq![RP] + rest, h(s, i) - m(s, i)) == Some((s.subrange(i, s.len() as int), rest))
    decreases s.len() - i
{
    let n = s.len() as int;
    g_lemma_m_bounds(s, i);
    if i == n {
        let inp = g_render_front(s, i) + seq![RP] + rest;
        assert(inp =~= seq![RP] + rest);
        assert(inp.subrange(1, inp.len() as int) =~= rest);
        assert(s.subrange(i, n) =~= Seq::<u8>::empty());
    } else {
        g_lemma_lit_roundtrip(s, i + 1, rest);
        g_lemma_m_bounds(s, i + 1);
        lemma_h_nonneg(s, i);
        let tail = g_render_front(s, i + 1) + seq![RP] + rest;
        let inp = g_render_front(s, i) + seq![RP] + rest;
        let c = s[i];
        let d = h(s, i) - m(s, i);
        let d1 = h(s, i + 1) - m(s, i + 1);
        assert(inp =~= render_byte(s, i) + tail);
        assert(s.subrange(i, n) =~= seq![c] + s.subrange(i + 1, n));
        if esc(s, i) {
            assert(inp.subrange(2, inp.len() as int) =~= tail);
            assert(inp[0] == BS);
            assert(g_unescape(inp[1]) == c);
            assert(d == d1);
        } else {
            assert(inp.subrange(1, inp.len() as int) =~= tail);
            assert(inp[0] == c);
            assert(c != CR && c != BS);
            if c == RP { assert(h(s, i) > 0); assert(d >= 1); assert(d1 == d - 1); }
            else if c == LP { g_lemma_h_cap(s, i + 1); assert(h(s, i) < CAP); assert(d1 == d + 1); assert(d < CAP); }
            else { assert(d1 == d); }
        }
    }
}
/// THEOREM (literal strings): the ISO literal-string reader, restricted to CAP levels of nested parentheses as lopdf's
/// own reader is, applied to what write_string emits gives back the bytes, for every byte string (unbalanced and
/// arbitrarily deeply nested parentheses, backslashes, carriage returns, binary data).
pub proof fn theorem_lit_roundtrip(s: Seq<u8>, rest: Seq<u8>)
    ensures enc_lit(s)[0] == LP, g_dec_lit(enc_lit(s).subrange(1, enc_lit(s).len() as int) + rest, 0) == Some((s, rest))
{
    g_lemma_lit_roundtrip(s, 0, rest);
    g_lemma_m_bounds(s, 0);
    g_lemma_render_split(s, 0);
    assert(render(s, 0) =~= Seq::<u8>::empty());
    assert(s.subrange(0, s.len() as int) =~= s);
    assert(enc_lit(s).subrange(1, enc_lit(s).len() as int) + rest =~= g_render_front(s, 0) + seq![RP] + rest);
}
