use Object::*;
// =====================================================================================
// Streams: Length invariant, filter bookkeeping, ASCII85 (ISO 32000-1 7.4.3), predictor dispatch (7.4.4.4)
// =====================================================================================
pub open spec fn K_LENGTH() -> Seq<u8> { seq![0x4cu8, 0x65u8, 0x6eu8, 0x67u8, 0x74u8, 0x68u8] }
pub open spec fn K_FILTER() -> Seq<u8> { seq![0x46u8, 0x69u8, 0x6cu8, 0x74u8, 0x65u8, 0x72u8] }
pub open spec fn K_DECODEPARMS() -> Seq<u8> { seq![0x44u8, 0x65u8, 0x63u8, 0x6fu8, 0x64u8, 0x65u8, 0x50u8, 0x61u8, 0x72u8, 0x6du8, 0x73u8] }
pub open spec fn K_FLATE() -> Seq<u8> { seq![0x46u8, 0x6cu8, 0x61u8, 0x74u8, 0x65u8, 0x44u8, 0x65u8, 0x63u8, 0x6fu8, 0x64u8, 0x65u8] }
pub open spec fn K_PREDICTOR() -> Seq<u8> { seq![0x50u8, 0x72u8, 0x65u8, 0x64u8, 0x69u8, 0x63u8, 0x74u8, 0x6fu8, 0x72u8] }
pub open spec fn K_COLUMNS() -> Seq<u8> { seq![0x43u8, 0x6fu8, 0x6cu8, 0x75u8, 0x6du8, 0x6eu8, 0x73u8] }
pub open spec fn K_COLORS() -> Seq<u8> { seq![0x43u8, 0x6fu8, 0x6cu8, 0x6fu8, 0x72u8, 0x73u8] }
pub open spec fn K_BPC() -> Seq<u8> { seq![0x42u8, 0x69u8, 0x74u8, 0x73u8, 0x50u8, 0x65u8, 0x72u8, 0x43u8, 0x6fu8, 0x6du8, 0x70u8, 0x6fu8, 0x6eu8, 0x65u8, 0x6eu8, 0x74u8] }

// the invariant every content-changing operation must re-establish
pub open spec fn length_ok(s: Stream) -> bool { sdict_get(abs_dict(s.dict), K_LENGTH()) == Some(SObj::Integer(s.content@.len() as i64)) }
pub proof fn lemma_find_bounds(d: SDict, k: Seq<u8>, i: int)
    requires 0 <= i
    ensures sdict_find(d, k, i) == -1 || (i <= sdict_find(d, k, i) < d.len() && d[sdict_find(d, k, i)].0 == k)
    decreases d.len() - i
{ if i < d.len() && d[i].0 != k { lemma_find_bounds(d, k, i + 1); } }
pub proof fn lemma_find_push(d: SDict, k: Seq<u8>, v: SObj, i: int)
    requires 0 <= i <= d.len(), sdict_find(d, k, i) == -1
    ensures sdict_find(d.push((k, v)), k, i) == d.len()
    decreases d.len() - i
{ if i < d.len() { lemma_find_push(d, k, v, i + 1); } }
pub proof fn lemma_find_update(d: SDict, k: Seq<u8>, v: SObj, j: int, i: int)
    requires 0 <= i, sdict_find(d, k, 0) == j, 0 <= j < d.len()
    ensures i <= j ==> sdict_find(d.update(j, (k, v)), k, i) == sdict_find(d, k, i)
    decreases d.len() - i
{
    lemma_find_bounds(d, k, 0);
    if i < d.len() && i <= j {
        if d[i].0 == k { } else { lemma_find_update(d, k, v, j, i + 1); }
    }
}
// get after set
pub proof fn lemma_get_set(d: SDict, k: Seq<u8>, v: SObj)
    ensures sdict_get(sdict_set(d, k, v), k) == Some(v)
{
    let j = sdict_find(d, k, 0);
    lemma_find_bounds(d, k, 0);
    if j >= 0 {
        lemma_find_update(d, k, v, j, 0);
        assert(sdict_find(d.update(j, (k, v)), k, 0) == j);
    } else { lemma_find_push(d, k, v, 0); }
}

// ---- external codecs (assumed contracts; listed in the evidence)
pub uninterp spec fn deflate(s: Seq<u8>) -> Seq<u8>;
#[verifier::external_body]
pub fn zlib_compress(input: &[u8]) -> (r: Result<Vec<u8>>)
    ensures r is Ok ==> r->Ok_0@ == deflate(input@) && r->Ok_0@.len() <= isize::MAX   // a Vec<u8> never holds more than isize::MAX bytes
{ unimplemented!() }

// R5/R10 shims
#[verifier::external_body]
pub fn slice_eq(a: &[u8], b: &[u8]) -> (r: bool) ensures r == (a@ == b@) { a == b }
#[verifier::external_body]
pub fn slice_from(a: &[u8], i: usize) -> (r: &[u8]) requires i <= a@.len() ensures r@ == a@.subrange(i as int, a@.len() as int) { &a[i..] }
#[verifier::external_body]
pub fn slice_to(a: &[u8], i: usize) -> (r: &[u8]) requires i <= a@.len() ensures r@ == a@.subrange(0, i as int) { &a[..i] }
pub open spec fn a85_ws(c: u8) -> bool { c == 0x20 || c == 0x09 || c == 0x0a || c == 0x0c || c == 0x0d }
#[verifier::external_body]
pub fn is_ascii_ws(c: u8) -> (r: bool) ensures r == a85_ws(c) { c.is_ascii_whitespace() }
#[verifier::external_body]
pub fn u32_to_be_vec(v: u32) -> (r: Vec<u8>) ensures r@ == be32(v) { v.to_be_bytes().to_vec() }
#[verifier::external_body]
pub fn extend_prefix(out: &mut Vec<u8>, v: &Vec<u8>, n: usize) requires n <= v@.len() ensures final(out)@ == old(out)@ + v@.subrange(0, n as int) { out.extend_from_slice(&v[..n]) }
pub fn max_i64(a: i64, b: i64) -> (r: i64) ensures r == (if a >= b { a } else { b }) { if a >= b { a } else { b } }
// R10: `params.get(k).and_then(Object::as_i64).unwrap_or(d)`
pub open spec fn sdict_i64_or(d: SDict, k: Seq<u8>, dflt: i64) -> i64 { match sdict_get(d, k) { Some(SObj::Integer(v)) => v, _ => dflt } }
#[verifier::external_body]
pub fn dict_get_i64_or(d: &Dictionary, k: &[u8], dflt: i64) -> (r: i64) ensures r == sdict_i64_or(abs_dict(*d), k@, dflt) { unimplemented!() }

// ---- ASCII85 (7.4.3): groups of five digits '!'..'u' in base 85 give four bytes; 'z' = four zero bytes between groups;
// white-space is skipped; a final group of n+1 digits (padded with 'u') gives n bytes; "~>" ends the data.
pub open spec fn a85_digit(c: u8) -> bool { 0x21 <= c <= 0x75 }
pub open spec fn a85_strip(s: Seq<u8>) -> Seq<u8> {
    if s.len() >= 2 && s[s.len() - 2] == 0x7e && s[s.len() - 1] == 0x3e { s.subrange(0, s.len() - 2) } else { s }
}
pub open spec fn a85_run(s: Seq<u8>, i: int, out: Seq<u8>, acc: nat, cnt: nat) -> Option<(Seq<u8>, nat, nat)> decreases s.len() - i {
    if i < 0 || i >= s.len() { Some((out, acc, cnt)) } else {
        let c = s[i];
        if c == 0x7a { if cnt != 0 { None } else { a85_run(s, i + 1, out + seq![0u8, 0u8, 0u8, 0u8], acc, cnt) } }
        else if a85_ws(c) { a85_run(s, i + 1, out, acc, cnt) }
        else if !a85_digit(c) { Some((out, acc, cnt)) }
        else {
            let v = acc * 85 + (c - 0x21) as nat;
            if v > 0xffff_ffff { None }
            else if cnt == 4 { a85_run(s, i + 1, out + be32(v as u32), 0, 0) }
            else { a85_run(s, i + 1, out, v, cnt + 1) }
        }
    }
}
pub open spec fn a85_pad(acc: nat, n: nat) -> Option<nat> decreases n {
    if n == 0 { Some(acc) } else { let v = acc * 85 + 84; if v > 0xffff_ffff { None } else { a85_pad(v, (n - 1) as nat) } }
}
pub open spec fn a85_decode(input: Seq<u8>) -> Option<Seq<u8>> {
    match a85_run(a85_strip(input), 0, Seq::<u8>::empty(), 0, 0) {
        None => None,
        Some((out, acc, cnt)) => if cnt == 0 { Some(out) } else {
            match a85_pad(acc, (5 - cnt) as nat) { None => None, Some(v) => Some(out + be32(v as u32).subrange(0, cnt - 1)) }
        },
    }
}

// ---- predictor dispatch (7.4.4.4): predictors 10..15 select PNG prediction with bytes-per-pixel = Colors*BitsPerComponent/8
pub open spec fn pred_geometry(p: SDict) -> (int, int) {
    let cols = sdict_i64_or(p, K_COLUMNS(), 1); let colors = sdict_i64_or(p, K_COLORS(), 1); let bits = sdict_i64_or(p, K_BPC(), 8);
    ((if colors >= 1 { colors as int } else { 1 }) * (if bits >= 8 { bits as int } else { 8 }) / 8, if cols >= 1 { cols as int } else { 1 })
}

pub assume_specification<T: Clone> [<[T]>::to_vec] (s: &[T]) -> (r: Vec<T>) ensures r@ == s@;   // used at T = u8 only

// =====================================================================================
// ISO 32000-1 7.4: what a stream's data decodes to (the oracle of Stream::decompressed_content)
// =====================================================================================
pub open spec fn K_LZW() -> Seq<u8> { seq![0x4cu8, 0x5au8, 0x57u8, 0x44u8, 0x65u8, 0x63u8, 0x6fu8, 0x64u8, 0x65u8] }
pub open spec fn K_A85() -> Seq<u8> { seq![0x41u8, 0x53u8, 0x43u8, 0x49u8, 0x49u8, 0x38u8, 0x35u8, 0x44u8, 0x65u8, 0x63u8, 0x6fu8, 0x64u8, 0x65u8] }
pub open spec fn K_EARLYCHANGE() -> Seq<u8> { seq![0x45u8, 0x61u8, 0x72u8, 0x6cu8, 0x79u8, 0x43u8, 0x68u8, 0x61u8, 0x6eu8, 0x67u8, 0x65u8] }
// external codecs (ASSUMED: flate2 inflates, weezl decodes LZW; what they return on damaged data is whatever they return)
pub uninterp spec fn inflate(s: Seq<u8>) -> Seq<u8>;
pub uninterp spec fn lzw(s: Seq<u8>, early_change: bool) -> Seq<u8>;
#[verifier::external_body]
pub fn zlib_read_to_end(input: &[u8], output: &mut Vec<u8>)
    requires old(output)@.len() == 0
    ensures final(output)@ == inflate(input@), final(output)@.len() <= isize::MAX
{ unimplemented!() }
#[verifier::external_body]
pub fn lzw_decode_all(input: &[u8], early_change: bool) -> (r: Vec<u8>) ensures r@ == lzw(input@, early_change), r@.len() <= isize::MAX { unimplemented!() }
#[verifier::external_body]
pub fn cap_hint2(a: usize) -> (r: usize) { a.wrapping_mul(2) }
pub open spec fn inflate_or_empty(s: Seq<u8>) -> Seq<u8> { if s.len() == 0 { Seq::<u8>::empty() } else { inflate(s) } }

/// the PNG / TIFF predictor step after a Flate or LZW filter (the contract proved for decompress_predictor)
pub open spec fn predicted(data: Seq<u8>, parms: Option<SDict>) -> Option<Seq<u8>> {
    match parms {
        None => Some(data),
        Some(p) => {
            let predictor = sdict_i64_or(p, K_PREDICTOR(), 1);
            if 10 <= predictor <= 15 {
                let (bpp, cols) = pred_geometry(p);
                if bpp * 8 + 7 > usize::MAX || bpp * cols > usize::MAX { None } else { frame(data, bpp, bpp * cols, 0, zeros8(bpp * cols)) }
            } else { Some(data) }
        },
    }
}
/// DecodeParms for filter number `index`: the dictionary itself, or entry `index` of an array parallel to the filters
pub open spec fn parms_at(dp: Option<SObj>, index: int) -> Option<SDict> {
    match dp {
        Some(SObj::Array(items)) => if 0 <= index < items.len() { match items[index] { SObj::Dictionary(d) => Some(d), _ => None } } else { None },
        Some(SObj::Dictionary(d)) => Some(d),
        _ => None,
    }
}
pub open spec fn apply_filter(name: Seq<u8>, input: Seq<u8>, parms: Option<SDict>) -> Option<Seq<u8>> {
    if name == K_FLATE() { predicted(inflate_or_empty(input), parms) }
    else if name == K_LZW() { predicted(lzw(input, (match parms { Some(p) => sdict_i64_or(p, K_EARLYCHANGE(), 1), None => 1 }) != 0), parms) }
    else if name == K_A85() { a85_decode(input) }
    else { None }
}
/// filters i.. applied in order to `input`
pub open spec fn decode_chain(names: Seq<Seq<u8>>, dp: Option<SObj>, i: int, input: Seq<u8>) -> Option<Seq<u8>> decreases names.len() - i {
    if i < 0 || i >= names.len() { Some(input) } else {
        match apply_filter(names[i], input, parms_at(dp, i)) { Some(out) => decode_chain(names, dp, i + 1, out), None => None }
    }
}
/// the Filter entry: one name, or an array of names
pub open spec fn filter_names(d: SDict) -> Option<Seq<Seq<u8>>> {
    match sdict_get(d, K_FILTER()) {
        Some(SObj::Name(n)) => Some(seq![n]),
        Some(SObj::Array(items)) => if forall|i: int| 0 <= i < items.len() ==> (#[trigger] items[i]) is Name { Some(Seq::new(items.len(), |i: int| items[i]->Name_0)) } else { None },
        _ => None,
    }
}
pub open spec fn decoded_content(s: Stream) -> Option<Seq<u8>> {
    match filter_names(abs_dict(s.dict)) {
        None => None,
        Some(names) => if names.len() == 0 { Some(s.content@) } else { decode_chain(names, sdict_get(abs_dict(s.dict), K_DECODEPARMS()), 0, s.content@) },
    }
}
impl Stream {
    /// ASSUMED contract of Stream::filters (its body is `names.iter().map(Object::as_name).collect()`, iterator code)
    #[verifier::external_body]
    pub fn filters(&self) -> (r: Result<Vec<&[u8]>>)
        ensures match filter_names(abs_dict(self.dict)) {
            Some(names) => r is Ok && r->Ok_0@.len() == names.len() && forall|i: int| 0 <= i < names.len() ==> (#[trigger] r->Ok_0@[i])@ == names[i],
            None => r is Err },
    { unimplemented!() }
}
#[verifier::external_body]
pub fn result_ok<'a>(r: core::result::Result<&'a Object, IoError>) -> (o: Option<&'a Object>)
    ensures match r { Ok(v) => o == Some(v), Err(_) => o is None }
{ r.ok() }
pub fn as_dict_opt(o: &Object) -> (r: Option<&Dictionary>)
    ensures match *o { Object::Dictionary(d) => r is Some && *r->Some_0 == d, _ => r is None }
{ match o { Object::Dictionary(d) => Some(d), _ => None } }
#[verifier::external_body]
pub fn bytes_are(a: &[u8], b: &[u8]) -> (r: bool) ensures r == (a@ == b@) { a == b }
#[verifier::external_body]
pub fn clone_vec(v: &Vec<u8>) -> (r: Vec<u8>) ensures r@ == v@ { v.clone() }
pub fn opt_dict_i64_or(p: Option<&Dictionary>, k: &[u8], dflt: i64) -> (r: i64)
    ensures r == (match p { Some(d) => sdict_i64_or(abs_dict(*d), k@, dflt), None => dflt })
{ match p { Some(d) => dict_get_i64_or(d, k, dflt), None => dflt } }
