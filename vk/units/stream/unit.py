import os, importlib.util
_sp = importlib.util.spec_from_file_location('png_unit', os.path.join(os.path.dirname(os.path.abspath(__file__)), '..', 'png', 'unit.py'))
_m = importlib.util.module_from_spec(_sp); _sp.loader.exec_module(_m)
PNGU = _m.UNIT
P = 'src/filters/png.rs'
O = 'src/object.rs'
SETLEN = dict(rule='R11', pat=r'\.set\((lit_4c656e677468\(\)), (.+?) as i64\);', to=r'.set(\1, Object::Integer(\2 as i64));', note='Into<Object> at i64 made concrete (object.rs:64 From<i64>)')
GETI = lambda: dict(rule='R10', pat=r'params\.get\((lit_\w+\(\))\)\.and_then\(Object::as_i64\)\.unwrap_or\((\d+)\)', to=r'dict_get_i64_or(params, \1, \2)', note='get(..).and_then(as_i64).unwrap_or(d) template')
UNIT = dict(
    properties=['C09', 'C04', 'C02'],
    prelude=['arch64.rs', 'alloc.rs', 'pdfobj.rs', 'absobj.rs', 'containers.rs'],
    types=[
        dict(file=P, kind='enum', name='FilterType', structural=True),
        dict(file=O, kind='type', name='ObjectId'),
        dict(file=O, kind='enum', name='StringFormat'),
        dict(file=O, kind='struct', name='Stream'),
        dict(file=O, kind='enum', name='Object'),
    ],
    spec=['../png/spec.rs', 'spec.rs'],
    functions=[
        dict(file=P, impl='TryFrom<u8> for FilterType', emit_impl='impl FilterType', key_impl='FilterType', name='try_from', overlay='../../png/ov/FilterType.try_from.ov',
             rules=dict(no_sink=True, raw_sig=True, subst=[dict(rule='R7', lit='std::result::Result<FilterType, ()>', to='(r: core::result::Result<FilterType, ()>)', count=1, note='result named')])),
        dict(file=P, name='paeth_predict', overlay='../../png/ov/paeth_predict.ov', rules=PNGU['functions'][1]['rules']),
        dict(file=P, name='decode_row', overlay='../../png/ov/decode_row.ov', rules=PNGU['functions'][2]['rules']),
        dict(file=P, name='decode_frame', overlay='../../png/ov/decode_frame.ov', rules=PNGU['functions'][3]['rules']),
        dict(file=O, impl='Stream', name='new', rules=dict(no_sink=True, subst=[SETLEN])),
        dict(file=O, impl='Stream', name='set_content', rules=dict(no_sink=True, subst=[SETLEN])),
        dict(file=O, impl='Stream', name='set_plain_content', rules=dict(no_sink=True, subst=[SETLEN])),
        dict(file=O, impl='Stream', name='is_compressed', rules=dict(no_sink=True)),
        dict(file=O, impl='Stream', name='decode_ascii85', rules=dict(no_sink=True, subst=[
            dict(rule='R5', lit='&input[input.len() - 2..] == lit_7e3e()', to='slice_eq(slice_from(input, input.len() - 2), lit_7e3e())', count=1, note='sub-slice and slice equality shims'),
            dict(rule='R5', lit='&input[..input.len() - 2]', to='slice_to(input, input.len() - 2)', count=1, note='sub-slice shim'),
            dict(rule='R7', lit='return Err(DecompressError::Ascii85("z character is not allowed in the middle of a group").into());', to='return Err(IoError);', count=1, note='error payload dropped'),
            dict(rule='R7', pat=r'\.ok_or\(DecompressError::Ascii85\("[^"]*"\)\)', to='.ok_or(IoError)', count=4, note='error payload dropped'),
            dict(rule='R5', lit='output.extend_from_slice(&[0, 0, 0, 0]);', to='extend_vec(&mut output, vec![0, 0, 0, 0]);', count=1, note='extend_from_slice shim'),
            dict(rule='R5', lit='ch.is_ascii_whitespace()', to='is_ascii_ws(ch)', count=1, note='u8::is_ascii_whitespace shim'),
            dict(rule='R5', lit='output.extend_from_slice(&buffer.to_be_bytes());', to='extend_be_u32(&mut output, buffer);', count=1, note='to_be_bytes shim'),
            dict(rule='R5', lit='let bytes = buffer.to_be_bytes();', to='let bytes = u32_to_be_vec(buffer);', count=1, note='to_be_bytes shim'),
            dict(rule='R5', lit='output.extend_from_slice(&bytes[..count - 1]);', to='extend_prefix(&mut output, &bytes, count - 1);', count=1, note='extend_from_slice of a prefix'),
            dict(rule='R2', lit='for _ in count..5', to='for _pad in count..5', count=1, note='loop variable named'),
        ])),
        dict(file=O, impl='Stream', name='decompress_predictor', rules=dict(no_sink=True, subst=[GETI(),
            dict(rule='R12', lit='use crate::filters::png;', to='', count=1, note='module path flattened'),
            dict(rule='R5', pat=r'max\((\d+), (dict_get_i64_or\([^)]*\)[^)]*\))\) as usize', to=r'max_i64(\1, \2) as usize', count=3, note='std::cmp::max shim'),
            dict(rule='R7', pat=r'\.ok_or_else\(\|\| Error::InvalidStream\("[^"]*"\.to_string\(\)\)\)', to='.ok_or(IoError)', count=1, note='error payload dropped'),
            dict(rule='R12', lit='png::decode_frame(', to='decode_frame(', count=1, note='module path flattened'),
        ])),
        dict(file=O, impl='Stream', name='decompress_zlib', rules=dict(no_sink=True, raw_sig=True, subst=[
            dict(rule='R7', lit='fn decompress_zlib(input: &[u8], params: Option<&Dictionary>) -> Result<Vec<u8>> {', to='fn decompress_zlib(input: &[u8], params: Option<&Dictionary>) -> (r: Result<Vec<u8>>)\n    {', count=1, note='result named'),
            dict(rule='R12', pat=r'use flate2::read::ZlibDecoder;\s*use std::io::prelude::\*;', to='', count=1, note='imports dropped'),
            dict(rule='R5', lit='Vec::with_capacity(input.len() * 2)', to='Vec::with_capacity(cap_hint2(input.len()))', count=1, note='capacity hint (a slice length times two cannot overflow: slices hold at most isize::MAX bytes; the capacity is not observable)'),
            dict(rule='R15', pat=r'let mut decoder = ZlibDecoder::new\(input\);\s*if !input\.is_empty\(\) \{\s*decoder\.read_to_end\(&mut output\)\.unwrap_or_else\(\|err\| \{\s*0\s*\}\);\s*\}', to='if !input.is_empty() {\n            zlib_read_to_end(input, &mut output);\n        }', count=1, note='flate2 ZlibDecoder::new + read_to_end (errors logged and ignored: what was inflated so far is kept) as one uninterpreted shim'),
        ])),
        dict(file=O, impl='Stream', name='decompress_lzw', rules=dict(no_sink=True, raw_sig=True, subst=[
            dict(rule='R7', lit='fn decompress_lzw(input: &[u8], params: Option<&Dictionary>) -> Result<Vec<u8>> {', to='fn decompress_lzw(input: &[u8], params: Option<&Dictionary>) -> (r: Result<Vec<u8>>)\n    {', count=1, note='result named'),
            dict(rule='R12', pat=r'use weezl::\{decode::Decoder, BitOrder\};\s*const MIN_BITS: u8 = 9;', to='', count=1, note='imports and codec constant dropped with the codec calls'),
            dict(rule='R10', pat=r'let early_change = params\s*\.and_then\(\|p\| p\.get\((lit_\w+\(\))\)\.ok\(\)\)\s*\.and_then\(\|p\| Object::as_i64\(p\)\.ok\(\)\)\s*\.map\(\|v\| v != 0\)\s*\.unwrap_or\(true\);', to=r'let early_change = opt_dict_i64_or(params, \1, 1) != 0;', count=1, note='Option<&Dictionary>.and_then(get).and_then(as_i64).map(!= 0).unwrap_or(true) template'),
            dict(rule='R15', pat=r'let mut decoder = if early_change \{\s*Decoder::with_tiff_size_switch\(BitOrder::Msb, MIN_BITS - 1\)\s*\} else \{\s*Decoder::new\(BitOrder::Msb, MIN_BITS - 1\)\s*\};\s*let output = Self::decompress_lzw_loop\(input, &mut decoder\);', to='let output = lzw_decode_all(input, early_change);', count=1, note='weezl Decoder construction + decompress_lzw_loop (decode_all, errors logged and ignored) as one uninterpreted shim'),
        ])),
        dict(file=O, impl='Stream', name='decompressed_content', rules=dict(no_sink=True, raw_sig=True, pre_subst=[
            dict(rule='R7', lit='fn decompressed_content(&self) -> Result<Vec<u8>> {', to='fn decompressed_content(&self) -> (r: Result<Vec<u8>>)\n    {', count=1, note='result named'),
            dict(rule='R10', lit='for (index, filter) in filters.into_iter().enumerate() {', to='for (index, &filter) in filters.iter().enumerate() {', count=1, note='into_iter().enumerate() over a Vec<&[u8]> as iter().enumerate() with a dereferencing pattern (same elements, same order)'),
            dict(rule='R10', pat=r'let params = match decode_parms \{\s*Some\(Object::Array\(parms\)\) => parms\.get\(([\w ]+)\)\.and_then\(\|parm\| parm\.as_dict\(\)\.ok\(\)\),\s*Some\(parm\) => parm\.as_dict\(\)\.ok\(\),\s*None => None,\s*\};', to=r'let params = match decode_parms {\n                Some(Object::Array(parms)) => if \1 < parms.len() { as_dict_opt(&parms[\1]) } else { None },\n                Some(parm) => as_dict_opt(parm),\n                None => None,\n            };', count=1, note='slice.get(i).and_then(as_dict().ok()) and as_dict().ok() templates'),
            dict(rule='R10', pat=r'output = match filter \{\s*b"(\w+)" => ([^\n]*)\?,', to=r'output = {\n                if bytes_are(filter, b"\1") { \2? }', count=1, note='match on byte-string literals as an if / else-if chain: first arm'),
            dict(rule='R10', pat=r'\n(\s*)b"(\w+)" => ([^\n]*)\?,', to=r'\n\1else if bytes_are(filter, b"\2") { \3? }', note='further arms as else-if'),
            dict(rule='R10', lit='_ => return Err(Error::Unimplemented("decompression algorithms")),', to='else { return Err(IoError); }', count=1, note='match arm as else; error value as opaque tag'),
        ], subst=[
            dict(rule='R5', pat=r'let decode_parms = self\.dict\.get\((lit_\w+\(\))\)\.ok\(\);', to=r'let decode_parms = result_ok(self.dict.get(\1));', count=1, note='Result::ok shim'),
            dict(rule='R5', lit='let mut output = vec![];', to='let mut output: Vec<u8> = Vec::new();', count=1, note='vec![] as Vec::new()'),
            dict(rule='R5', lit='input = &output;', to='input = output.as_slice();', optional=True, note='&Vec<u8> as &[u8]'),
            dict(rule='R5', lit='return Ok(self.content.clone());', to='return Ok(clone_vec(&self.content));', optional=True, note='Vec<u8>::clone shim'),
        ])),
        dict(file=O, impl='Stream', name='decompress', rules=dict(no_sink=True)),
        dict(file=O, impl='Stream', name='compress', rules=dict(no_sink=True, subst=[
            dict(rule='R12', pat=r'use flate2::write::ZlibEncoder;\s*use flate2::Compression;\s*use std::io::prelude::\*;', to='', count=1, note='imports dropped'),
            dict(rule='R15', pat=r'let mut encoder = ZlibEncoder::new\(Vec::new\(\), Compression::best\(\)\);\s*let __q1 = encoder\.write_all\(self\.content\.as_slice\(\)\);\s*__q1\?;\s*let __q2 = encoder\.finish\(\);', to='let __q2 = zlib_compress(self.content.as_slice());', count=1, note='flate2 ZlibEncoder new/write_all/finish replaced by one uninterpreted shim'),
        ], pre_subst=[dict(rule='R11', lit='"FlateDecode");', to='Object::Name(b"FlateDecode".to_vec()));', count=1, note='Into<Object> at &str made concrete (object.rs:105 From<&str> = Name)')])),
    ],
)
