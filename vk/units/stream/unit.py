import os, importlib.util
_sp = importlib.util.spec_from_file_location('png_unit', os.path.join(os.path.dirname(os.path.abspath(__file__)), '..', 'png', 'unit.py'))
_m = importlib.util.module_from_spec(_sp); _sp.loader.exec_module(_m)
PNGU = _m.UNIT
P = 'src/filters/png.rs'
O = 'src/object.rs'
SETLEN = dict(rule='R11', pat=r'\.set\((lit_4c656e677468\(\)), (.+?) as i64\);', to=r'.set(\1, Object::Integer(\2 as i64));', note='Into<Object> at i64 made concrete (object.rs:64 From<i64>)')
GETI = lambda: dict(rule='R10', pat=r'params\.get\((lit_\w+\(\))\)\.and_then\(Object::as_i64\)\.unwrap_or\((\d+)\)', to=r'dict_get_i64_or(params, \1, \2)', note='get(..).and_then(as_i64).unwrap_or(d) template')
UNIT = dict(
    properties=['C09', 'C04', 'C02'],
    prelude=['arch64.rs', 'alloc.rs', 'pdfobj.rs', 'absobj.rs', 'containers.rs'],
    types=[
        dict(file=P, kind='enum', name='FilterType', structural=True),
        dict(file=O, kind='type', name='ObjectId'),
        dict(file=O, kind='enum', name='StringFormat'),
        dict(file=O, kind='struct', name='Stream'),
        dict(file=O, kind='enum', name='Object'),
    ],
    spec=['../png/spec.rs', 'spec.rs'],
    functions=[
        dict(file=P, impl='TryFrom<u8> for FilterType', emit_impl='impl FilterType', key_impl='FilterType', name='try_from', overlay='../../png/ov/FilterType.try_from.ov',
             rules=dict(no_sink=True, raw_sig=True, subst=[dict(rule='R7', lit='std::result::Result<FilterType, ()>', to='(r: core::result::Result<FilterType, ()>)', count=1, note='result named')])),
        dict(file=P, name='paeth_predict', overlay='../../png/ov/paeth_predict.ov', rules=PNGU['functions'][1]['rules']),
        dict(file=P, name='decode_row', overlay='../../png/ov/decode_row.ov', rules=PNGU['functions'][2]['rules']),
        dict(file=P, name='decode_frame', overlay='../../png/ov/decode_frame.ov', rules=PNGU['functions'][3]['rules']),
        dict(file=O, impl='Stream', name='new', rules=dict(no_sink=True, subst=[SETLEN])),
        dict(file=O, impl='Stream', name='set_content', rules=dict(no_sink=True, subst=[SETLEN])),
        dict(file=O, impl='Stream', name='set_plain_content', rules=dict(no_sink=True, subst=[SETLEN])),
        dict(file=O, impl='Stream', name='is_compressed', rules=dict(no_sink=True)),
        dict(file=O, impl='Stream', name='decode_ascii85', rules=dict(no_sink=True, subst=[
            dict(rule='R5', lit='&input[input.len() - 2..] == lit_7e3e()', to='slice_eq(slice_from(input, input.len() - 2), lit_7e3e())', count=1, note='sub-slice and slice equality shims'),
            dict(rule='R5', lit='&input[..input.len() - 2]', to='slice_to(input, input.len() - 2)', count=1, note='sub-slice shim'),
            dict(rule='R7', lit='return Err(DecompressError::Ascii85("z character is not allowed in the middle of a group").into());', to='return Err(IoError);', count=1, note='error payload dropped'),
            dict(rule='R7', pat=r'\.ok_or\(DecompressError::Ascii85\("[^"]*"\)\)', to='.ok_or(IoError)', count=4, note='error payload dropped'),
            dict(rule='R5', lit='output.extend_from_slice(&[0, 0, 0, 0]);', to='extend_vec(&mut output, vec![0, 0, 0, 0]);', count=1, note='extend_from_slice shim'),
            dict(rule='R5', lit='ch.is_ascii_whitespace()', to='is_ascii_ws(ch)', count=1, note='u8::is_ascii_whitespace shim'),
            dict(rule='R5', lit='output.extend_from_slice(&buffer.to_be_bytes());', to='extend_be_u32(&mut output, buffer);', count=1, note='to_be_bytes shim'),
            dict(rule='R5', lit='let bytes = buffer.to_be_bytes();', to='let bytes = u32_to_be_vec(buffer);', count=1, note='to_be_bytes shim'),
            dict(rule='R5', lit='output.extend_from_slice(&bytes[..count - 1]);', to='extend_prefix(&mut output, &bytes, count - 1);', count=1, note='extend_from_slice of a prefix'),
            dict(rule='R2', lit='for _ in count..5', to='for _pad in count..5', count=1, note='loop variable named'),
        ])),
        dict(file=O, impl='Stream', name='decompress_predictor', rules=dict(no_sink=True, subst=[GETI(),
            dict(rule='R12', lit='use crate::filters::png;', to='', count=1, note='module path flattened'),
            dict(rule='R5', pat=r'max\((\d+), (dict_get_i64_or\([^)]*\)[^)]*\))\) as usize', to=r'max_i64(\1, \2) as usize', count=3, note='std::cmp::max shim'),
            dict(rule='R7', pat=r'\.ok_or_else\(\|\| Error::InvalidStream\("[^"]*"\.to_string\(\)\)\)', to='.ok_or(IoError)', count=1, note='error payload dropped'),
            dict(rule='R12', lit='png::decode_frame(', to='decode_frame(', count=1, note='module path flattened'),
        ])),
        dict(file=O, impl='Stream', name='decompress', rules=dict(no_sink=True)),
        dict(file=O, impl='Stream', name='compress', rules=dict(no_sink=True, subst=[
            dict(rule='R12', pat=r'use flate2::write::ZlibEncoder;\s*use flate2::Compression;\s*use std::io::prelude::\*;', to='', count=1, note='imports dropped'),
            dict(rule='R15', pat=r'let mut encoder = ZlibEncoder::new\(Vec::new\(\), Compression::best\(\)\);\s*let __q1 = encoder\.write_all\(self\.content\.as_slice\(\)\);\s*__q1\?;\s*let __q2 = encoder\.finish\(\);', to='let __q2 = zlib_compress(self.content.as_slice());', count=1, note='flate2 ZlibEncoder new/write_all/finish replaced by one uninterpreted shim'),
        ], pre_subst=[dict(rule='R11', lit='"FlateDecode");', to='Object::Name(b"FlateDecode".to_vec()));', count=1, note='Into<Object> at &str made concrete (object.rs:105 From<&str> = Name)')])),
    ],
)
