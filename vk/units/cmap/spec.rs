// =====================================================================================
// ToUnicode CMap semantics (ISO 32000-1 9.10.3) and an honest model of rangemap::RangeInclusiveMap
// =====================================================================================
// R8: the range map as a point-wise function.  `insert` overwrites an interval.  `get_key_value(c)` returns the stored value
// together with SOME stored interval containing c on which the map is constant: not necessarily the interval that
// was inserted (the map splits intervals that are partly overwritten and merges equal neighbours).
#[verifier::external_body]
#[verifier::reject_recursive_types(V)]
pub struct VRangeMap<V> { m: Vec<V> }
pub struct VRange { pub lo: u32, pub hi: u32 }
impl VRange { pub fn start(&self) -> (r: u32) ensures r == self.lo { self.lo } }
impl<V> VRangeMap<V> {
    pub uninterp spec fn view(&self) -> Map<u32, V>;
    #[verifier::external_body]
    pub fn get_key_value(&self, c: u32) -> (r: Option<(VRange, &V)>)
        ensures match r {
            None => !self@.contains_key(c),
            Some((range, v)) => self@.contains_key(c) && *v == self@[c] && range.lo <= c <= range.hi
                && forall|x: u32| range.lo <= x <= range.hi ==> self@.contains_key(x) && self@[x] == self@[c],
        }
    { unimplemented!() }
}
#[verifier::external_body]
pub fn rangemaps_insert(maps: &mut [VRangeMap<BfRangeTarget>; 4], idx: usize, lo: u32, hi: u32, v: BfRangeTarget)
    requires idx < 4
    ensures
        forall|k: int| 0 <= k < 4 && k != idx ==> final(maps)@[k] == old(maps)@[k],
        forall|c: u32| lo <= c <= hi ==> final(maps)@[idx as int]@.contains_key(c) && final(maps)@[idx as int]@[c] == v,
        forall|c: u32| !(lo <= c <= hi) ==> (final(maps)@[idx as int]@.contains_key(c) == old(maps)@[idx as int]@.contains_key(c))
            && (old(maps)@[idx as int]@.contains_key(c) ==> final(maps)@[idx as int]@[c] == old(maps)@[idx as int]@[c]),
{ unimplemented!() }

#[verifier::external_body]
pub fn clone_vec_u16(v: &Vec<u16>) -> (r: Vec<u16>) ensures r@ == v@ { v.clone() }
#[verifier::external_body]
pub fn get_cloned(v: &Vec<Vec<u16>>, i: usize) -> (r: Option<Vec<u16>>) ensures i < v@.len() ==> r is Some && r->Some_0@ == v@[i as int]@, i >= v@.len() ==> r is None { v.get(i).cloned() }
pub fn opt_or_vec(o: Option<Vec<u16>>, d: Vec<u16>) -> (r: Vec<u16>) ensures r == (if o is Some { o->Some_0 } else { d }) { match o { Some(x) => x, None => d } }
pub fn zip_len(lo: u32, hi: u32, v: &Vec<Vec<u16>>) -> (r: usize)
    ensures r == (if hi < lo { 0 } else if (hi - lo + 1) <= v@.len() { (hi - lo + 1) as int } else { v@.len() as int })
{
    if hi < lo { 0 } else { let n = (hi - lo) as usize + 1; if n <= v.len() { n } else { v.len() } }
}

pub open spec fn add16(x: u16, d: int) -> u16 { ((x as int + d) % 0x10000) as u16 }
// the destination a stored target denotes for `code`
pub open spec fn sem(t: BfRangeTarget, code: u32) -> Seq<u16> {
    match t {
        BfRangeTarget::HexString(v) => if v@.len() == 0 { v@ } else { v@.update(v@.len() - 1, add16(v@[v@.len() - 1], (code % 0x10000) as int)) },
        BfRangeTarget::UTF16CodePoint { offset } => seq![(((code as int + offset as int) % 0x1_0000_0000) % 0x10000) as u16],
        BfRangeTarget::ArrayOfHexStrings(a) => Seq::<u16>::empty(),
    }
}
// what a definition (lo, hi, target) given to `put` says about code c = lo + d (None: the definition does not cover it)
pub open spec fn defined(t: BfRangeTarget, lo: u32, c: u32) -> Option<Seq<u16>> {
    let d = c - lo;
    match t {
        BfRangeTarget::HexString(v) => Some(if v@.len() == 0 { v@ } else { v@.update(v@.len() - 1, add16(v@[v@.len() - 1], d as int)) }),
        BfRangeTarget::UTF16CodePoint { offset } => Some(seq![(((c as int + offset as int) % 0x1_0000_0000) % 0x10000) as u16]),
        BfRangeTarget::ArrayOfHexStrings(a) => if d < a@.len() { Some(a@[d as int]@) } else { None },
    }
}
pub open spec fn stored(m: ToUnicodeCMap, len: int, c: u32) -> Option<BfRangeTarget> {
    if 1 <= len <= 4 && m.bf_ranges@[len - 1]@.contains_key(c) { Some(m.bf_ranges@[len - 1]@[c]) } else { None }
}
// the decoding of a code of `len` bytes under the CMap state
pub open spec fn decode(m: ToUnicodeCMap, len: int, c: u32) -> Option<Seq<u16>> {
    match stored(m, len, c) { Some(t) => Some(sem(t, c)), None => None }
}
// representation invariant: `put` never stores an array target
pub open spec fn no_arrays(m: ToUnicodeCMap) -> bool {
    forall|len: int, c: u32| 1 <= len <= 4 && #[trigger] m.bf_ranges@[len - 1]@.contains_key(c) ==> !(m.bf_ranges@[len - 1]@[c] is ArrayOfHexStrings)
}

pub proof fn lemma_rel16(x: u16, lo: u32, c: u32)
    requires lo <= c
    ensures add16(((x as int - (lo % 0x10000) as int + 0x10000) % 0x10000) as u16, (c % 0x10000) as int) == add16(x, (c - lo) as int)
{
    assert(((((x as int - (lo % 0x10000) as int + 0x10000) % 0x10000) + (c % 0x10000) as int) % 0x10000) == ((x as int + (c - lo)) % 0x10000)) by (nonlinear_arith)
        requires 0 <= x < 0x10000, 0 <= lo <= c;
}
pub open spec fn zip_len_spec(lo: u32, hi: u32, n: int) -> int { if hi < lo { 0 } else if (hi - lo + 1) <= n { (hi - lo + 1) as int } else { n } }

pub proof fn lemma_trunc16(c: u32) ensures (#[verifier::truncate] (c as u16)) as int == (c % 0x10000) as int
{ assert((#[verifier::truncate] (c as u16)) == (c % 0x10000) as u16) by (bit_vector); }
pub proof fn lemma_wrap_add16(a: u16, b: u16) ensures a.wrapping_add(b) == add16(a, b as int)
{ }
pub proof fn lemma_wrap_sub16(a: u16, b: u16) ensures a.wrapping_sub(b) == ((a as int - b as int + 0x10000) % 0x10000) as u16
{ }
