C = 'src/encodings/cmap.rs'
S = 'src/cmap_section.rs'
LAST_ADD = dict(rule='R10', pat=r'if let Some\(last\) = ret_vec\.last_mut\(\) \{\s*\*last = last\.wrapping_add\(code as u16\);\s*\}', to='if ret_vec.len() > 0 {\n                    let __l = ret_vec.len() - 1;\n                    ret_vec[__l] = ret_vec[__l].wrapping_add(#[verifier::truncate] (code as u16));\n                }', count=1, note='last_mut() template (index form); `code as u16` is an intended truncation (R13)')
LAST_SUB = dict(rule='R10', pat=r'if let Some\(last\) = units\.last_mut\(\) \{\s*\*last = last\.wrapping_sub\(src_code_lo as u16\);\s*\}', to='if units.len() > 0 {\n                    let __l = units.len() - 1;\n                    units[__l] = units[__l].wrapping_sub(#[verifier::truncate] (src_code_lo as u16));\n                }', count=1, note='last_mut() template (index form); intended truncation (R13)')
UNIT = dict(
    rlimit=150,
    properties=['C15', 'C04'],
    prelude=['arch64.rs'],
    types=[
        dict(file=S, kind='type', name='SourceCode'),
        dict(file=S, kind='type', name='CodeLen'),
        dict(file=C, kind='enum', name='BfRangeTarget'),
        dict(file=C, kind='struct', name='ToUnicodeCMap', subst=[dict(rule='R8', lit='[RangeInclusiveMap<SourceCode, BfRangeTarget>; 4]', to='[VRangeMap<BfRangeTarget>; 4]', count=1, note='rangemap model')]),
    ],
    functions=[
        dict(file=C, impl='ToUnicodeCMap', name='get', rules=dict(no_sink=True, subst=[
            dict(rule='R9', lit='bf_ranges_map.get_key_value(&code).and_then(|(range, value)| match value {', to='match bf_ranges_map.get_key_value(code) { None => None, Some((range, value)) => match value {', count=1, note='and_then closure written as a match'),
            dict(rule='R9', pat=r'\.cloned\(\),\n        \}\)\n', to='.cloned(),\n        } }\n', count=1, note='closing of the and_then closure'),
            dict(rule='R5', lit='let mut ret_vec = vec.clone();', to='let mut ret_vec = clone_vec_u16(vec);', count=1, note='Vec<u16>::clone shim'),
            LAST_ADD,
            dict(rule='R13', lit='Some(vec![u32::wrapping_add(code, *offset) as u16])', to='Some(vec![#[verifier::truncate] (u32::wrapping_add(code, *offset) as u16)])', count=1, note='intended truncation'),
            dict(rule='R5', lit='vec_of_strings.get((code - range.start()) as usize).cloned()', to='get_cloned(vec_of_strings, (code - range.start()) as usize)', count=1, note='slice::get(..).cloned() shim'),
        ])),
        dict(file=C, impl='ToUnicodeCMap', name='put', rules=dict(no_sink=True, loops={1: dict(kind='index', limit='zip_len(src_code_lo, src_code_hi, &strings)')}, pre_subst=[
            dict(rule='R10', lit='for (code, units) in (src_code_lo..=src_code_hi).zip(strings) {', to='for (code, units) in range_zip_strings {', count=1, note='zip of a code range with the array: index loop over the shorter'),
        ], subst=[
            LAST_SUB,
            dict(rule='R8', lit='self.bf_ranges[(code_len - 1) as usize].insert(src_code_lo..=src_code_hi, BfRangeTarget::HexString(units))', to='rangemaps_insert(&mut self.bf_ranges, (code_len - 1) as usize, src_code_lo, src_code_hi, BfRangeTarget::HexString(units))', count=1, note='rangemap model'),
            dict(rule='R8', lit='target => self.bf_ranges[(code_len - 1) as usize].insert(src_code_lo..=src_code_hi, target),', to='target => rangemaps_insert(&mut self.bf_ranges, (code_len - 1) as usize, src_code_lo, src_code_hi, target),', count=1, note='rangemap model'),
            dict(rule='R10', lit='self.put_char(code, code_len, units);', to='self.put_char(src_code_lo + (__k1 - 1) as u32, code_len, clone_vec_u16(&strings[__k1 - 1]));', count=1, note='zip template: element k of both'),
        ])),
        dict(file=C, impl='ToUnicodeCMap', name='put_char', rules=dict(no_sink=True)),
        dict(file=C, impl='ToUnicodeCMap', name='get_or_replacement_char', rules=dict(no_sink=True, subst=[
            dict(rule='R5', pat=r'self\.get\(code, code_len\)\s*\.unwrap_or\(vec!\[ToUnicodeCMap::REPLACEMENT_CHAR\]\)', to='opt_or_vec(self.get(code, code_len), vec![0xfffd])', count=1, note='Option::unwrap_or shim; REPLACEMENT_CHAR = 0xfffd (cmap.rs:35)')])),
    ],
)
