import os, importlib.util
def _load(u):
    sp = importlib.util.spec_from_file_location(u + '_unit', os.path.join(os.path.dirname(os.path.abspath(__file__)), '..', u, 'unit.py'))
    m = importlib.util.module_from_spec(sp); sp.loader.exec_module(m); return m
_deref = {f['name']: f for f in _load('deref').UNIT['functions']}
_ids = {f['name']: f for f in _load('ids').UNIT['functions']}
def DEREF(name):
    f = dict(_deref[name]); f['overlay'] = '../../deref/ov/Document.%s.ov' % name; f['props'] = ['C07', 'C13']; return f
def IDS(name):
    f = dict(_ids[name]); f['overlay'] = '../../ids/ov/Document.%s.ov' % name; f['props'] = ['C07', 'C11']; return f
D = 'src/document.rs'
O = 'src/object.rs'
I = 'src/incremental_document.rs'
UNIT = dict(
    properties=['C07'],
    prelude=['arch64.rs', 'containers.rs'],
    rlimit=80,
    types=[
        dict(file=O, kind='type', name='ObjectId'),
        dict(file=D, kind='const', name='DEREF_LIMIT'),
    ],
    functions=[
        DEREF('dereference'),
        DEREF('get_object'),
        IDS('set_object'),
        dict(file=D, impl='Document', name='has_object', rules=dict(no_sink=True)),
        dict(file=I, impl='IncrementalDocument', name='opt_clone_object_to_new_document', rules=dict(no_sink=True)),
        dict(file=I, impl='IncrementalDocument', name='get_prev_documents', rules=dict(no_sink=True)),
        dict(file=I, impl='IncrementalDocument', name='get_prev_documents_bytes', rules=dict(no_sink=True)),
    ],
)
