// ===== incremental update: copying an object of the previous revisions into the new one (deref's and ids' models joined) =====
#[derive(Debug)]
pub enum Error { ObjectNotFound(ObjectId), ReferenceLimit, Other }
pub type Result<T> = core::result::Result<T, Error>;
/// Object as far as the lookup looks at it: a reference or something else (told apart by a tag)
pub enum Object { Reference(ObjectId), Other(int) }
impl Object {
    pub fn as_reference(&self) -> (r: Result<ObjectId>)
        ensures r is Ok <==> self is Reference, r is Ok ==> r->Ok_0 == self->Reference_0
    { match self { Object::Reference(id) => Ok(*id), _ => Err(Error::Other) } }
}
pub struct Document { pub objects: VBTreeMap<ObjectId, Object>, pub max_id: u32 }
pub fn ok_or_not_found<'a>(o: Option<&'a Object>, id: ObjectId) -> (r: Result<&'a Object>)
    ensures r is Ok <==> o is Some, r is Ok ==> r->Ok_0 == o->Some_0, r is Err ==> r->Err_0 == Error::ObjectNotFound(id)
{ match o { Some(x) => Ok(x), None => Err(Error::ObjectNotFound(id)) } }

/// Following references from `obj`, `hops` of them already followed and `last` the id followed last: the object the chain
/// ends in and the last id, or the error: a reference to an object the document does not hold, or more than DEREF_LIMIT hops
/// (which every cyclic chain runs into).
spec fn chase(m: Map<ObjectId, Object>, obj: Object, last: Option<ObjectId>, hops: nat) -> core::result::Result<(Option<ObjectId>, Object), Error>
    decreases DEREF_LIMIT + 1 - hops
{
    match obj {
        Object::Reference(id) =>
            if !m.contains_key(id) { Err(Error::ObjectNotFound(id)) }
            else if hops + 1 > DEREF_LIMIT { Err(Error::ReferenceLimit) }
            else { chase(m, m[id], Some(id), hops + 1) },
        Object::Other(_) => Ok((last, obj)),
    }
}

// ----- joined from units/ids/spec.rs -----
/// representation invariant the editing functions rely on: no object number above max_id
pub open spec fn ids_wf(d: &Document) -> bool { forall|k: ObjectId| d.objects@.contains_key(k) ==> k.0 <= d.max_id }
pub fn max_u32(a: u32, b: u32) -> (r: u32) ensures r == (if a >= b { a } else { b }) { if a >= b { a } else { b } }
impl<K, V> VBTreeMap<K, V> {
    #[verifier::external_body]
    pub fn contains_key(&self, k: &K) -> (r: bool) ensures r == self@.contains_key(*k) { unimplemented!() }
}
impl Clone for Object {
    /// derive(Clone) on the real Object: the copy equals the original
    #[verifier::external_body]
    fn clone(&self) -> (r: Self) ensures r == *self { unimplemented!() }
}
pub struct IncrementalDocument { pub bytes_documents: Vec<u8>, pub prev_documents: Document, pub new_document: Document }
/// what `get_object(id)` yields on the object map m: the end of the reference chain that starts at object id
spec fn lookup(m: Map<ObjectId, Object>, id: ObjectId) -> core::result::Result<(Option<ObjectId>, Object), Error> {
    if m.contains_key(id) { chase(m, m[id], None, 0) } else { Err(Error::ObjectNotFound(id)) }
}
