// ===== C12: the pages come out in the depth-first (pre-order) order of the page tree =====
// `PageTreeIter::next` is proved above to be one step of `next_spec`. This file is about `next_spec` only: the sequence of
// all ids that repeated calls yield (`run`) equals the pre-order listing of the /Type /Page leaves (`pre_list`) for every
// page tree that fits the two budgets of the iterator (nesting at most PAGE_TREE_DEPTH_LIMIT, one unit of iter_limit per
// kid visited). Trees that do not fit, and graphs that are not trees, are the business of the bounded step c12-pages.

pub open spec fn kids_or_empty(doc: &Document, id: ObjectId) -> Seq<Object> { match doc.kids_of(id) { Some(k) => k, None => Seq::empty() } }
pub open spec fn is_page(doc: &Document, kid: Object) -> bool { kid is Reference && doc.type_of(kid->Reference_0) == Some(page_name()) }
pub open spec fn is_pages(doc: &Document, kid: Object) -> bool { kid is Reference && doc.type_of(kid->Reference_0) == Some(pages_name()) }

/// pre-order listing of the pages below one kid / below a list of kids, descending at most `d` levels
pub open spec fn pre_kid(doc: &Document, kid: Object, d: nat) -> Seq<ObjectId> decreases d, 0nat
{
    if is_page(doc, kid) { seq![kid->Reference_0] }
    else if is_pages(doc, kid) && d > 0 { pre_list(doc, kids_or_empty(doc, kid->Reference_0), (d - 1) as nat) }
    else { Seq::empty() }
}
pub open spec fn pre_list(doc: &Document, kids: Seq<Object>, d: nat) -> Seq<ObjectId> decreases d, kids.len() + 1
{
    if kids.len() == 0 { Seq::empty() } else { pre_kid(doc, kids[0], d) + pre_list(doc, kids.subrange(1, kids.len() as int), d) }
}
/// the tree below is at most `d` levels deep (no intermediate node is met with the levels used up)
pub open spec fn fits_kid(doc: &Document, kid: Object, d: nat) -> bool decreases d, 0nat
{ is_pages(doc, kid) ==> d > 0 && fits_list(doc, kids_or_empty(doc, kid->Reference_0), (d - 1) as nat) }
pub open spec fn fits_list(doc: &Document, kids: Seq<Object>, d: nat) -> bool decreases d, kids.len() + 1
{ kids.len() == 0 || (fits_kid(doc, kids[0], d) && fits_list(doc, kids.subrange(1, kids.len() as int), d)) }
/// number of kids the walk visits
pub open spec fn count_kid(doc: &Document, kid: Object, d: nat) -> nat decreases d, 0nat
{ 1 + if is_pages(doc, kid) && d > 0 { count_list(doc, kids_or_empty(doc, kid->Reference_0), (d - 1) as nat) } else { 0 } }
pub open spec fn count_list(doc: &Document, kids: Seq<Object>, d: nat) -> nat decreases d, kids.len() + 1
{ if kids.len() == 0 { 0 } else { count_kid(doc, kids[0], d) + count_list(doc, kids.subrange(1, kids.len() as int), d) } }

/// a call that yields a page has used up budget
pub proof fn lemma_next_uses_budget(doc: &Document, s: St)
    ensures next_spec(doc, s).0 is Some ==> next_spec(doc, s).1.limit < s.limit,
            next_spec(doc, s).1.limit <= s.limit,
    decreases s.limit, s.stack.len()
{
    lemma_next_unfold(doc, s);
    if s.kids is Some && s.kids->Some_0.len() > 0 {
        let kid = s.kids->Some_0[0];
        let rest = s.kids->Some_0.subrange(1, s.kids->Some_0.len() as int);
        if s.limit != 0 {
            let s1 = St { kids: Some(rest), stack: s.stack, limit: (s.limit - 1) as nat };
            lemma_next_uses_budget(doc, s1);
            if kid is Reference {
                let id = kid->Reference_0;
                lemma_next_uses_budget(doc, St { kids: doc.kids_of(id), stack: if rest.len() > 0 { s.stack.push(rest) } else { s.stack }, limit: s1.limit });
            }
        }
    } else if s.stack.len() > 0 {
        lemma_next_uses_budget(doc, St { kids: Some(s.stack.last()), stack: s.stack.drop_last(), limit: s.limit });
    }
}
/// every id that calling next() until it returns None yields, in order (the guard is always true: lemma_next_uses_budget)
pub open spec fn trace(doc: &Document, s: St) -> Seq<ObjectId> decreases s.limit
{
    match next_spec(doc, s) {
        (Some(id), s2) => if s2.limit < s.limit { seq![id] + trace(doc, s2) } else { Seq::empty() },
        (None, _) => Seq::empty(),
    }
}
/// states from which next() behaves alike yield alike
pub proof fn lemma_trace_same(doc: &Document, s: St, t: St)
    requires next_spec(doc, s) == next_spec(doc, t)
    ensures trace(doc, s) == trace(doc, t)
{
    lemma_next_uses_budget(doc, s);
    lemma_next_uses_budget(doc, t);
}
pub proof fn lemma_trace_none_kids(doc: &Document, stack: Seq<Seq<Object>>, limit: nat)
    ensures trace(doc, St { kids: None, stack, limit }) == trace(doc, St { kids: Some(Seq::empty()), stack, limit })
{
    let a = St { kids: None, stack, limit };
    let b = St { kids: Some(Seq::<Object>::empty()), stack, limit };
    lemma_next_unfold(doc, a);
    lemma_next_unfold(doc, b);
    lemma_next_uses_budget(doc, a);
    lemma_next_uses_budget(doc, b);
    if stack.len() == 0 { } else { lemma_trace_same(doc, a, b); }
}

/// The walk over a list of kids that fits the budgets yields the pre-order listing of that list and goes on with what was
/// pending above it.
pub proof fn lemma_order(doc: &Document, kids: Seq<Object>, stack: Seq<Seq<Object>>, limit: nat, d: nat)
    requires fits_list(doc, kids, d), stack.len() + d <= limit_nat(), limit >= count_list(doc, kids, d),
    ensures trace(doc, St { kids: Some(kids), stack, limit })
        == pre_list(doc, kids, d) + trace(doc, St { kids: Some(Seq::empty()), stack, limit: (limit - count_list(doc, kids, d)) as nat }),
    decreases d, kids.len()
{
    let s = St { kids: Some(kids), stack, limit };
    reveal_with_fuel(pre_list, 2); reveal_with_fuel(pre_kid, 2);
    reveal_with_fuel(fits_list, 2); reveal_with_fuel(fits_kid, 2);
    reveal_with_fuel(count_list, 2); reveal_with_fuel(count_kid, 2);
    assert(page_name().len() == 4 && pages_name().len() == 5);
    if kids.len() == 0 {
        assert(kids =~= Seq::<Object>::empty());
        assert(pre_list(doc, kids, d) + trace(doc, s) =~= trace(doc, s));
    } else {
        let kid = kids[0];
        let rest = kids.subrange(1, kids.len() as int);
        let s1 = St { kids: Some(rest), stack, limit: (limit - 1) as nat };
        let c_rest = count_list(doc, rest, d);
        lemma_next_unfold(doc, s);
        lemma_next_uses_budget(doc, s);
        if is_page(doc, kid) {
            // yields the page, goes on with the rest
            assert(count_kid(doc, kid, d) == 1);
            lemma_order(doc, rest, stack, (limit - 1) as nat, d);
            assert(trace(doc, s) == seq![kid->Reference_0] + trace(doc, s1));
            assert(pre_list(doc, kids, d) =~= seq![kid->Reference_0] + pre_list(doc, rest, d));
            let tail = trace(doc, St { kids: Some(Seq::<Object>::empty()), stack, limit: (limit - 1 - c_rest) as nat });
            assert(seq![kid->Reference_0] + (pre_list(doc, rest, d) + tail) =~= (seq![kid->Reference_0] + pre_list(doc, rest, d)) + tail);
        } else if is_pages(doc, kid) {
            let id = kid->Reference_0;
            let sub = kids_or_empty(doc, id);
            let c_sub = count_list(doc, sub, (d - 1) as nat);
            assert(d > 0);
            assert(stack.len() < limit_nat());
            let st2 = if rest.len() > 0 { stack.push(rest) } else { stack };
            let l1 = (limit - 1) as nat;
            let enter = St { kids: doc.kids_of(id), stack: st2, limit: l1 };
            lemma_trace_same(doc, s, enter);
            if doc.kids_of(id) is None { lemma_trace_none_kids(doc, st2, l1); }
            // below the node
            lemma_order(doc, sub, st2, l1, (d - 1) as nat);
            let l2 = (l1 - c_sub) as nat;
            let after_sub = St { kids: Some(Seq::<Object>::empty()), stack: st2, limit: l2 };
            // back to the siblings
            let back = St { kids: Some(rest), stack, limit: l2 };
            if rest.len() > 0 {
                lemma_next_unfold(doc, after_sub);
                assert(st2.drop_last() =~= stack);
                assert(st2.last() == rest);
                lemma_trace_same(doc, after_sub, back);
            } else {
                assert(rest =~= Seq::<Object>::empty());
            }
            assert(trace(doc, after_sub) == trace(doc, back));
            lemma_order(doc, rest, stack, l2, d);
            let tail = trace(doc, St { kids: Some(Seq::<Object>::empty()), stack, limit: (l2 - c_rest) as nat });
            assert(pre_list(doc, kids, d) =~= pre_list(doc, sub, (d - 1) as nat) + pre_list(doc, rest, d));
            assert(pre_list(doc, sub, (d - 1) as nat) + (pre_list(doc, rest, d) + tail) =~= (pre_list(doc, sub, (d - 1) as nat) + pre_list(doc, rest, d)) + tail);
        } else {
            // anything else is skipped
            assert(count_kid(doc, kid, d) == 1);
            lemma_trace_same(doc, s, s1);
            lemma_order(doc, rest, stack, (limit - 1) as nat, d);
            assert(pre_list(doc, kids, d) =~= pre_list(doc, rest, d));
        }
    }
}
/// C12 for page trees within the iterator's budgets: starting from the kids of the root with nothing pending, the ids
/// that next() yields are the /Type /Page leaves in depth-first order, each once per occurrence
pub proof fn theorem_page_order(doc: &Document, kids: Seq<Object>, limit: nat, d: nat)
    requires fits_list(doc, kids, d), d <= limit_nat(), limit >= count_list(doc, kids, d),
    ensures trace(doc, St { kids: Some(kids), stack: Seq::empty(), limit }) == pre_list(doc, kids, d),
{
    lemma_order(doc, kids, Seq::empty(), limit, d);
    let end = St { kids: Some(Seq::<Object>::empty()), stack: Seq::<Seq<Object>>::empty(), limit: (limit - count_list(doc, kids, d)) as nat };
    lemma_next_unfold(doc, end);
    assert(trace(doc, end) =~= Seq::<ObjectId>::empty());
    assert(pre_list(doc, kids, d) + Seq::<ObjectId>::empty() =~= pre_list(doc, kids, d));
}
