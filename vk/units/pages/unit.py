D = 'src/document.rs'
O = 'src/object.rs'
UNIT = dict(
    properties=['C12', 'C13', 'C04'],
    prelude=['arch64.rs'],
    rlimit=80,
    post=['order.rs'],
    types=[
        dict(file=O, kind='type', name='ObjectId'),
        dict(file=D, kind='const', name='PAGE_TREE_DEPTH_LIMIT'),
    ],
    functions=[
        dict(file=D, impl='Iterator for PageTreeIter<\'_>', emit_impl="impl<'a> PageTreeIter<'a>", key_impl='PageTreeIter', name='next', rules=dict(no_sink=True, raw_sig=True, loops={}, pre_subst=[
            dict(rule='R7', lit='fn next(&mut self) -> Option<Self::Item> {', to='fn next(&mut self) -> (r: Option<ObjectId>)\n    {', count=1, note='associated type Item = ObjectId; result named'),
            dict(rule='R2', lit='while let Some((kid, new_kids)) = self.kids.and_then(|k| k.split_first()) {', to='loop {\n                let __wl = split_first_opt(self.kids);\n                if __wl.is_none() {\n                    break;\n                }\n                let (kid, new_kids) = __wl.unwrap();', count=1, note='`while let Some(p) = e { body }` as `loop { let t = e; if t.is_none() { break } let p = t.unwrap(); body }`; Option::and_then(split_first) shim'),
            dict(rule='R10', lit='self.doc.get_dictionary(kid_id).and_then(Dictionary::get_type)', to='self.doc.dict_type(kid_id)', count=1, note='get_dictionary(id).and_then(get_type) template: shim Document::dict_type (the /Type name of the dictionary object id, or an error)'),
            dict(rule='R10', lit='match type_name {', to='{', count=1, note='match on byte-string literals as an if / else-if chain'),
            dict(rule='R10', lit='b"Page" => {', to='if bytes_are(type_name, b"Page") {', count=1, note='match arm as if'),
            dict(rule='R10', lit='b"Pages" => {', to='else if bytes_are(type_name, b"Pages") {', count=1, note='match arm as else-if'),
            dict(rule='R10', lit='_ => {}', to='else {}', count=1, note='match arm as else'),
            dict(rule='R5', lit='Self::PAGE_TREE_DEPTH_LIMIT', to='PAGE_TREE_DEPTH_LIMIT', count=1, note='associated constant (cut from the impl block) as a module constant'),
            dict(rule='R10', lit='Self::kids(self.doc, kid_id)', to='doc_kids(self.doc, kid_id)', count=1, note='PageTreeIter::kids is a closure chain over Dictionary accessors: shim returning an arbitrary Option<&[Object]>'),
            dict(rule='R10', pat=r'if let kids @ Some\(_\) = self\.stack\.pop\(\) \{\s*self\.kids = kids;', to='let __pop = self.stack.pop();\n            if __pop.is_some() {\n                self.kids = __pop;', count=1, note='`if let x @ Some(_) = e` as `let x = e; if x.is_some()`'),
        ])),
    ],
)
