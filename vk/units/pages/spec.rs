// ===== page tree walk: abstract document (contracts of the callees only) =====
pub struct ErrTag;
pub type Result<T> = core::result::Result<T, ErrTag>;

/// Object as far as the walk looks at it: a reference or something else
pub enum Object { Reference(ObjectId), Other }
impl Object {
    pub fn as_reference(&self) -> (r: Result<ObjectId>)
        ensures r is Ok <==> self is Reference, r is Ok ==> r->Ok_0 == self->Reference_0
    { match self { Object::Reference(id) => Ok(*id), _ => Err(ErrTag) } }
}
pub struct Document { pub ghost_id: Ghost<int> }
impl Document {
    /// the /Type of the dictionary object `id`
    pub uninterp spec fn type_of(&self, id: ObjectId) -> Option<Seq<u8>>;
    #[verifier::external_body]
    pub fn dict_type(&self, id: ObjectId) -> (r: Result<&[u8]>)
        ensures r is Ok <==> self.type_of(id) is Some, r is Ok ==> r->Ok_0@ == self.type_of(id)->Some_0
    { unimplemented!() }
}
#[verifier::external_body]
pub fn doc_kids<'a>(doc: &'a Document, id: ObjectId) -> (r: Option<&'a [Object]>) { unimplemented!() }
#[verifier::external_body]
pub fn split_first_opt<'a>(k: Option<&'a [Object]>) -> (r: Option<(&'a Object, &'a [Object])>)
    ensures r is Some <==> (k is Some && k->Some_0@.len() > 0),
        r is Some ==> *r->Some_0.0 == k->Some_0@[0] && r->Some_0.1@ == k->Some_0@.subrange(1, k->Some_0@.len() as int)
{ k.and_then(|k| k.split_first()) }
#[verifier::external_body]
pub fn bytes_are(a: &[u8], b: &[u8]) -> (r: bool) ensures r == (a@ == b@) { a == b }

pub struct PageTreeIter<'a> {
    pub doc: &'a Document,
    pub stack: Vec<&'a [Object]>,
    pub kids: Option<&'a [Object]>,
    pub iter_limit: usize,
}
pub open spec fn page_name() -> Seq<u8> { seq![0x50u8, 0x61u8, 0x67u8, 0x65u8] }
