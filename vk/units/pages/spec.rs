// ===== page tree walk: abstract document (contracts of the callees only) =====
pub struct ErrTag;
pub type Result<T> = core::result::Result<T, ErrTag>;

/// Object as far as the walk looks at it: a reference or something else
pub enum Object { Reference(ObjectId), Other }
impl Object {
    pub fn as_reference(&self) -> (r: Result<ObjectId>)
        ensures r is Ok <==> self is Reference, r is Ok ==> r->Ok_0 == self->Reference_0
    { match self { Object::Reference(id) => Ok(*id), _ => Err(ErrTag) } }
}
pub struct Document { pub ghost_id: Ghost<int> }
impl Document {
    /// the /Type of the dictionary object `id`
    pub uninterp spec fn type_of(&self, id: ObjectId) -> Option<Seq<u8>>;
    /// the /Kids array of the dictionary object `id` (PageTreeIter::kids: direct or behind references), if it has one
    pub uninterp spec fn kids_of(&self, id: ObjectId) -> Option<Seq<Object>>;
    #[verifier::external_body]
    pub fn dict_type(&self, id: ObjectId) -> (r: Result<&[u8]>)
        ensures r is Ok <==> self.type_of(id) is Some, r is Ok ==> r->Ok_0@ == self.type_of(id)->Some_0
    { unimplemented!() }
}
#[verifier::external_body]
pub fn doc_kids<'a>(doc: &'a Document, id: ObjectId) -> (r: Option<&'a [Object]>)
    ensures r is Some <==> doc.kids_of(id) is Some, r is Some ==> r->Some_0@ == doc.kids_of(id)->Some_0
{ unimplemented!() }
#[verifier::external_body]
pub fn split_first_opt<'a>(k: Option<&'a [Object]>) -> (r: Option<(&'a Object, &'a [Object])>)
    ensures r is Some <==> (k is Some && k->Some_0@.len() > 0),
        r is Some ==> *r->Some_0.0 == k->Some_0@[0] && r->Some_0.1@ == k->Some_0@.subrange(1, k->Some_0@.len() as int)
{ k.and_then(|k| k.split_first()) }
#[verifier::external_body]
pub fn bytes_are(a: &[u8], b: &[u8]) -> (r: bool) ensures r == (a@ == b@) { a == b }

pub struct PageTreeIter<'a> {
    pub doc: &'a Document,
    pub stack: Vec<&'a [Object]>,
    pub kids: Option<&'a [Object]>,
    pub iter_limit: usize,
}
pub open spec fn page_name() -> Seq<u8> { seq![0x50u8, 0x61u8, 0x67u8, 0x65u8] }
pub open spec fn pages_name() -> Seq<u8> { seq![0x50u8, 0x61u8, 0x67u8, 0x65u8, 0x73u8] }

// ===== the walk as a state machine over views =====
/// what the iterator holds: the kids still to visit at the current level, the pending sibling lists of the levels above
/// (innermost last), the remaining budget
pub struct St { pub kids: Option<Seq<Object>>, pub stack: Seq<Seq<Object>>, pub limit: nat }
pub open spec fn stack_view(st: Seq<&[Object]>) -> Seq<Seq<Object>> { Seq::new(st.len(), |i: int| st[i]@) }
impl<'a> PageTreeIter<'a> {
    pub open spec fn view(&self) -> St {
        St { kids: match self.kids { Some(k) => Some(k@), None => None }, stack: stack_view(self.stack@), limit: self.iter_limit as nat }
    }
}
pub closed spec fn limit_nat() -> nat { PAGE_TREE_DEPTH_LIMIT as nat }
/// one call of next(): the id it returns and the state it leaves
#[verifier::opaque]
pub open spec fn next_spec(doc: &Document, s: St) -> (Option<ObjectId>, St)
    decreases s.limit, s.stack.len()
{
    if s.kids is Some && s.kids->Some_0.len() > 0 {
        let kid = s.kids->Some_0[0];
        let rest = s.kids->Some_0.subrange(1, s.kids->Some_0.len() as int);
        if s.limit == 0 { (None, s) } else {
            let s1 = St { kids: Some(rest), stack: s.stack, limit: (s.limit - 1) as nat };
            match kid {
                Object::Reference(id) => match doc.type_of(id) {
                    Some(t) => if t == page_name() { (Some(id), s1) }
                        else if t == pages_name() && s.stack.len() < limit_nat() {
                            next_spec(doc, St { kids: doc.kids_of(id), stack: if rest.len() > 0 { s.stack.push(rest) } else { s.stack }, limit: s1.limit })
                        } else { next_spec(doc, s1) },
                    None => next_spec(doc, s1),
                },
                Object::Other => next_spec(doc, s1),
            }
        }
    } else if s.stack.len() > 0 {
        next_spec(doc, St { kids: Some(s.stack.last()), stack: s.stack.drop_last(), limit: s.limit })
    } else { (None, s) }
}
pub proof fn lemma_next_unfold(doc: &Document, s: St)
    ensures next_spec(doc, s) == (
        if s.kids is Some && s.kids->Some_0.len() > 0 {
            let kid = s.kids->Some_0[0];
            let rest = s.kids->Some_0.subrange(1, s.kids->Some_0.len() as int);
            if s.limit == 0 { (None::<ObjectId>, s) } else {
                let s1 = St { kids: Some(rest), stack: s.stack, limit: (s.limit - 1) as nat };
                match kid {
                    Object::Reference(id) => match doc.type_of(id) {
                        Some(t) => if t == page_name() { (Some(id), s1) }
                            else if t == pages_name() && s.stack.len() < limit_nat() {
                                next_spec(doc, St { kids: doc.kids_of(id), stack: if rest.len() > 0 { s.stack.push(rest) } else { s.stack }, limit: s1.limit })
                            } else { next_spec(doc, s1) },
                        None => next_spec(doc, s1),
                    },
                    Object::Other => next_spec(doc, s1),
                }
            }
        } else if s.stack.len() > 0 {
            next_spec(doc, St { kids: Some(s.stack.last()), stack: s.stack.drop_last(), limit: s.limit })
        } else { (None::<ObjectId>, s) })
{ reveal_with_fuel(next_spec, 2); }
proof fn lemma_limit_nat() ensures limit_nat() == PAGE_TREE_DEPTH_LIMIT as nat { }
