import os, importlib.util
_sp = importlib.util.spec_from_file_location('crypt_unit', os.path.join(os.path.dirname(os.path.abspath(__file__)), '..', 'crypt', 'unit.py'))
_m = importlib.util.module_from_spec(_sp); _sp.loader.exec_module(_m)
CRYPT = {f['name']: f for f in _m.UNIT['functions'] if f.get('impl') == 'Rc4'}
def RC4(name):
    f = dict(CRYPT[name]); f['overlay'] = '../../crypt/ov/Rc4.%s.ov' % name; f['props'] = ['C05', 'C06']; return f
F = 'src/encryption/crypt_filters.rs'
A = 'src/encryption/algorithms.rs'
E = 'src/encryption.rs'
# `&X.to_le_bytes()[..n]` -> the low-order n bytes of X, low-order byte first (IntBytes shim, assumed contract on core)
LE = dict(rule='R5', pat=r'&([\w.]+)\.to_(le|be)_bytes\(\)\[\.\.(\d+)\]', to=r'prefix(\1.\2_bytes().as_slice(), \3)', optional=True, note='to_le_bytes()[..n]: IntBytes shim + sub-slice shim')
LE2 = dict(rule='R5', pat=r'&?([\w.]+)\.to_(le|be)_bytes\(\)(?!\[)', to=r'\1.\2_bytes().as_slice()', optional=True, note='to_xx_bytes() passed whole: IntBytes shim')
UNIT = dict(
    properties=['C06'],
    prelude=['arch64.rs'],
    rlimit=80,
    types=[dict(file='src/encryption/rc4.rs', kind='struct', name='Rc4'), dict(file=A, kind='const', name='PAD_BYTES'), dict(file=A, kind='struct', name='PasswordAlgorithm', subst=[dict(rule='R12', lit='pub(crate) ', to='pub ', note='visibility is irrelevant inside the generated module')])],
    spec=['../crypt/spec.rs', 'spec.rs'],
    functions=[
        RC4('new'), RC4('apply_keystream'), RC4('decrypt'), RC4('encrypt'),
        dict(file=F, impl='CryptFilter for Rc4CryptFilter', emit_impl='impl Rc4CryptFilter', key_impl='Rc4CryptFilter', name='compute_key', rules=dict(no_sink=True, raw_sig=True, pre_subst=[LE, LE2], subst=[
            dict(rule='R7', lit='-> Result<Vec<u8>, DecryptionError>', to='-> (r: core::result::Result<Vec<u8>, DecryptionError>)', count=1, note='result named'),
            dict(rule='R5', lit='std::cmp::min(key.len() + 5, 16)', to='min_usize(key.len() + 5, 16)', count=1, note='std::cmp::min shim'),
            dict(rule='R5', lit='hasher.finalize()[..key_len].to_vec()', to='prefix_vec(&hasher.finalize(), key_len)', count=1, note='GenericArray[..n].to_vec(): sub-slice copy shim'),
        ])),
        dict(file=F, impl='CryptFilter for Aes128CryptFilter', emit_impl='impl Aes128CryptFilter', key_impl='Aes128CryptFilter', name='compute_key', rules=dict(no_sink=True, raw_sig=True, pre_subst=[LE, LE2], subst=[
            dict(rule='R7', lit='-> Result<Vec<u8>, DecryptionError>', to='-> (r: core::result::Result<Vec<u8>, DecryptionError>)', count=1, note='result named'),
            dict(rule='R5', lit='std::cmp::min(key.len() + 5, 16)', to='min_usize(key.len() + 5, 16)', count=1, note='std::cmp::min shim'),
            dict(rule='R5', lit='Md5::digest(builder)[..key_len].to_vec()', to='prefix_vec(&Md5::digest(builder.as_slice()), key_len)', count=1, note='GenericArray[..n].to_vec(): sub-slice copy shim'),
            dict(rule='R5', lit='Vec::with_capacity(key.len() + 9)', to='Vec::with_capacity(cap_hint(key.len(), 9))', count=1, note='capacity hint cannot overflow for a slice length + 9 (slices are at most isize::MAX bytes): shim returns the wrapping sum, the capacity is not observable'),
        ])),
        dict(file=F, impl='CryptFilter for Aes256CryptFilter', emit_impl='impl Aes256CryptFilter', key_impl='Aes256CryptFilter', name='compute_key', rules=dict(no_sink=True, raw_sig=True, subst=[
            dict(rule='R7', lit='-> Result<Vec<u8>, DecryptionError>', to='-> (r: core::result::Result<Vec<u8>, DecryptionError>)', count=1, note='result named'),
        ])),
        dict(file=F, impl='CryptFilter for IdentityCryptFilter', emit_impl='impl IdentityCryptFilter', key_impl='IdentityCryptFilter', name='compute_key', rules=dict(no_sink=True, raw_sig=True, subst=[
            dict(rule='R7', lit='-> Result<Vec<u8>, DecryptionError>', to='-> (r: core::result::Result<Vec<u8>, DecryptionError>)', count=1, note='result named'),
        ])),
        dict(file=A, impl='PasswordAlgorithm', name='compute_file_encryption_key_r4', rules=dict(no_sink=True, raw_sig=True, loops={1: dict(kind='keep')}, pre_subst=[
            dict(rule='R11', pat=r'fn compute_file_encryption_key_r4<P>\(\s*&self,\s*doc: &Document,\s*password: P,\s*\) -> Result<Vec<u8>, DecryptionError>\s*where\s*P: AsRef<\[u8\]>,\s*\{', to='fn compute_file_encryption_key_r4(&self, doc: &Document, password: &[u8]) -> (r: core::result::Result<Vec<u8>, DecryptionError>)\n    {', count=1, note='AsRef<[u8]> at &[u8]; result named'),
            dict(rule='R11', lit='let password = password.as_ref();', to='', count=1, note='AsRef<[u8]> at &[u8]'),
            dict(rule='R5', pat=r'for _ in ([^{]+?) \{', to=r'for __i in \1 {', note='`_` loop variable named'),
            dict(rule='R5', pat=r'let file_id_0 = doc\s*\.trailer\s*\.get\(b"ID"\)\s*\.map_err\(\|_\| DecryptionError::MissingFileID\)\?\s*\.as_array\(\)\s*\.map_err\(\|_\| DecryptionError::InvalidType\)\?\s*\.first\(\)\s*\.ok_or\(DecryptionError::InvalidType\)\?\s*\.as_str\(\)\s*\.map_err\(\|_\| DecryptionError::InvalidType\)\?;', to='let file_id_0 = doc.file_id_0()?;', count=1, note='the accessor chain trailer.get(ID).as_array().first().as_str() is dropped from the verified text: shim Document::file_id_0 (first element of the ID array, or the error the chain maps to)'),
        ], subst=[
            dict(rule='R5', lit='password.len().min(32)', to='min_usize(password.len(), 32)', count=1, note='usize::min shim'),
            dict(rule='R5', lit='hasher.update(&password[..len]);', to='hasher.update(prefix(password, len));', count=1, note='sub-slice shim'),
            dict(rule='R5', lit='hasher.update(&PAD_BYTES[..32 - len]);', to='hasher.update(prefix(PAD_BYTES.as_slice(), 32 - len));', count=1, note='sub-slice shim on the constant'),
            dict(rule='R5', lit='hasher.update(&self.owner_value);', to='hasher.update(self.owner_value.as_slice());', count=1, note='&Vec<u8> as &[u8]'),
            dict(rule='R5', lit='hasher.update((self.permissions.p_value() as u32).to_le_bytes());', to='hasher.update((self.permissions.p_value() as u32).le_bytes().as_slice());', count=1, note='to_le_bytes: IntBytes shim'),
            dict(rule='R5', pat=r'Md5::digest\(&hash\[\.\.(\w+)\]\)', to=r'Md5::digest(prefix(hash.as_slice(), \1))', optional=True, note='sub-slice shim'),
            dict(rule='R5', lit='Md5::digest(hash)', to='Md5::digest(hash.as_slice())', optional=True, note='GenericArray as &[u8]'),
            dict(rule='R5', lit='Md5::digest(&hash)', to='Md5::digest(hash.as_slice())', optional=True, note='GenericArray as &[u8]'),
            dict(rule='R5', lit='Ok(hash[..n].to_vec())', to='Ok(prefix_vec(&hash, n))', count=1, note='sub-slice copy shim'),
            dict(rule='R5', lit='self.length.unwrap_or(40) / 8', to='unwrap_or_usize(self.length, 40) / 8', count=1, note='Option::unwrap_or shim'),
        ])),
        dict(file=A, impl='PasswordAlgorithm', name='compute_hashed_owner_password_r4', rules=dict(no_sink=True, raw_sig=True, loops={1: dict(kind='keep'), 2: dict(kind='keep'), 3: dict(kind='index', limit='min_len(keysrc, &key)')}, pre_subst=[
            dict(rule='R11', pat=r'fn compute_hashed_owner_password_r4<O, U>\(\s*&self,\s*owner_password: Option<O>,\s*user_password: U,\s*\) -> Result<Vec<u8>, DecryptionError>\s*where\s*O: AsRef<\[u8\]>,\s*U: AsRef<\[u8\]>,\s*\{', to='fn compute_hashed_owner_password_r4(&self, owner_password: Option<&[u8]>, user_password: &[u8]) -> (r: core::result::Result<Vec<u8>, DecryptionError>)\n    {', count=1, note='AsRef<[u8]> at &[u8]; result named'),
            dict(rule='R11', lit='let user_password = user_password.as_ref();', to='', count=1, note='AsRef<[u8]> at &[u8]'),
            dict(rule='R10', pat=r'let password = owner_password\s*\.as_ref\(\)\s*\.map\(\|password\| password\.as_ref\(\)\)\s*\.filter\(\|password\| !password\.is_empty\(\)\)\s*\.unwrap_or\(user_password\);', to='let password = match owner_password { Some(password) => if !is_empty_slice(password) { password } else { user_password }, None => user_password };', count=1, note='Option::as_ref().map(as_ref).filter(p).unwrap_or(d) template'),
            dict(rule='R5', pat=r'for _ in ([^{]+?) \{', to=r'for __i in \1 {', note='`_` loop variable named'),
            dict(rule='R10', pat=r'for \(in_byte, out_byte\) in (\S+)\.iter\(\)\.zip\(key\.iter_mut\(\)\) \{', to=r'for (in_byte, out_byte) in \1_zip_key {', count=1, note='zip template (index loop over the shorter length)'),
        ], subst=[
            dict(rule='R5', pat=r'(\w+)\.len\(\)\.min\(32\)', to=r'min_usize(\1.len(), 32)', count=2, note='usize::min shim'),
            dict(rule='R5', lit='hasher.update(&password[..len]);', to='hasher.update(prefix(password, len));', count=1, note='sub-slice shim'),
            dict(rule='R5', lit='hasher.update(&PAD_BYTES[..32 - len]);', to='hasher.update(prefix(PAD_BYTES.as_slice(), 32 - len));', count=1, note='sub-slice shim on the constant'),
            dict(rule='R5', pat=r'Md5::digest\(&hash\[\.\.(\w+)\]\)', to=r'Md5::digest(prefix(hash.as_slice(), \\1))', optional=True, note='sub-slice shim'),
            dict(rule='R5', lit='Md5::digest(hash)', to='Md5::digest(hash.as_slice())', optional=True, note='GenericArray as &[u8]'),
            dict(rule='R5', lit='self.length.unwrap_or(40) / 8', to='unwrap_or_usize(self.length, 40) / 8', count=1, note='Option::unwrap_or shim'),
            dict(rule='R5', lit='bytes[..len].copy_from_slice(&user_password[..len]);', to='copy_into(&mut bytes, 0, len, prefix(user_password, len));', count=1, note='sub-slice copy_from_slice shim'),
            dict(rule='R5', lit='bytes[len..].copy_from_slice(&PAD_BYTES[..32 - len]);', to='copy_into(&mut bytes, len, 32, prefix(PAD_BYTES.as_slice(), 32 - len));', count=1, note='sub-slice copy_from_slice shim'),
            dict(rule='R5', lit='Rc4::new(&hash[..n]).encrypt(bytes)', to='Rc4::new(prefix(hash.as_slice(), n)).encrypt(bytes.as_slice())', count=1, note='sub-slice shim; array as slice'),
            dict(rule='R10', lit='let mut key = vec![0u8; n];', to='let mut key = zeros(n);\n            let keysrc = prefix(hash.as_slice(), n);', count=1, note='vec![0; n] shim; zip template: the zipped sub-slice hash[..n] is named'),
            dict(rule='R2', lit='for i in 1..=19', to='for i in 1u8..20u8', count=1, note='inclusive range as half-open range (u8, inferred from `in_byte ^ i`)'),
            dict(rule='R10', lit='*out_byte = in_byte ^ i;', to='key[__k3 - 1] = keysrc[__k3 - 1] ^ i;', count=1, note='zip template: element k of both'),
            dict(rule='R5', lit='Rc4::new(&key).encrypt(&result)', to='Rc4::new(key.as_slice()).encrypt(result.as_slice())', count=1, note='&Vec<u8> as &[u8]'),
        ])),
        dict(file=A, impl='PasswordAlgorithm', name='compute_hashed_user_password_r2', rules=dict(no_sink=True, raw_sig=True, pre_subst=[
            dict(rule='R11', pat=r'fn compute_hashed_user_password_r2<U>\(\s*&self,\s*doc: &Document,\s*user_password: U,\s*\) -> Result<Vec<u8>, DecryptionError>\s*where\s*U: AsRef<\[u8\]>,\s*\{', to='fn compute_hashed_user_password_r2(&self, doc: &Document, user_password: &[u8]) -> (r: core::result::Result<Vec<u8>, DecryptionError>)\n    {', count=1, note='AsRef<[u8]> at &[u8]; result named'),
        ], subst=[
            dict(rule='R5', lit='Rc4::new(&file_encryption_key).encrypt(PAD_BYTES)', to='Rc4::new(file_encryption_key.as_slice()).encrypt(PAD_BYTES.as_slice())', count=1, note='&Vec<u8> / array as &[u8]'),
        ])),
        dict(file=A, impl='PasswordAlgorithm', name='compute_hashed_user_password_r3_r4', rules=dict(no_sink=True, raw_sig=True, loops={1: dict(kind='keep'), 2: dict(kind='index', limit='min_len(file_encryption_key.as_slice(), &key)')}, pre_subst=[
            dict(rule='R11', pat=r'fn compute_hashed_user_password_r3_r4<U>\(\s*&self,\s*doc: &Document,\s*user_password: U,\s*\) -> Result<Vec<u8>, DecryptionError>\s*where\s*U: AsRef<\[u8\]>,\s*\{', to='fn compute_hashed_user_password_r3_r4(&self, doc: &Document, user_password: &[u8]) -> (r: core::result::Result<Vec<u8>, DecryptionError>)\n    {', count=1, note='AsRef<[u8]> at &[u8]; result named'),
            dict(rule='R5', pat=r'let file_id_0 = doc\s*\.trailer\s*\.get\(b"ID"\)\s*\.map_err\(\|_\| DecryptionError::MissingFileID\)\?\s*\.as_array\(\)\s*\.map_err\(\|_\| DecryptionError::InvalidType\)\?\s*\.first\(\)\s*\.ok_or\(DecryptionError::InvalidType\)\?\s*\.as_str\(\)\s*\.map_err\(\|_\| DecryptionError::InvalidType\)\?;', to='let file_id_0 = doc.file_id_0()?;', count=1, note='the accessor chain trailer.get(ID).as_array().first().as_str() is dropped from the verified text: shim Document::file_id_0'),
            dict(rule='R10', lit='for (in_byte, out_byte) in file_encryption_key.iter().zip(key.iter_mut()) {', to='for (in_byte, out_byte) in file_encryption_key_zip_key {', count=1, note='zip template (index loop over the shorter length)'),
        ], subst=[
            dict(rule='R5', lit='hasher.update(PAD_BYTES);', to='hasher.update(PAD_BYTES.as_slice());', count=1, note='array as &[u8]'),
            dict(rule='R5', lit='Rc4::new(&file_encryption_key).encrypt(hash)', to='Rc4::new(file_encryption_key.as_slice()).encrypt(hash.as_slice())', count=1, note='&Vec<u8> / GenericArray as &[u8]'),
            dict(rule='R5', lit='vec![0u8; file_encryption_key.len()]', to='zeros(file_encryption_key.len())', count=1, note='vec![0; n] shim'),
            dict(rule='R2', lit='for i in 1..=19', to='for i in 1u8..20u8', count=1, note='inclusive range as half-open range (u8, inferred from `in_byte ^ i`)'),
            dict(rule='R10', lit='*out_byte = in_byte ^ i;', to='key[__k2 - 1] = file_encryption_key[__k2 - 1] ^ i;', count=1, note='zip template: element k of both'),
            dict(rule='R5', lit='Rc4::new(&key).encrypt(&result)', to='Rc4::new(key.as_slice()).encrypt(result.as_slice())', count=1, note='&Vec<u8> as &[u8]'),
            dict(rule='R5', lit='result.resize(32, 0);', to='resize_zero(&mut result, 32);', count=1, note='Vec::resize shim'),
            dict(rule='R5', pat=r'let mut rng = rand::rng\(\);\s*rng\.fill\(&mut result\[16\.\.\]\);', to='fill_random_from(&mut result, 16);', count=1, note='rand: the bytes from 16 on become arbitrary (shim)'),
        ])),
        dict(file=A, impl='PasswordAlgorithm', name='authenticate_user_password_r4', rules=dict(no_sink=True, raw_sig=True, pre_subst=[
            dict(rule='R11', pat=r'fn authenticate_user_password_r4<U>\(\s*&self,\s*doc: &Document,\s*user_password: U,\s*\) -> Result<\(\), DecryptionError>\s*where\s*U: AsRef<\[u8\]>,\s*\{', to='fn authenticate_user_password_r4(&self, doc: &Document, user_password: &[u8]) -> (r: core::result::Result<(), DecryptionError>)\n    {', count=1, note='AsRef<[u8]> at &[u8]; result named'),
            dict(rule='R11', lit='(doc, &user_password)', to='(doc, user_password)', count=2, note='AsRef<[u8]> at &[u8]: &U passed on as the slice'),
        ], subst=[
            dict(rule='R5', lit='hashed_user_password[..len] != self.user_value[..len]', to='!prefix_eq(&hashed_user_password, &self.user_value, len)', count=1, note='comparison of two sub-slices: shim'),
        ])),
        dict(file=A, impl='PasswordAlgorithm', name='recover_user_password_r4', rules=dict(no_sink=True, raw_sig=True, loops={1: dict(kind='keep'), 2: dict(kind='index', limit='min_len(keysrc, &key)')}, pre_subst=[
            dict(rule='R11', pat=r'fn recover_user_password_r4<O>\(\s*&self,\s*owner_password: O,\s*\) -> Result<Vec<u8>, DecryptionError>\s*where\s*O: AsRef<\[u8\]>,\s*\{', to='fn recover_user_password_r4(&self, owner_password: &[u8]) -> (r: core::result::Result<Vec<u8>, DecryptionError>)\n    {', count=1, note='AsRef<[u8]> at &[u8]; result named'),
            dict(rule='R11', lit='let password = owner_password.as_ref();', to='let password = owner_password;', count=1, note='AsRef<[u8]> at &[u8]'),
            dict(rule='R5', pat=r'for _ in ([^{]+?) \{', to=r'for __i in \1 {', note='`_` loop variable named'),
            dict(rule='R2', lit='for i in (1..=19).rev() {', to='let mut __r: u8 = 20;\n            while __r > 1 {\n                __r -= 1;\n                let i = __r;', count=1, note='descending inclusive range as a while loop: i = 19, 18, .., 1'),
            dict(rule='R10', pat=r'for \(in_byte, out_byte\) in (\S+)\.iter\(\)\.zip\(key\.iter_mut\(\)\) \{', to=r'for (in_byte, out_byte) in \1_zip_key {', count=1, note='zip template (index loop over the shorter length)'),
        ], subst=[
            dict(rule='R5', pat=r'(\w+)\.len\(\)\.min\(32\)', to=r'min_usize(\1.len(), 32)', count=1, note='usize::min shim'),
            dict(rule='R5', lit='hasher.update(&password[..len]);', to='hasher.update(prefix(password, len));', count=1, note='sub-slice shim'),
            dict(rule='R5', lit='hasher.update(&PAD_BYTES[..32 - len]);', to='hasher.update(prefix(PAD_BYTES.as_slice(), 32 - len));', count=1, note='sub-slice shim on the constant'),
            dict(rule='R5', lit='Md5::digest(hash)', to='Md5::digest(hash.as_slice())', optional=True, note='GenericArray as &[u8]'),
            dict(rule='R5', pat=r'Md5::digest\(&hash\[\.\.(\w+)\]\)', to=r'Md5::digest(prefix(hash.as_slice(), \\1))', optional=True, note='sub-slice shim'),
            dict(rule='R5', lit='self.length.unwrap_or(40) / 8', to='unwrap_or_usize(self.length, 40) / 8', count=1, note='Option::unwrap_or shim'),
            dict(rule='R5', lit='self.owner_value.to_vec()', to='self.owner_value.as_slice().to_vec()', count=1, note='Vec<u8>::to_vec through the slice'),
            dict(rule='R10', lit='let mut key = vec![0u8; n];', to='let mut key = zeros(n);\n            let keysrc = prefix(hash.as_slice(), n);', count=1, note='vec![0; n] shim; zip template: the zipped sub-slice hash[..n] is named'),
            dict(rule='R10', lit='*out_byte = in_byte ^ i;', to='key[__k2 - 1] = keysrc[__k2 - 1] ^ i;', count=1, note='zip template: element k of both'),
            dict(rule='R5', lit='Rc4::new(&key).decrypt(&result)', to='Rc4::new(key.as_slice()).decrypt(result.as_slice())', count=1, note='&Vec<u8> as &[u8]'),
            dict(rule='R5', lit='Rc4::new(&hash[..n]).decrypt(&result)', to='Rc4::new(prefix(hash.as_slice(), n)).decrypt(result.as_slice())', count=1, note='sub-slice shim'),
        ])),
        dict(file=A, impl='PasswordAlgorithm', name='authenticate_owner_password_r4', rules=dict(no_sink=True, raw_sig=True, pre_subst=[
            dict(rule='R11', pat=r'fn authenticate_owner_password_r4<O>\(\s*&self,\s*doc: &Document,\s*owner_password: O,\s*\) -> Result<\(\), DecryptionError>\s*where\s*O: AsRef<\[u8\]>,\s*\{', to='fn authenticate_owner_password_r4(&self, doc: &Document, owner_password: &[u8]) -> (r: core::result::Result<(), DecryptionError>)\n    {', count=1, note='AsRef<[u8]> at &[u8]; result named'),
            dict(rule='R11', lit='self.authenticate_user_password_r4(doc, &result)', to='self.authenticate_user_password_r4(doc, result.as_slice())', count=1, note='&Vec<u8> as &[u8]'),
        ])),
        dict(file=A, impl='PasswordAlgorithm', name='authenticate_user_password_r6', rules=dict(no_sink=True, raw_sig=True, pre_subst=[
            dict(rule='R11', pat=r'fn authenticate_user_password_r6<U>\(\s*&self,\s*user_password: U,\s*\) -> Result<\(\), DecryptionError>\s*where\s*U: AsRef<\[u8\]>,\s*\{', to='fn authenticate_user_password_r6(&self, user_password: &[u8]) -> (r: core::result::Result<(), DecryptionError>)\n    {', count=1, note='AsRef<[u8]> at &[u8]; result named'),
            dict(rule='R11', lit='let mut user_password = user_password.as_ref();', to='let mut user_password = user_password;', count=1, note='AsRef<[u8]> at &[u8]'),
            dict(rule='R5', pat=r'&([\w.]+)\[(\d+)\.\.\]\[\.\.(\d+)\]', to=r'subslice(\1.as_slice(), \2, \3)', note='&v[a..][..n] sub-slice shim'),
            dict(rule='R5', lit='user_password = &user_password[..127];', to='user_password = prefix(user_password, 127);', count=1, note='sub-slice shim'),
        ], subst=[
            dict(rule='R5', pat=r'let mut input = Vec::with_capacity\([^;]*\);', to='let mut input: Vec<u8> = Vec::new();', count=1, note='capacity hint dropped (not observable; the sum of two slice lengths cannot overflow)'),
            dict(rule='R5', lit='self.compute_hash(user_password, user_validation_salt, None)? != hashed_user_password', to='!slice_eq_vec(&self.compute_hash(user_password, user_validation_salt, None)?, hashed_user_password)', count=1, note='Vec<u8> != &[u8] comparison shim'),
        ])),
        dict(file=A, impl='PasswordAlgorithm', name='authenticate_owner_password_r6', rules=dict(no_sink=True, raw_sig=True, pre_subst=[
            dict(rule='R11', pat=r'fn authenticate_owner_password_r6<O>\(\s*&self,\s*owner_password: O,\s*\) -> Result<\(\), DecryptionError>\s*where\s*O: AsRef<\[u8\]>,\s*\{', to='fn authenticate_owner_password_r6(&self, owner_password: &[u8]) -> (r: core::result::Result<(), DecryptionError>)\n    {', count=1, note='AsRef<[u8]> at &[u8]; result named'),
            dict(rule='R11', lit='let mut owner_password = owner_password.as_ref();', to='let mut owner_password = owner_password;', count=1, note='AsRef<[u8]> at &[u8]'),
            dict(rule='R5', pat=r'&([\w.]+)\[(\d+)\.\.\]\[\.\.(\d+)\]', to=r'subslice(\1.as_slice(), \2, \3)', note='&v[a..][..n] sub-slice shim'),
            dict(rule='R5', lit='owner_password = &owner_password[..127];', to='owner_password = prefix(owner_password, 127);', count=1, note='sub-slice shim'),
        ], subst=[
            dict(rule='R5', pat=r'let mut input = Vec::with_capacity\([^;]*\);', to='let mut input: Vec<u8> = Vec::new();', count=1, note='capacity hint dropped (not observable; the sum of two slice lengths cannot overflow)'),
            dict(rule='R5', lit='self.compute_hash(owner_password, owner_validation_salt, Some(&self.user_value))? != hashed_owner_password', to='!slice_eq_vec(&self.compute_hash(owner_password, owner_validation_salt, Some(self.user_value.as_slice()))?, hashed_owner_password)', count=1, note='Vec<u8> != &[u8] comparison shim; &Vec<u8> as &[u8]'),
        ])),
        dict(file=A, impl='PasswordAlgorithm', name='compute_file_encryption_key_r6', rules=dict(no_sink=True, raw_sig=True, pre_subst=[
            dict(rule='R11', pat=r'fn compute_file_encryption_key_r6<P>\(\s*&self,\s*password: P,\s*\) -> Result<Vec<u8>, DecryptionError>\s*where\s*P: AsRef<\[u8\]>,\s*\{', to='fn compute_file_encryption_key_r6(&self, password: &[u8]) -> (r: core::result::Result<Vec<u8>, DecryptionError>)\n    {', count=1, note='AsRef<[u8]> at &[u8]; result named'),
            dict(rule='R11', lit='let mut password = password.as_ref();', to='let mut password = password;', count=1, note='AsRef<[u8]> at &[u8]'),
            dict(rule='R5', pat=r'&([\w.]+)\[(\d+)\.\.\]\[\.\.(\d+)\]', to=r'subslice(\1.as_slice(), \2, \3)', note='&v[a..][..n] sub-slice shim'),
            dict(rule='R5', lit='password = &password[..127];', to='password = prefix(password, 127);', count=1, note='sub-slice shim'),
            dict(rule='R10', pat=r'let mut key = \[0u8; 32\];\s*key\.copy_from_slice\(&hash\);\s*let iv = \[0u8; 16\];\s*let mut (\w+) = self\.(\w+)\.clone\(\);\s*let mut decryptor = Aes256CbcDec::new\(&key\.into\(\), &iv\.into\(\)\);\s*for block in \w+\.chunks_exact_mut\(16\) \{\s*decryptor\.decrypt_block_mut\(block\.into\(\)\);\s*\}', to=r'let \1 = aes256_cbc_zero_iv_decrypt(&hash, self.\2.as_slice());', count=2, note='RustCrypto block-mode idiom (32-byte key copied from the hash, zero IV, decrypt every 16-byte block in place) as one call of an uninterpreted AES-256-CBC-no-padding decryption: the idiom itself is dropped from the verified text'),
        ], subst=[
            dict(rule='R5', lit='self.compute_hash(password, owner_validation_salt, Some(&self.user_value))? == hashed_owner_password', to='slice_eq_vec(&self.compute_hash(password, owner_validation_salt, Some(self.user_value.as_slice()))?, hashed_owner_password)', count=1, note='Vec<u8> == &[u8] comparison shim'),
            dict(rule='R5', lit='self.compute_hash(password, owner_key_salt, Some(&self.user_value))', to='self.compute_hash(password, owner_key_salt, Some(self.user_value.as_slice()))', count=1, note='&Vec<u8> as &[u8]'),
            dict(rule='R5', lit='self.compute_hash(password, user_validation_salt, None)? == hashed_user_password', to='slice_eq_vec(&self.compute_hash(password, user_validation_salt, None)?, hashed_user_password)', count=1, note='Vec<u8> == &[u8] comparison shim'),
            dict(rule='R5', lit='self.validate_permissions(&user_encrypted)', to='self.validate_permissions(user_encrypted.as_slice())', optional=True, note='&Vec<u8> as &[u8]'),
        ])),
        dict(file=A, impl='PasswordAlgorithm', name='compute_hashed_user_password_r6', props=['C06'], rules=dict(no_sink=True, raw_sig=True, pre_subst=[
            dict(rule='R11', pat=r'fn compute_hashed_user_password_r6<K, U>\(\s*&self,\s*file_encryption_key: K,\s*user_password: U,\s*\) -> Result<\(Vec<u8>, Vec<u8>\), DecryptionError>\s*where\s*K: AsRef<\[u8\]>,\s*U: AsRef<\[u8\]>,\s*\{', to='fn compute_hashed_user_password_r6(&self, file_encryption_key: &[u8], user_password: &[u8]) -> (r: core::result::Result<(Vec<u8>, Vec<u8>), DecryptionError>)\n    {', count=1, note='AsRef<[u8]> at &[u8]; result named'),
            dict(rule='R11', lit='let file_encryption_key = file_encryption_key.as_ref();', to='', count=1, note='AsRef<[u8]> at &[u8]'),
            dict(rule='R11', lit='let mut user_password = user_password.as_ref();', to='let mut user_password = user_password;', count=1, note='AsRef<[u8]> at &[u8]'),
            dict(rule='R5', lit='user_password = &user_password[..127];', to='user_password = prefix(user_password, 127);', count=1, note='sub-slice shim'),
            dict(rule='R5', pat=r'let mut rng = rand::rng\(\);\s*rng\.fill\(&mut user_value\[(\d+)\.\.\]\);', to=r'fill_random48_from(&mut user_value, \1);', count=1, note='rand: the bytes from 32 on become arbitrary (shim)'),
            dict(rule='R5', pat=r'&([\w.]+)\[(\d+)\.\.\]\[\.\.(\d+)\]', to=r'subslice(\1.as_slice(), \2, \3)', note='&v[a..][..n] sub-slice shim'),
            dict(rule='R5', pat=r'user_value\[\.\.(\d+)\]\.copy_from_slice\(&(\w+)\);', to=r'copy_into48(&mut user_value, 0, \1, \2.as_slice());', count=1, note='sub-slice copy_from_slice shim'),
            dict(rule='R10', pat=r'let mut key = \[0u8; 32\];\s*key\.copy_from_slice\(&hash\);\s*let iv = \[0u8; 16\];\s*let mut (\w+) = file_encryption_key\.to_vec\(\);\s*let mut encryptor = Aes256CbcEnc::new\(&key\.into\(\), &iv\.into\(\)\);\s*for block in \w+\.chunks_exact_mut\(16\) \{\s*encryptor\.encrypt_block_mut\(block\.into\(\)\);\s*\}', to=r'let \1 = aes256_cbc_zero_iv_encrypt(&hash, file_encryption_key);', count=1, note='RustCrypto block-mode idiom (32-byte key copied from the hash, zero IV, every 16-byte block encrypted in place) as one call of an uninterpreted AES-256-CBC-no-padding encryption'),
        ], subst=[
            dict(rule='R5', pat=r'let mut input = Vec::with_capacity\([^;]*\);', to='let mut input: Vec<u8> = Vec::new();', optional=True, note='capacity hint dropped (not observable)'),
            dict(rule='R5', lit='Some(&self.user_value)', to='Some(self.user_value.as_slice())', optional=True, note='&Vec<u8> as &[u8]'),
            dict(rule='R5', pat=r'Ok\(\((\w+)_value\.to_vec\(\), (\w+)\)\)', to=r'Ok((\1_value.as_slice().to_vec(), \2))', count=1, note='array to_vec through the slice'),
        ])),
        dict(file=A, impl='PasswordAlgorithm', name='compute_hashed_owner_password_r6', props=['C06'], rules=dict(no_sink=True, raw_sig=True, pre_subst=[
            dict(rule='R11', pat=r'fn compute_hashed_owner_password_r6<K, O>\(\s*&self,\s*file_encryption_key: K,\s*owner_password: O,\s*\) -> Result<\(Vec<u8>, Vec<u8>\), DecryptionError>\s*where\s*K: AsRef<\[u8\]>,\s*O: AsRef<\[u8\]>,\s*\{', to='fn compute_hashed_owner_password_r6(&self, file_encryption_key: &[u8], owner_password: &[u8]) -> (r: core::result::Result<(Vec<u8>, Vec<u8>), DecryptionError>)\n    {', count=1, note='AsRef<[u8]> at &[u8]; result named'),
            dict(rule='R11', lit='let file_encryption_key = file_encryption_key.as_ref();', to='', count=1, note='AsRef<[u8]> at &[u8]'),
            dict(rule='R11', lit='let mut owner_password = owner_password.as_ref();', to='let mut owner_password = owner_password;', count=1, note='AsRef<[u8]> at &[u8]'),
            dict(rule='R5', lit='owner_password = &owner_password[..127];', to='owner_password = prefix(owner_password, 127);', count=1, note='sub-slice shim'),
            dict(rule='R5', pat=r'let mut rng = rand::rng\(\);\s*rng\.fill\(&mut owner_value\[(\d+)\.\.\]\);', to=r'fill_random48_from(&mut owner_value, \1);', count=1, note='rand: the bytes from 32 on become arbitrary (shim)'),
            dict(rule='R5', pat=r'&([\w.]+)\[(\d+)\.\.\]\[\.\.(\d+)\]', to=r'subslice(\1.as_slice(), \2, \3)', note='&v[a..][..n] sub-slice shim'),
            dict(rule='R5', pat=r'owner_value\[\.\.(\d+)\]\.copy_from_slice\(&(\w+)\);', to=r'copy_into48(&mut owner_value, 0, \1, \2.as_slice());', count=1, note='sub-slice copy_from_slice shim'),
            dict(rule='R10', pat=r'let mut key = \[0u8; 32\];\s*key\.copy_from_slice\(&hash\);\s*let iv = \[0u8; 16\];\s*let mut (\w+) = file_encryption_key\.to_vec\(\);\s*let mut encryptor = Aes256CbcEnc::new\(&key\.into\(\), &iv\.into\(\)\);\s*for block in \w+\.chunks_exact_mut\(16\) \{\s*encryptor\.encrypt_block_mut\(block\.into\(\)\);\s*\}', to=r'let \1 = aes256_cbc_zero_iv_encrypt(&hash, file_encryption_key);', count=1, note='RustCrypto block-mode idiom (32-byte key copied from the hash, zero IV, every 16-byte block encrypted in place) as one call of an uninterpreted AES-256-CBC-no-padding encryption'),
        ], subst=[
            dict(rule='R5', pat=r'let mut input = Vec::with_capacity\([^;]*\);', to='let mut input: Vec<u8> = Vec::new();', optional=True, note='capacity hint dropped (not observable)'),
            dict(rule='R5', lit='Some(&self.user_value)', to='Some(self.user_value.as_slice())', optional=True, note='&Vec<u8> as &[u8]'),
            dict(rule='R5', pat=r'Ok\(\((\w+)_value\.to_vec\(\), (\w+)\)\)', to=r'Ok((\1_value.as_slice().to_vec(), \2))', count=1, note='array to_vec through the slice'),
        ])),
        dict(file=A, impl='PasswordAlgorithm', name='compute_permissions', props=['C06'], rules=dict(no_sink=True, raw_sig=True, pre_subst=[
            dict(rule='R11', pat=r'fn compute_permissions<K>\(\s*&self,\s*file_encryption_key: K,\s*\) -> Result<Vec<u8>, DecryptionError>\s*where\s*K: AsRef<\[u8\]>,\s*\{', to='fn compute_permissions(&self, file_encryption_key: &[u8]) -> (r: core::result::Result<Vec<u8>, DecryptionError>)\n    {', count=1, note='AsRef<[u8]> at &[u8]; result named'),
            dict(rule='R11', lit='let file_encryption_key = file_encryption_key.as_ref();', to='', count=1, note='AsRef<[u8]> at &[u8]'),
            dict(rule='R5', pat=r'bytes\[\.\.8\]\.copy_from_slice\(&u64::to_le_bytes\(([^;]+?)\)\);', to=r'copy_into16(&mut bytes, 0, 8, (\1).le_bytes().as_slice());', count=1, note='sub-slice copy_from_slice shim; to_le_bytes: IntBytes shim'),
            dict(rule='R5', pat=r'bytes\[(\d+)\.\.\]\[\.\.(\d+)\]\.copy_from_slice\(([^;]+?)\);', to=r'copy_into16(&mut bytes, \1, \2, \3);', count=1, note='sub-slice copy_from_slice shim'),
            dict(rule='R5', pat=r'let mut rng = rand::rng\(\);\s*rng\.fill\(&mut bytes\[(\d+)\.\.\]\[\.\.(\d+)\]\);', to=r'fill_random16(&mut bytes, \1, \2);', count=1, note='rand: the named bytes become arbitrary (shim)'),
            dict(rule='R10', pat=r'let mut key = \[0u8; 32\];\s*key\.copy_from_slice\(file_encryption_key\);(\s*//[^\n]*\n)*\s*Aes256EbcEnc::new\(&key\.into\(\)\)\s*\.encrypt_block_mut\(\(&mut bytes\)\.into\(\)\);', to='aes256_ecb_encrypt_block(file_encryption_key, &mut bytes);', optional=True, note='RustCrypto idiom (32-byte key copied from the slice, one block encrypted in place) as one call of an uninterpreted AES-256-ECB block encryption; `bytes.into()` instead of `(&mut bytes).into()` no longer matches and loses the anchor'),
            dict(rule='R10', pat=r'let mut key = \[0u8; 32\];\s*key\.copy_from_slice\(file_encryption_key\);(\s*//[^\n]*\n)*\s*Aes256EbcEnc::new\(&key\.into\(\)\)\s*\.encrypt_block_mut\(bytes\.into\(\)\);', to='aes256_ecb_encrypt_copy(file_encryption_key, &bytes);', optional=True, note='the same idiom with `bytes.into()`: a temporary copy of the array is encrypted, the array keeps its value (shim without effect on its argument)'),
        ], subst=[
            dict(rule='R5', lit='Ok(bytes.to_vec())', to='Ok(bytes.as_slice().to_vec())', count=1, note='array to_vec through the slice'),
        ])),
        dict(file=A, impl='PasswordAlgorithm', name='validate_permissions', props=['C06'], rules=dict(no_sink=True, raw_sig=True, pre_subst=[
            dict(rule='R11', pat=r'fn validate_permissions<K>\(\s*&self,\s*file_encryption_key: K,\s*\) -> Result<\(\), DecryptionError>\s*where\s*K: AsRef<\[u8\]>,\s*\{', to='fn validate_permissions(&self, file_encryption_key: &[u8]) -> (r: core::result::Result<(), DecryptionError>)\n    {', count=1, note='AsRef<[u8]> at &[u8]; result named'),
            dict(rule='R11', lit='let file_encryption_key = file_encryption_key.as_ref();', to='', count=1, note='AsRef<[u8]> at &[u8]'),
            dict(rule='R5', lit='bytes.copy_from_slice(&self.permission_encrypted);', to='copy_all16(&mut bytes, self.permission_encrypted.as_slice());', count=1, note='copy_from_slice shim (panics unless the lengths agree: precondition)'),
            dict(rule='R10', pat=r'let mut key = \[0u8; 32\];\s*key\.copy_from_slice\(file_encryption_key\);(\s*//[^\n]*\n)*\s*Aes256EbcDec::new\(&key\.into\(\)\)\s*\.decrypt_block_mut\(\(&mut bytes\)\.into\(\)\);', to='aes256_ecb_decrypt_block(file_encryption_key, &mut bytes);', optional=True, note='RustCrypto idiom as one call of an uninterpreted AES-256-ECB block decryption'),
            dict(rule='R10', pat=r'let mut key = \[0u8; 32\];\s*key\.copy_from_slice\(file_encryption_key\);(\s*//[^\n]*\n)*\s*Aes256EbcDec::new\(&key\.into\(\)\)\s*\.decrypt_block_mut\(bytes\.into\(\)\);', to='aes256_ecb_decrypt_copy(file_encryption_key, &bytes);', optional=True, note='the same idiom with `bytes.into()`: a temporary copy of the array is decrypted, the array keeps its value (shim without effect on its argument)'),
            dict(rule='R5', pat=r'if &bytes\[(\d+)\.\.\]\[\.\.(\d+)\] != ([^{]+?) \{', to=r'if slice_ne(subslice(bytes.as_slice(), \1, \2), \3) {', count=1, note='sub-slice comparison shim'),
            dict(rule='R5', pat=r'if bytes\[\.\.4\] != u64::to_le_bytes\(([^;{]+?)\)\[\.\.4\] \{', to=r'if slice_ne(prefix(bytes.as_slice(), 4), prefix((\1).le_bytes().as_slice(), 4)) {', count=1, note='sub-slice comparison shim; to_le_bytes: IntBytes shim'),
        ], subst=[])),
        dict(file=E, impl='Permissions', name='p_value', rules=dict(no_sink=True)),
    ],
)
