// =====================================================================================
// ISO 32000-1:2008 7.6.2 / 7.6.3 written as mathematical functions (the oracle), over an uninterpreted MD5
// =====================================================================================
// ASSUMED: the md-5 crate computes the RFC 1321 function `md5`; all that is used of it is that it is a function of the
// bytes fed and yields 16 bytes.
pub uninterp spec fn md5(m: Seq<u8>) -> Seq<u8>;
#[verifier::external_body]
pub proof fn axiom_md5_len(m: Seq<u8>) ensures md5(m).len() == 16 { }

pub type ObjectId = (u32, u16);
pub enum DecryptionError { MissingFileID, InvalidType, InvalidKeyLength, IncorrectPassword, InvalidRevision, InvalidHashLength, Padding, Other }
pub struct Rc4CryptFilter;
pub struct Aes128CryptFilter;
pub struct Aes256CryptFilter;
pub struct IdentityCryptFilter;

/// low-order `n` bytes of `v`, low-order byte first
pub open spec fn le(v: nat, n: nat) -> Seq<u8> { Seq::new(n, |i: int| ((v / pow256(i as nat)) % 256) as u8) }
/// `w` bytes of `v`, high-order byte first
pub open spec fn be(v: nat, w: nat) -> Seq<u8> { Seq::new(w, |i: int| ((v / pow256((w - 1 - i) as nat)) % 256) as u8) }
pub open spec fn pow256(k: nat) -> nat decreases k { if k == 0 { 1 } else { 256 * pow256((k - 1) as nat) } }
pub open spec fn min_int(a: int, b: int) -> int { if a <= b { a } else { b } }
pub open spec fn salt() -> Seq<u8> { seq![0x73u8, 0x41u8, 0x6Cu8, 0x54u8] }   // "sAlT"

/// Algorithm 1 (7.6.2): key for the object (num, gen) from the n-byte file key; `aes` adds "sAlT"
pub open spec fn alg1(key: Seq<u8>, num: nat, gen: nat, aes: bool) -> Seq<u8> {
    let ext = key + le(num, 3) + le(gen, 2) + (if aes { salt() } else { Seq::<u8>::empty() });
    md5(ext).subrange(0, min_int(key.len() as int + 5, 16))
}

// ---- shims for std / RustCrypto API (assumed contracts) --------------------------------------------------
pub struct Md5 { pub fed: Ghost<Seq<u8>> }
impl Md5 {
    #[verifier::external_body]
    pub fn new() -> (r: Md5) ensures r.fed@ == Seq::<u8>::empty() { unimplemented!() }
    #[verifier::external_body]
    pub fn update(&mut self, data: &[u8]) ensures final(self).fed@ == old(self).fed@ + data@ { unimplemented!() }
    #[verifier::external_body]
    pub fn finalize(self) -> (r: Vec<u8>) ensures r@ == md5(self.fed@), r@.len() == 16 { unimplemented!() }
    #[verifier::external_body]
    pub fn digest(data: &[u8]) -> (r: Vec<u8>) ensures r@ == md5(data@), r@.len() == 16 { unimplemented!() }
}
pub trait IntBytes: Sized {
    spec fn val(&self) -> nat;
    spec fn width(&self) -> nat;
    fn le_bytes(&self) -> (r: Vec<u8>) ensures r@ == le(self.val(), self.width());
    fn be_bytes(&self) -> (r: Vec<u8>) ensures r@ == be(self.val(), self.width());
}
impl IntBytes for u32 {
    open spec fn val(&self) -> nat { *self as nat }
    open spec fn width(&self) -> nat { 4 }
    #[verifier::external_body] fn le_bytes(&self) -> (r: Vec<u8>) { self.to_le_bytes().to_vec() }
    #[verifier::external_body] fn be_bytes(&self) -> (r: Vec<u8>) { self.to_be_bytes().to_vec() }
}
impl IntBytes for u64 {
    open spec fn val(&self) -> nat { *self as nat }
    open spec fn width(&self) -> nat { 8 }
    #[verifier::external_body] fn le_bytes(&self) -> (r: Vec<u8>) { self.to_le_bytes().to_vec() }
    #[verifier::external_body] fn be_bytes(&self) -> (r: Vec<u8>) { self.to_be_bytes().to_vec() }
}
impl IntBytes for u16 {
    open spec fn val(&self) -> nat { *self as nat }
    open spec fn width(&self) -> nat { 2 }
    #[verifier::external_body] fn le_bytes(&self) -> (r: Vec<u8>) { self.to_le_bytes().to_vec() }
    #[verifier::external_body] fn be_bytes(&self) -> (r: Vec<u8>) { self.to_be_bytes().to_vec() }
}
#[verifier::external_body]
pub fn prefix_vec(block: &Vec<u8>, s: usize) -> (r: Vec<u8>) requires s <= block@.len() ensures r@ == block@.subrange(0, s as int) { block[..s].to_vec() }
pub fn min_usize(a: usize, b: usize) -> (r: usize) ensures r == min_int(a as int, b as int) { if a <= b { a } else { b } }
#[verifier::external_body]
pub fn cap_hint(a: usize, b: usize) -> (r: usize) { a.wrapping_add(b) }

// ---- Permissions (bitflags): bits() is the set of flags chosen by the caller --------------------------------
pub struct Permissions { pub flags: u64 }
impl Permissions {
    #[verifier::external_body]
    pub fn bits(&self) -> (r: u64) ensures r == self.flags { unimplemented!() }
}

pub proof fn lemma_le_prefix(v: nat, w: nat, n: nat)
    requires n <= w
    ensures le(v, w).subrange(0, n as int) =~= le(v, n)
{ }
pub assume_specification<T: Clone> [<[T]>::to_vec] (s: &[T]) -> (r: Vec<T>) ensures r@ == s@;   // used at T = u8 only

// ---- Algorithm 2 (7.6.3.3): file encryption key, revisions 2-4 ------------------------------------------------
pub open spec fn pad_string() -> Seq<u8> {
    seq![0x28u8, 0xBFu8, 0x4Eu8, 0x5Eu8, 0x4Eu8, 0x75u8, 0x8Au8, 0x41u8, 0x64u8, 0x00u8, 0x4Eu8, 0x56u8, 0xFFu8, 0xFAu8, 0x01u8, 0x08u8,
         0x2Eu8, 0x2Eu8, 0x00u8, 0xB6u8, 0xD0u8, 0x68u8, 0x3Eu8, 0x80u8, 0x2Fu8, 0x0Cu8, 0xA9u8, 0xFEu8, 0x64u8, 0x53u8, 0x69u8, 0x7Au8]
}
/// step a: pad or truncate the password to exactly 32 bytes
pub open spec fn pad32(pw: Seq<u8>) -> Seq<u8> {
    let l = min_int(pw.len() as int, 32);
    pw.subrange(0, l) + pad_string().subrange(0, 32 - l)
}
pub open spec fn ffff() -> Seq<u8> { seq![0xffu8, 0xffu8, 0xffu8, 0xffu8] }
/// steps b-f: what is fed to MD5
pub open spec fn alg2_input(pw: Seq<u8>, o: Seq<u8>, p: nat, id0: Seq<u8>, revision: int, encrypt_metadata: bool) -> Seq<u8> {
    pad32(pw) + o + le(p, 4) + id0 + (if revision >= 4 && !encrypt_metadata { ffff() } else { Seq::<u8>::empty() })
}
/// step h: k times "take the first n bytes of the previous output as input of a new MD5"
pub open spec fn md5_rounds(h: Seq<u8>, n: int, k: int) -> Seq<u8> decreases k {
    if k <= 0 { h } else { md5(md5_rounds(h, n, k - 1).subrange(0, n)) }
}
pub open spec fn key_bytes(revision: int, length_bits: Option<usize>) -> int {
    if revision >= 3 { (match length_bits { Some(l) => l as int, None => 40 }) / 8 } else { 5 }
}
pub open spec fn alg2(pw: Seq<u8>, o: Seq<u8>, p: nat, id0: Seq<u8>, revision: int, encrypt_metadata: bool, length_bits: Option<usize>) -> Seq<u8> {
    let n = key_bytes(revision, length_bits);
    let h0 = md5(alg2_input(pw, o, p, id0, revision, encrypt_metadata));
    let h = if revision >= 3 { md5_rounds(h0, n, 50) } else { h0 };
    h.subrange(0, n)
}
pub proof fn lemma_rounds_len(h: Seq<u8>, n: int, k: int)
    requires h.len() == 16, 0 <= n <= 16, 0 <= k
    ensures md5_rounds(h, n, k).len() == 16
    decreases k
{ if k > 0 { lemma_rounds_len(h, n, k - 1); axiom_md5_len(md5_rounds(h, n, k - 1).subrange(0, n)); } }

/// the trailer of the document as far as key derivation reads it: the first element of /ID, or the error
pub struct Document { pub id0: core::result::Result<Vec<u8>, DecryptionError> }
impl Document {
    #[verifier::external_body]
    pub fn file_id_0(&self) -> (r: core::result::Result<&[u8], DecryptionError>)
        ensures (self.id0 is Ok) == (r is Ok), r is Ok ==> r->Ok_0@ == self.id0->Ok_0@
    { unimplemented!() }
}
pub fn unwrap_or_usize(o: Option<usize>, d: usize) -> (r: usize) ensures r == (match o { Some(l) => l, None => d }) { match o { Some(l) => l, None => d } }

// ---- Algorithm 3 (7.6.3.4): the O value, revisions 2-4 ------------------------------------------------------
pub open spec fn rc4(key: Seq<u8>, data: Seq<u8>) -> Seq<u8> { rc4_xor(ksa(key, 256).0, data) }
/// step c: k times MD5 of the whole previous output
pub open spec fn md5_full_rounds(h: Seq<u8>, k: int) -> Seq<u8> decreases k {
    if k <= 0 { h } else { md5(md5_full_rounds(h, k - 1)) }
}
pub open spec fn xor_key(key: Seq<u8>, i: u8) -> Seq<u8> { Seq::new(key.len(), |j: int| key[j] ^ i) }
/// step g: rounds 1..=k, round i uses the key XOR i on the output of round i-1
pub open spec fn rc4_rounds(key: Seq<u8>, data: Seq<u8>, k: int) -> Seq<u8> decreases k {
    if k <= 0 { data } else { rc4(xor_key(key, k as u8), rc4_rounds(key, data, k - 1)) }
}
pub open spec fn alg3(owner_pw: Option<Seq<u8>>, user_pw: Seq<u8>, revision: int, length_bits: Option<usize>) -> Seq<u8> {
    // step a: "If there is no owner password, use the user password instead" - an empty string is no password
    let pw = match owner_pw { Some(p) => if p.len() > 0 { p } else { user_pw }, None => user_pw };
    let h0 = md5(pad32(pw));
    let h = if revision >= 3 { md5_full_rounds(h0, 50) } else { h0 };
    let key = h.subrange(0, key_bytes(revision, length_bits));
    let c0 = rc4(key, pad32(user_pw));
    if revision >= 3 { rc4_rounds(key, c0, 19) } else { c0 }
}
pub proof fn lemma_full_rounds_len(h: Seq<u8>, k: int)
    requires h.len() == 16, 0 <= k
    ensures md5_full_rounds(h, k).len() == 16
    decreases k
{ if k > 0 { axiom_md5_len(md5_full_rounds(h, k - 1)); } }

#[verifier::external_body]
pub fn copy_into(dst: &mut [u8; 32], from: usize, to: usize, src: &[u8])
    requires from <= to <= 32, src@.len() == to - from
    ensures final(dst)@ == old(dst)@.subrange(0, from as int) + src@ + old(dst)@.subrange(to as int, 32)
{ dst[from..to].copy_from_slice(src) }
#[verifier::external_body]
pub fn zeros(n: usize) -> (r: Vec<u8>) ensures r@.len() == n, forall|i: int| 0 <= i < n ==> r@[i] == 0u8 { vec![0u8; n] }

// ---- Algorithms 4 and 5 (7.6.3.4): the U value ------------------------------------------------------------------
pub open spec fn alg4(file_key: Seq<u8>) -> Seq<u8> { rc4(file_key, pad_string()) }
/// Algorithm 5 defines the first 16 bytes of U; the other 16 are arbitrary
pub open spec fn alg5_16(file_key: Seq<u8>, id0: Seq<u8>) -> Seq<u8> { rc4_rounds(file_key, rc4(file_key, md5(pad_string() + id0)), 19) }
pub proof fn lemma_rc4_len(key: Seq<u8>, data: Seq<u8>) ensures rc4(key, data).len() == data.len() { }
pub proof fn lemma_rc4_rounds_len(key: Seq<u8>, data: Seq<u8>, k: int) requires 0 <= k ensures rc4_rounds(key, data, k).len() == data.len() decreases k
{ if k > 0 { lemma_rc4_rounds_len(key, data, k - 1); } }
pub proof fn lemma_alg2_len(pw: Seq<u8>, o: Seq<u8>, p: nat, id0: Seq<u8>, revision: int, em: bool, l: Option<usize>)
    requires 0 <= key_bytes(revision, l) <= 16
    ensures alg2(pw, o, p, id0, revision, em, l).len() == key_bytes(revision, l)
{
    let n = key_bytes(revision, l);
    axiom_md5_len(alg2_input(pw, o, p, id0, revision, em));
    lemma_rounds_len(md5(alg2_input(pw, o, p, id0, revision, em)), n, 50);
}
#[verifier::external_body]
pub fn resize_zero(v: &mut Vec<u8>, n: usize)
    ensures final(v)@.len() == n, forall|i: int| 0 <= i < n && i < old(v)@.len() ==> final(v)@[i] == old(v)@[i]
{ v.resize(n, 0) }
#[verifier::external_body]
pub fn fill_random_from(v: &mut Vec<u8>, from: usize)
    requires from <= old(v)@.len()
    ensures final(v)@.len() == old(v)@.len(), final(v)@.subrange(0, from as int) == old(v)@.subrange(0, from as int)
{ unimplemented!() }

// ---- Algorithms 6 and 7 (7.6.3.4): authenticating the user / owner password ---------------------------------------
#[verifier::external_body]
pub fn prefix_eq(a: &Vec<u8>, b: &Vec<u8>, n: usize) -> (r: bool)
    requires n <= a@.len(), n <= b@.len()
    ensures r == (a@.subrange(0, n as int) == b@.subrange(0, n as int))
{ a[..n] == b[..n] }
/// the owner key of Algorithm 3 steps a-d (shared by Algorithm 7 step a)
pub open spec fn owner_key(pw: Seq<u8>, revision: int, length_bits: Option<usize>) -> Seq<u8> {
    let h0 = md5(pad32(pw));
    let h = if revision >= 3 { md5_full_rounds(h0, 50) } else { h0 };
    h.subrange(0, key_bytes(revision, length_bits))
}
/// Algorithm 7 step b for revision >= 3: rounds i = 19, 18, .., k (k >= 1), round i uses key XOR i
pub open spec fn rc4_rounds_down(key: Seq<u8>, data: Seq<u8>, k: int) -> Seq<u8> decreases 20 - k {
    if k > 19 { data } else { rc4(xor_key(key, k as u8), rc4_rounds_down(key, data, k + 1)) }
}
pub open spec fn alg7_user(owner_pw: Seq<u8>, o: Seq<u8>, revision: int, length_bits: Option<usize>) -> Seq<u8> {
    let key = owner_key(owner_pw, revision, length_bits);
    rc4(key, if revision >= 3 { rc4_rounds_down(key, o, 1) } else { o })
}
pub open spec fn alg6_ok(u_computed_r2: Seq<u8>, u16_computed: Seq<u8>, u: Seq<u8>, revision: int) -> bool {
    if revision == 2 { u.len() >= 32 && u_computed_r2 == u.subrange(0, 32) } else { u.len() >= 16 && u16_computed == u.subrange(0, 16) }
}

pub open spec fn file_key(a: &PasswordAlgorithm, doc: &Document, pw: Seq<u8>) -> Seq<u8> {
    alg2(pw, a.owner_value@, ((a.permissions.flags | 0xFFFF_FFFF_FFFF_F0C0u64) as u32) as nat, doc.id0->Ok_0@, a.revision as int, a.encrypt_metadata, a.length)
}
/// Algorithm 6: the password is the user password iff the U value computed from it matches the stored one
pub open spec fn user_auth_ok(a: &PasswordAlgorithm, doc: &Document, pw: Seq<u8>) -> bool {
    2 <= a.revision <= 4 && doc.id0 is Ok && key_bytes(a.revision as int, a.length) <= 16
    && alg6_ok(alg4(file_key(a, doc, pw)), alg5_16(file_key(a, doc, pw), doc.id0->Ok_0@), a.user_value@, a.revision as int)
}
/// Algorithm 7: the password is the owner password iff the user password recovered from O authenticates
pub open spec fn owner_auth_ok(a: &PasswordAlgorithm, doc: &Document, pw: Seq<u8>) -> bool {
    key_bytes(a.revision as int, a.length) <= 16 && user_auth_ok(a, doc, alg7_user(pw, a.owner_value@, a.revision as int, a.length))
}

// Algorithm 7 undoes Algorithm 3: with the owner password, the padded user password comes back out of O.
pub proof fn lemma_rc4_twice(key: Seq<u8>, x: Seq<u8>) ensures rc4(key, rc4(key, x)) =~= x
{ lemma_rc4_involution(ksa(key, 256).0, x); }
pub proof fn lemma_rounds_undo(key: Seq<u8>, x: Seq<u8>, k: int)
    requires 0 <= k <= 19
    ensures rc4_rounds_down(key, rc4_rounds(key, x, 19), k + 1) =~= rc4_rounds(key, x, k)
    decreases 19 - k
{
    if k == 19 { }
    else {
        lemma_rounds_undo(key, x, k + 1);
        // down(k+1) = rc4(xor(k+1), down(k+2)) = rc4(xor(k+1), rounds(k+1)) = rc4(xor(k+1), rc4(xor(k+1), rounds(k))) = rounds(k)
        lemma_rc4_twice(xor_key(key, (k + 1) as u8), rc4_rounds(key, x, k));
    }
}
pub proof fn lemma_alg7_inverts_alg3(owner_pw: Seq<u8>, user_pw: Seq<u8>, revision: int, l: Option<usize>)
    requires owner_pw.len() > 0
    ensures alg7_user(owner_pw, alg3(Some(owner_pw), user_pw, revision, l), revision, l) =~= pad32(user_pw)
{
    let key = owner_key(owner_pw, revision, l);
    let c0 = rc4(key, pad32(user_pw));
    if revision >= 3 {
        lemma_rounds_undo(key, c0, 0);
        assert(rc4_rounds(key, c0, 0) == c0);
    }
    lemma_rc4_twice(key, pad32(user_pw));
}

pub fn is_empty_slice(a: &[u8]) -> (r: bool) ensures r == (a@.len() == 0) { a.len() == 0 }

// ---- Revisions 5 and 6: Algorithms 11 and 12 over an uninterpreted Algorithm 2.B -----------------------------------------
/// Algorithm 2.B (R6) / SHA-256 (R5) of password ++ salt ++ user key. ASSUMED: compute_hash computes it; its loop of SHA-2 and
/// AES rounds is not under contract here (c06-interop runs it against an independent implementation).
pub uninterp spec fn hash2b(revision: int, pw: Seq<u8>, salt: Seq<u8>, ukey: Option<Seq<u8>>) -> Seq<u8>;
impl PasswordAlgorithm {
    #[verifier::external_body]
    pub fn compute_hash(&self, password: &[u8], salt: &[u8], user_key: Option<&[u8]>) -> (r: core::result::Result<Vec<u8>, DecryptionError>)
        ensures r is Ok, r->Ok_0@ == hash2b(self.revision as int, password@, salt@, match user_key { Some(k) => Some(k@), None => None }), r->Ok_0@.len() == 32
    { unimplemented!() }
}
#[verifier::external_body]
pub fn subslice(v: &[u8], from: usize, n: usize) -> (r: &[u8])
    requires from + n <= v@.len()
    ensures r@ == v@.subrange(from as int, from + n)
{ &v[from..][..n] }
#[verifier::external_body]
pub fn slice_eq_vec(a: &Vec<u8>, b: &[u8]) -> (r: bool) ensures r == (a@ == b@) { a.as_slice() == b }
/// step a of Algorithms 2.A, 8, 9, 11, 12: the first 127 bytes of the UTF-8 password
pub open spec fn pw127(pw: Seq<u8>) -> Seq<u8> { if pw.len() > 127 { pw.subrange(0, 127) } else { pw } }
/// Algorithm 11: hash of password ++ user validation salt (U[32..40]) equals U[0..32]
pub open spec fn alg11_ok(a: &PasswordAlgorithm, pw: Seq<u8>) -> bool {
    hash2b(a.revision as int, pw127(pw), a.user_value@.subrange(32, 40), None) == a.user_value@.subrange(0, 32)
}
/// Algorithm 12: hash of password ++ owner validation salt (O[32..40]) ++ the 48-byte U equals O[0..32]
pub open spec fn alg12_ok(a: &PasswordAlgorithm, pw: Seq<u8>) -> bool {
    hash2b(a.revision as int, pw127(pw), a.owner_value@.subrange(32, 40), Some(a.user_value@)) == a.owner_value@.subrange(0, 32)
}

// ---- Algorithm 2.A: the file encryption key, revisions 5 and 6 --------------------------------------------------------
/// AES-256, CBC, no padding, initialisation vector of zero (ASSUMED: the aes / cbc crates compute it)
pub uninterp spec fn aes256_cbc0_dec(key: Seq<u8>, data: Seq<u8>) -> Seq<u8>;
#[verifier::external_body]
pub fn aes256_cbc_zero_iv_decrypt(key: &Vec<u8>, data: &[u8]) -> (r: Vec<u8>)
    requires key@.len() == 32
    ensures r@ == aes256_cbc0_dec(key@, data@)
{ unimplemented!() }
// ---- Algorithms 10 and 13: the Perms entry ---------------------------------------------------------------------------
/// AES-256 on one 16-byte block, ECB (ASSUMED: the aes / ecb crates compute it, and decryption undoes encryption)
pub uninterp spec fn aes256_ecb_enc(key: Seq<u8>, block: Seq<u8>) -> Seq<u8>;
pub uninterp spec fn aes256_ecb_dec(key: Seq<u8>, block: Seq<u8>) -> Seq<u8>;
#[verifier::external_body]
pub proof fn axiom_aes256_ecb(key: Seq<u8>, block: Seq<u8>)
    requires key.len() == 32, block.len() == 16
    ensures aes256_ecb_enc(key, block).len() == 16, aes256_ecb_dec(key, block).len() == 16,
            aes256_ecb_dec(key, aes256_ecb_enc(key, block)) == block
{ }
#[verifier::external_body]
pub fn aes256_ecb_encrypt_block(key: &[u8], block: &mut [u8; 16])
    requires key@.len() == 32      // `key.copy_from_slice(file_encryption_key)` panics on any other length
    ensures final(block)@ == aes256_ecb_enc(key@, old(block)@)
{ unimplemented!() }
#[verifier::external_body]
pub fn aes256_ecb_decrypt_block(key: &[u8], block: &mut [u8; 16])
    requires key@.len() == 32
    ensures final(block)@ == aes256_ecb_dec(key@, old(block)@)
{ unimplemented!() }
/// `Aes256EbcEnc::new(..).encrypt_block_mut(bytes.into())`: `[u8; 16]` is Copy, `.into()` makes a GenericArray by value, the
/// temporary is encrypted and dropped
#[verifier::external_body]
pub fn aes256_ecb_encrypt_copy(key: &[u8], block: &[u8; 16]) requires key@.len() == 32 { unimplemented!() }
#[verifier::external_body]
pub fn aes256_ecb_decrypt_copy(key: &[u8], block: &[u8; 16]) requires key@.len() == 32 { unimplemented!() }
#[verifier::external_body]
pub fn copy_all16(dst: &mut [u8; 16], src: &[u8])
    requires src@.len() == 16      // copy_from_slice panics on a length mismatch
    ensures final(dst)@ == src@
{ dst.copy_from_slice(src) }
#[verifier::external_body]
pub fn copy_into16(dst: &mut [u8; 16], from: usize, n: usize, src: &[u8])
    requires from + n <= 16, src@.len() == n
    ensures final(dst)@ == old(dst)@.subrange(0, from as int) + src@ + old(dst)@.subrange(from + n, 16)
{ dst[from..][..n].copy_from_slice(src) }
#[verifier::external_body]
pub fn fill_random16(dst: &mut [u8; 16], from: usize, n: usize)
    requires from + n <= 16
    ensures final(dst)@.subrange(0, from as int) == old(dst)@.subrange(0, from as int), final(dst)@.subrange(from + n, 16) == old(dst)@.subrange(from + n, 16)
{ unimplemented!() }
#[verifier::external_body]
pub fn slice_ne(a: &[u8], b: &[u8]) -> (r: bool) ensures r == (a@ != b@) { a != b }
/// the byte that records EncryptMetadata: ASCII T or F
pub open spec fn em_byte(em: bool) -> u8 { if em { 0x54u8 } else { 0x46u8 } }
/// Algorithm 10 steps a-d: bytes 0-11 of the block before encryption (bytes 12-15 are random)
pub open spec fn perms_head(p: nat, em: bool) -> Seq<u8> { le(p, 8) + seq![em_byte(em)] + seq![0x61u8, 0x64u8, 0x62u8] }
/// Algorithm 10: Perms is the AES-256-ECB encryption under the file key of a block that starts with perms_head
pub open spec fn alg10_ok(a: &PasswordAlgorithm, file_key: Seq<u8>, perms: Seq<u8>) -> bool {
    exists|block: Seq<u8>| #![auto] block.len() == 16 && block.subrange(0, 12) == perms_head(p_word(a), a.encrypt_metadata) && perms == aes256_ecb_enc(file_key, block)
}
pub open spec fn p_word(a: &PasswordAlgorithm) -> nat { (a.permissions.flags | 0xFFFF_FFFF_FFFF_F0C0u64) as nat }
/// Algorithm 13: decrypt Perms with the candidate file key; bytes 9-11 are "adb", bytes 0-3 the low-order 32 bits of P, byte 8 T / F
pub open spec fn perms_valid(a: &PasswordAlgorithm, file_key: Seq<u8>) -> bool {
    let b = aes256_ecb_dec(file_key, a.permission_encrypted@);
    b.subrange(9, 12) == seq![0x61u8, 0x64u8, 0x62u8] && b.subrange(0, 4) == le(p_word(a), 8).subrange(0, 4) && b[8] == em_byte(a.encrypt_metadata)
}
/// what Algorithm 10 writes, Algorithm 13 accepts (for the same file key, P and EncryptMetadata)
pub proof fn lemma_alg13_accepts_alg10(a: &PasswordAlgorithm, file_key: Seq<u8>)
    requires file_key.len() == 32, alg10_ok(a, file_key, a.permission_encrypted@)
    ensures perms_valid(a, file_key)
{
    let block = choose|block: Seq<u8>| #![auto] block.len() == 16 && block.subrange(0, 12) == perms_head(p_word(a), a.encrypt_metadata) && a.permission_encrypted@ == aes256_ecb_enc(file_key, block);
    axiom_aes256_ecb(file_key, block);
    let h = perms_head(p_word(a), a.encrypt_metadata);
    assert(h.len() == 12);
    assert(block.subrange(9, 12) =~= block.subrange(0, 12).subrange(9, 12));
    assert(h.subrange(9, 12) =~= seq![0x61u8, 0x64u8, 0x62u8]);
    assert(block.subrange(0, 4) =~= block.subrange(0, 12).subrange(0, 4));
    assert(h.subrange(0, 4) =~= le(p_word(a), 8).subrange(0, 4));
    assert(block[8] == block.subrange(0, 12)[8]);
    assert(h[8] == em_byte(a.encrypt_metadata));
}
// ---- Algorithms 8 and 9: U, UE, O, OE of revisions 5 and 6 ------------------------------------------------------------
/// AES-256, CBC, no padding, initialisation vector of zero, encryption (ASSUMED like its inverse above)
pub uninterp spec fn aes256_cbc0_enc(key: Seq<u8>, data: Seq<u8>) -> Seq<u8>;
#[verifier::external_body]
pub proof fn axiom_aes256_cbc0(key: Seq<u8>, data: Seq<u8>)
    requires key.len() == 32, data.len() % 16 == 0
    ensures aes256_cbc0_enc(key, data).len() == data.len(), aes256_cbc0_dec(key, data).len() == data.len(),
            aes256_cbc0_dec(key, aes256_cbc0_enc(key, data)) == data
{ }
#[verifier::external_body]
pub fn aes256_cbc_zero_iv_encrypt(key: &Vec<u8>, data: &[u8]) -> (r: Vec<u8>)
    requires key@.len() == 32,            // `key.copy_from_slice(&hash)` panics on any other length
             data@.len() % 16 == 0        // chunks_exact_mut(16) would leave a remainder as it is
    ensures r@ == aes256_cbc0_enc(key@, data@)
{ unimplemented!() }
#[verifier::external_body]
pub fn fill_random48_from(dst: &mut [u8; 48], from: usize)
    requires from <= 48
    ensures final(dst)@.subrange(0, from as int) == old(dst)@.subrange(0, from as int)
{ unimplemented!() }
#[verifier::external_body]
pub fn copy_into48(dst: &mut [u8; 48], from: usize, to: usize, src: &[u8])
    requires from <= to <= 48, src@.len() == to - from
    ensures final(dst)@ == old(dst)@.subrange(0, from as int) + src@ + old(dst)@.subrange(to as int, 48)
{ dst[from..to].copy_from_slice(src) }
/// Algorithm 8: U = hash(password ++ validation salt) ++ validation salt ++ key salt (the salts are any 16 bytes),
/// UE = the file key encrypted under hash(password ++ key salt)
pub open spec fn alg8_ok(rev: int, file_key: Seq<u8>, pw: Seq<u8>, u: Seq<u8>, ue: Seq<u8>) -> bool {
    u.len() == 48 && u.subrange(0, 32) == hash2b(rev, pw127(pw), u.subrange(32, 40), None)
    && ue == aes256_cbc0_enc(hash2b(rev, pw127(pw), u.subrange(40, 48), None), file_key)
}
/// Algorithm 9: the same for the owner password, every hash also over the 48-byte U
pub open spec fn alg9_ok(rev: int, file_key: Seq<u8>, pw: Seq<u8>, u: Seq<u8>, o: Seq<u8>, oe: Seq<u8>) -> bool {
    o.len() == 48 && o.subrange(0, 32) == hash2b(rev, pw127(pw), o.subrange(32, 40), Some(u))
    && oe == aes256_cbc0_enc(hash2b(rev, pw127(pw), o.subrange(40, 48), Some(u)), file_key)
}
/// ASSUMED with hash2b: Algorithm 2.B yields 32 bytes
#[verifier::external_body]
pub proof fn axiom_hash2b_len(rev: int, pw: Seq<u8>, salt: Seq<u8>, ukey: Option<Seq<u8>>) ensures hash2b(rev, pw, salt, ukey).len() == 32 { }

pub open spec fn alg2a(a: &PasswordAlgorithm, pw: Seq<u8>) -> Option<Seq<u8>> {
    let p = pw127(pw);
    let rev = a.revision as int;
    if alg12_ok(a, pw) {
        // owner password: the intermediate key hashes password ++ owner key salt (O[40..48]) ++ U and unwraps OE
        Some(aes256_cbc0_dec(hash2b(rev, p, a.owner_value@.subrange(40, 48), Some(a.user_value@)), a.owner_encrypted@))
    } else if alg11_ok(a, pw) {
        // user password: password ++ user key salt (U[40..48]) unwraps UE; the result must pass Algorithm 13
        let k = aes256_cbc0_dec(hash2b(rev, p, a.user_value@.subrange(40, 48), None), a.user_encrypted@);
        if perms_valid(a, k) { Some(k) } else { None }
    } else { None }
}

// ---- what Algorithms 8, 9 and 10 write, Algorithm 2.A opens (given that AES decryption undoes AES encryption) ------------
pub proof fn theorem_r6_owner_password_opens(a: &PasswordAlgorithm, file_key: Seq<u8>, owner_pw: Seq<u8>)
    requires file_key.len() == 32,
        alg9_ok(a.revision as int, file_key, owner_pw, a.user_value@, a.owner_value@, a.owner_encrypted@),
    ensures alg12_ok(a, owner_pw), alg2a(a, owner_pw) == Some(file_key),
{
    let k = hash2b(a.revision as int, pw127(owner_pw), a.owner_value@.subrange(40, 48), Some(a.user_value@));
    axiom_hash2b_len(a.revision as int, pw127(owner_pw), a.owner_value@.subrange(40, 48), Some(a.user_value@));
    axiom_aes256_cbc0(k, file_key);
}
pub proof fn theorem_r6_user_password_opens(a: &PasswordAlgorithm, file_key: Seq<u8>, user_pw: Seq<u8>)
    requires file_key.len() == 32,
        alg8_ok(a.revision as int, file_key, user_pw, a.user_value@, a.user_encrypted@),
        alg10_ok(a, file_key, a.permission_encrypted@),
        !alg12_ok(a, user_pw),      // a password that also passes as the owner password is handled by the owner branch
    ensures alg11_ok(a, user_pw), alg2a(a, user_pw) == Some(file_key),
{
    let k = hash2b(a.revision as int, pw127(user_pw), a.user_value@.subrange(40, 48), None);
    axiom_hash2b_len(a.revision as int, pw127(user_pw), a.user_value@.subrange(40, 48), None);
    axiom_aes256_cbc0(k, file_key);
    lemma_alg13_accepts_alg10(a, file_key);
}
