"""Lexically aware cutting of items out of Rust source files (no parsing beyond
brace matching; strings, chars, lifetimes, comments are skipped correctly).

Everything here is purely syntactic and never looks at a contract."""
import re


class LostAnchor(Exception):
    pass


def _skip_string(src, j):
    # src[j] == '"'
    j += 1
    n = len(src)
    while j < n and src[j] != '"':
        if src[j] == '\\':
            j += 1
        j += 1
    return j  # index of closing quote


_CHAR_RE = re.compile(r"'(\\x[0-9a-fA-F]{2}|\\u\{[0-9a-fA-F]+\}|\\.|[^\\'])'")
_RAW_RE = re.compile(r'b?r(#*)"')


def match_brace(src, i):
    """src[i] is an opening bracket ({, ( or [); return index of its partner."""
    open_c = src[i]
    close_c = {'{': '}', '(': ')', '[': ']'}[open_c]
    depth = 0
    j = i
    n = len(src)
    while j < n:
        c = src[j]
        if c == '"':
            j = _skip_string(src, j)
        elif c == 'r' or c == 'b':
            m = _RAW_RE.match(src, j)
            if m and (j == 0 or not (src[j - 1].isalnum() or src[j - 1] == '_')):
                end = '"' + m.group(1)
                k = src.index(end, m.end())
                j = k + len(end) - 1
        elif c == "'":
            m = _CHAR_RE.match(src, j)
            if m:
                j = m.end() - 1
        elif src.startswith('//', j):
            k = src.find('\n', j)
            j = (k if k >= 0 else n) - 1
        elif src.startswith('/*', j):
            j = src.index('*/', j) + 1
        elif c == open_c:
            depth += 1
        elif c == close_c:
            depth -= 1
            if depth == 0:
                return j
        j += 1
    raise LostAnchor('unbalanced bracket')


def line_of(src, idx):
    return src.count('\n', 0, idx) + 1


def _line_start(src, idx):
    k = src.rfind('\n', 0, idx)
    return k + 1


def cut_block(src, header_re, what):
    """Find the first match of header_re (multi-line regex), then the '{' that
    follows it, and return (start, end_exclusive) covering header..matching '}'."""
    m = re.search(header_re, src, re.M)
    if not m:
        raise LostAnchor('lost anchor: ' + what)
    i = src.index('{', m.end() - 1 if src[m.end() - 1] == '{' else m.end())
    # make sure no ';' between header end and '{' (would be a declaration)
    j = match_brace(src, i)
    return _line_start(src, m.start()), j + 1


def cut_impl(src, impl_header):
    """impl_header e.g. 'Writer', 'Document', 'Write for CountingWrite<W>' (matched
    after optional generics)."""
    if impl_header.startswith('re:'):
        pat = impl_header[3:]
    else:
        pat = r'^impl(?:<[^>{]*>)?\s+' + re.escape(impl_header).replace(r'\ ', r'\s+') + r'\s*(?:where[^{]*)?\{'
    results = []
    for m in re.finditer(pat, src, re.M):
        i = m.end() - 1
        j = match_brace(src, i)
        results.append((m.start(), j + 1))
    if not results:
        raise LostAnchor('lost anchor: impl ' + impl_header)
    return results


def cut_fn(src, name, impl=None, nth=0):
    """Return (text, first_line_number) of fn `name` (inside `impl X` if given).
    Attributes and doc comments immediately above are not included."""
    regions = cut_impl(src, impl) if impl else [(0, len(src))]
    pat = re.compile(r'^[ \t]*(?:pub(?:\([a-z]+\))?\s+)?(?:const\s+)?fn\s+' + re.escape(name) + r'\b', re.M)
    found = []
    for (a, b) in regions:
        for m in pat.finditer(src, a, b):
            # signature may contain '{' only in where clauses / const generics: not in this code base
            # the parameter list may hold `;` (array types such as `[f32; 3]`): look for a declaration's `;` only behind it
            po = src.find('(', m.end())
            after = match_brace(src, po) + 1 if po >= 0 else m.end()
            i = src.index('{', after)
            semi = src.find(';', after, i)
            if semi >= 0 and '(' not in src[semi:i]:
                continue
            j = match_brace(src, i)
            found.append((m.start(), j + 1))
    if len(found) <= nth:
        raise LostAnchor('lost anchor: fn %s%s' % ((impl + '::') if impl else '', name))
    a, b = found[nth]
    return src[a:b], line_of(src, a)


def cut_type(src, kind, name):
    """kind in {'enum','struct','type'}; returns (text, line)."""
    if kind == 'type':
        m = re.search(r'^[ \t]*(?:pub(?:\([a-z]+\))?\s+)?type\s+' + re.escape(name) + r'\b[^;]*;', src, re.M)
        if not m:
            raise LostAnchor('lost anchor: type ' + name)
        return src[m.start():m.end()], line_of(src, m.start())
    pat = re.compile(r'^[ \t]*(?:pub(?:\([a-z]+\))?\s+)?' + kind + r'\s+' + re.escape(name) + r'\b[^;{(]*([{;(])', re.M)
    m = pat.search(src)
    if not m:
        raise LostAnchor('lost anchor: %s %s' % (kind, name))
    # include attribute / doc lines directly above the item
    a = m.start()
    while a > 0:
        pl = src.rfind('\n', 0, a - 1) + 1
        prev = src[pl:a - 1].strip() if a - 1 >= pl else ''
        if prev.startswith('#[') or prev.startswith('///'):
            a = pl
        else:
            break
    if m.group(1) == '{':
        j = match_brace(src, m.end() - 1)
        return src[a:j + 1], line_of(src, m.start())
    if m.group(1) == '(':
        j = match_brace(src, m.end() - 1)
        k = src.index(';', j)
        return src[a:k + 1], line_of(src, m.start())
    return src[a:m.end()], line_of(src, m.start())


def cut_const(src, name):
    pat = re.compile(r'^[ \t]*(?:pub(?:\([a-z]+\))?\s+)?(?:const|static)\s+' + re.escape(name) + r'\s*:', re.M)
    m = pat.search(src)
    if not m:
        raise LostAnchor('lost anchor: const ' + name)
    # scan to terminating ';' at depth 0
    j = m.end()
    n = len(src)
    while j < n:
        c = src[j]
        if c in '([{':
            j = match_brace(src, j)
        elif c == '"':
            j = _skip_string(src, j)
        elif c == ';':
            return src[m.start():j + 1], line_of(src, m.start())
        j += 1
    raise LostAnchor('unterminated const ' + name)


def strip_comments(text):
    """Remove // line comments and /* */ comments outside literals, keep line structure
    (a line that held only a comment is dropped)."""
    out = []
    j = 0
    n = len(text)
    while j < n:
        c = text[j]
        if c == '"':
            k = _skip_string(text, j)
            out.append(text[j:k + 1])
            j = k + 1
            continue
        if c == "'":
            m = _CHAR_RE.match(text, j)
            if m:
                out.append(m.group(0))
                j = m.end()
                continue
        if text.startswith('//', j):
            k = text.find('\n', j)
            if k < 0:
                k = n
            j = k
            continue
        if text.startswith('/*', j):
            j = text.index('*/', j) + 2
            continue
        out.append(c)
        j += 1
    res = ''.join(out)
    lines = [l.rstrip() for l in res.split('\n')]
    return '\n'.join(l for l in lines if l.strip() != '')
