// global assumption of E1: 64-bit target
global size_of usize == 8;
