// ===== trusted shims for allocation, slices and small std helpers (R5) =====
pub struct IoError;
pub type Result<T> = core::result::Result<T, IoError>;

// C04: an allocation request must be bounded by a modest function of the input size.  `alloc_ok(n)` is what the
// caller's contract grants (typically for all n <= K*|input| + C); every allocating shim requires it.
pub uninterp spec fn alloc_ok(n: nat) -> bool;

#[verifier::external_body]
pub fn vec_try_reserve(v: &mut Vec<u8>, n: usize) -> (r: Result<()>)
    requires alloc_ok(n as nat)
    ensures final(v)@ == old(v)@, r is Ok   // assumption: an allocation within the granted bound succeeds
{ unimplemented!() }
#[verifier::external_body]
pub fn vec_resize(v: &mut Vec<u8>, n: usize, x: u8)
    requires alloc_ok(n as nat)
    ensures final(v)@.len() == n,
            forall|i: int| 0 <= i < n ==> final(v)@[i] == (if i < old(v)@.len() { old(v)@[i] } else { x })
{ unimplemented!() }
// <&[u8] as Read>::read_exact: fills the whole buffer from content[pos..] or fails (buffer contents then unspecified)
#[verifier::external_body]
pub fn read_exact_from(content: &[u8], pos: usize, buf: &mut Vec<u8>) -> (r: Result<()>)
    requires pos <= content@.len()
    ensures final(buf)@.len() == old(buf)@.len(),
            r is Ok <==> pos + old(buf)@.len() <= content@.len(),
            r is Ok ==> final(buf)@ == content@.subrange(pos as int, pos + old(buf)@.len()),
{ unimplemented!() }
#[verifier::external_body]
pub fn vec_write_all(out: &mut Vec<u8>, data: &[u8]) -> (r: Result<()>)
    ensures r is Ok, final(out)@ == old(out)@ + data@
{ unimplemented!() }
pub fn min_usize(a: usize, b: usize) -> (r: usize) ensures r == (if a <= b { a } else { b }) { if a <= b { a } else { b } }
pub fn abs_i16(v: i16) -> (r: i16) requires v > i16::MIN ensures r == (if v < 0 { -v } else { v as int }) { if v < 0 { -v } else { v } }
