// ===== abstract (spec-level) PDF objects and the IndexMap model of Dictionary (R8) =====
// =====================================================================================
// Abstract (spec-level) objects: the mathematical value a lopdf Object denotes.
// Layouts that involve values the code builds on the fly (the trailer after `set`) are stated over these.
// =====================================================================================
pub enum SObj {
    Null,
    Boolean(bool),
    Integer(i64),
    Real(f32),
    Name(Seq<u8>),
    String(Seq<u8>, StringFormat),
    Array(Seq<SObj>),
    Dictionary(Seq<(Seq<u8>, SObj)>),
    Stream(Seq<(Seq<u8>, SObj)>, Seq<u8>),
    Reference(ObjectId),
}
pub type SDict = Seq<(Seq<u8>, SObj)>;

pub open spec fn abs(o: Object) -> SObj decreases o {
    match o {
        Object::Null => SObj::Null,
        Object::Boolean(b) => SObj::Boolean(b),
        Object::Integer(v) => SObj::Integer(v),
        Object::Real(v) => SObj::Real(v),
        Object::Name(n) => SObj::Name(n@),
        Object::String(t, f) => SObj::String(t@, f),
        Object::Array(a) => SObj::Array(abs_items(a@, a@.len() as int)),
        Object::Dictionary(d) => SObj::Dictionary(abs_dict(d)),
        Object::Stream(st) => SObj::Stream(abs_dict(st.dict), st.content@),
        Object::Reference(id) => SObj::Reference(id),
    }
}
pub open spec fn abs_items(a: Seq<Object>, i: int) -> Seq<SObj> decreases a, i {
    if i <= 0 || i > a.len() { Seq::<SObj>::empty() } else { abs_items(a, i - 1).push(abs(a[i - 1])) }
}
pub open spec fn abs_entries(e: Seq<(Vec<u8>, Object)>, i: int) -> SDict decreases e, i {
    if i <= 0 || i > e.len() { Seq::<(Seq<u8>, SObj)>::empty() } else { abs_entries(e, i - 1).push((e[i - 1].0@, abs(e[i - 1].1))) }
}
pub open spec fn abs_dict(d: Dictionary) -> SDict decreases d { abs_entries(d.entries@, d.entries@.len() as int) }

pub proof fn lemma_abs_items_len(a: Seq<Object>, i: int)
    requires 0 <= i <= a.len() ensures abs_items(a, i).len() == i, forall|j: int| 0 <= j < i ==> abs_items(a, i)[j] == abs(a[j])
    decreases i
{ if i > 0 { lemma_abs_items_len(a, i - 1); } }
pub proof fn lemma_abs_entries_len(e: Seq<(Vec<u8>, Object)>, i: int)
    requires 0 <= i <= e.len() ensures abs_entries(e, i).len() == i, forall|j: int| 0 <= j < i ==> abs_entries(e, i)[j] == (e[j].0@, abs(e[j].1))
    decreases i
{ if i > 0 { lemma_abs_entries_len(e, i - 1); } }

// ---- IndexMap semantics of Dictionary::set / remove over the abstract dictionary (insertion order, swap_remove)
pub open spec fn sdict_find(d: SDict, k: Seq<u8>, i: int) -> int decreases d.len() - i {
    if i < 0 || i >= d.len() { -1 } else if d[i].0 == k { i } else { sdict_find(d, k, i + 1) }
}
pub open spec fn sdict_set(d: SDict, k: Seq<u8>, v: SObj) -> SDict {
    let i = sdict_find(d, k, 0);
    if i >= 0 { d.update(i, (k, v)) } else { d.push((k, v)) }
}
pub open spec fn sdict_remove(d: SDict, k: Seq<u8>) -> SDict {
    let i = sdict_find(d, k, 0);
    if i < 0 { d } else if i == d.len() - 1 { d.drop_last() } else { d.update(i, d.last()).drop_last() }
}
pub open spec fn sdict_get(d: SDict, k: Seq<u8>) -> Option<SObj> {
    let i = sdict_find(d, k, 0);
    if i >= 0 { Some(d[i].1) } else { None }
}
impl Dictionary {
    // R8/R11: `set<K: Into<Vec<u8>>, V: Into<Object>>` at the concrete types of the call sites
    #[verifier::external_body]
    pub fn set(&mut self, key: &[u8], value: Object)
        ensures abs_dict(*final(self)) == sdict_set(abs_dict(*old(self)), key@, abs(value))
    { unimplemented!() }
    #[verifier::external_body]
    pub fn remove(&mut self, key: &[u8]) -> (r: Option<Object>)
        ensures abs_dict(*final(self)) == sdict_remove(abs_dict(*old(self)), key@)
    { unimplemented!() }
}
// R5: derived Clone on Dictionary is the structural identity
#[verifier::external_body]
pub fn clone_dictionary(d: &Dictionary) -> (r: Dictionary) ensures r == *d { unimplemented!() }

impl Dictionary {
    // R8: IndexMap lookup through Dictionary::get (the Err payload, the key as text, is dropped: R7)
    #[verifier::external_body]
    pub fn get(&self, key: &[u8]) -> (r: core::result::Result<&Object, IoError>)
        ensures match sdict_get(abs_dict(*self), key@) { Some(v) => r is Ok && abs(*r->Ok_0) == v, None => r is Err }
    { unimplemented!() }
}
