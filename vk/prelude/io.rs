// ===== trusted model of std::io::Write (R4) =====
// A sink accepts `cap` more bytes and then fails (hard error or zero-length write);
// `cap` is a ghost value unknown to the code, so every contract proved against it holds
// for every failure offset, and for a healthy sink (cap larger than the output).
// Short writes and Interrupted retries live inside std's write_all loop (assumed).
pub struct IoError;
pub type Result<T> = core::result::Result<T, IoError>;

pub open spec fn take(s: Seq<u8>, n: nat) -> Seq<u8> { if n >= s.len() { s } else { s.subrange(0, n as int) } }
pub open spec fn minn(a: nat, b: nat) -> nat { if a <= b { a } else { b } }

pub trait SinkView: Sized {
    spec fn delivered(&self) -> Seq<u8>;   // bytes the underlying sink has received
    spec fn cap(&self) -> nat;             // bytes it will still accept
    spec fn pos(&self) -> nat;             // bytes handed to the sink through successful calls
    spec fn unbounded(&self) -> bool;      // a sink that can never fail (Vec<u8>); `cap` is then meaningless
}
pub trait Write: SinkView {
    fn write(&mut self, data: &[u8]) -> (r: Result<usize>)
        ensures wrote_some(*old(self), *final(self), r, data@);
    fn flush(&mut self) -> (r: Result<()>)
        ensures final(self).delivered() == old(self).delivered(), final(self).cap() == old(self).cap(), final(self).pos() == old(self).pos(),
                final(self).unbounded() == old(self).unbounded();
    fn write_all(&mut self, data: &[u8]) -> (r: Result<()>)
        ensures wrote(*old(self), *final(self), r is Ok, data@);
}

// the uniform writer contract (DESIGN 5, U-WLEX / C19)
#[verifier::opaque]
pub open spec fn wrote<W: SinkView>(s0: W, s1: W, ok: bool, enc: Seq<u8>) -> bool {
    if s0.unbounded() {
        s1.unbounded() && ok && s1.delivered() == s0.delivered() + enc && s1.pos() == s0.pos() + enc.len()
    } else {
        &&& !s1.unbounded()
        &&& s1.delivered() == s0.delivered() + take(enc, s0.cap())
        &&& s1.cap() == s0.cap() - minn(enc.len(), s0.cap())
        &&& (ok <==> enc.len() <= s0.cap())
        &&& (ok ==> s1.pos() == s0.pos() + enc.len())
    }
}

// a single `write` call: some prefix of the data is accepted (possibly none), or an error with nothing accepted
pub open spec fn wrote_some<W: SinkView>(s0: W, s1: W, r: Result<usize>, data: Seq<u8>) -> bool {
    match r {
        Ok(n) => n <= data.len() && (s0.unbounded() || n <= s0.cap()) && s1.delivered() == s0.delivered() + data.subrange(0, n as int)
                 && (s0.unbounded() || s1.cap() == s0.cap() - n) && s1.pos() == s0.pos() + n && s1.unbounded() == s0.unbounded(),
        Err(_) => s1.delivered() == s0.delivered() && s1.cap() == s0.cap() && s1.pos() == s0.pos() && s1.unbounded() == s0.unbounded(),
    }
}

#[verifier::external_body]
pub struct Sink { inner: Vec<u8> }
impl SinkView for Sink {
    uninterp spec fn delivered(&self) -> Seq<u8>;
    uninterp spec fn cap(&self) -> nat;
    uninterp spec fn pos(&self) -> nat;
    uninterp spec fn unbounded(&self) -> bool;
}
impl Write for Sink {
    #[verifier::external_body]
    fn write(&mut self, data: &[u8]) -> (r: Result<usize>)
    { unimplemented!() }
    #[verifier::external_body]
    fn flush(&mut self) -> (r: Result<()>)
    { unimplemented!() }
    #[verifier::external_body]
    fn write_all(&mut self, data: &[u8]) -> (r: Result<()>)
    { unimplemented!() }
}

pub proof fn lemma_wrote_nil<W: SinkView>(s0: W)
    ensures wrote(s0, s0, true, Seq::<u8>::empty())
{
    reveal(wrote);
    assert(take(Seq::<u8>::empty(), s0.cap()) =~= Seq::<u8>::empty());
    assert(s0.delivered() =~= s0.delivered() + Seq::<u8>::empty());
}

// one step of a sequential writer: `done` is out, `piece` was attempted, `rest` would follow
pub proof fn lemma_step<W: SinkView>(s0: W, s1: W, s2: W, done: Seq<u8>, piece: Seq<u8>, rest: Seq<u8>, ok: bool)
    requires wrote(s0, s1, true, done), wrote(s1, s2, ok, piece)
    ensures ok ==> wrote(s0, s2, true, done + piece),
            !ok ==> wrote(s0, s2, false, done + piece + rest)
{
    reveal(wrote);
    let c = s0.cap();
    if s0.unbounded() {
        assert(s2.delivered() =~= s0.delivered() + (done + piece));
    } else if ok {
        assert(take(done + piece, c) =~= done + piece);
        assert(s2.delivered() =~= s0.delivered() + take(done + piece, c));
    } else {
        assert(take(done + piece + rest, c) =~= done + take(piece, s1.cap()));
        assert(s2.delivered() =~= s0.delivered() + take(done + piece + rest, c));
    }
}

// same thing when the caller's target is stated as one sequence `full`
pub proof fn lemma_step_full<W: SinkView>(s0: W, s1: W, s2: W, done: Seq<u8>, piece: Seq<u8>, rest: Seq<u8>, ok: bool, full: Seq<u8>)
    requires wrote(s0, s1, true, done), wrote(s1, s2, ok, piece), full =~= done + piece + rest
    ensures ok ==> wrote(s0, s2, true, done + piece),
            !ok ==> wrote(s0, s2, false, full)
{
    lemma_step(s0, s1, s2, done, piece, rest, ok);
}

pub proof fn lemma_wrote_eq<W: SinkView>(s0: W, s1: W, ok: bool, a: Seq<u8>, b: Seq<u8>)
    requires wrote(s0, s1, ok, a), a =~= b
    ensures wrote(s0, s1, ok, b)
{ }

// what a caller learns from the contract
pub proof fn lemma_wrote_ok<W: SinkView>(s0: W, s1: W, enc: Seq<u8>)
    requires wrote(s0, s1, true, enc)
    ensures s1.delivered() == s0.delivered() + enc, s1.pos() == s0.pos() + enc.len(), s0.unbounded() || enc.len() <= s0.cap()
{ reveal(wrote); }

pub proof fn lemma_wrote_prefix<W: SinkView>(s0: W, s1: W, ok: bool, enc: Seq<u8>)
    requires wrote(s0, s1, ok, enc)
    ensures !s0.unbounded() ==> s1.delivered() == s0.delivered() + take(enc, s0.cap()) && (ok <==> enc.len() <= s0.cap()),
            s0.unbounded() ==> ok && s1.delivered() == s0.delivered() + enc,
            take(enc, s0.cap()).is_prefix_of(enc),
{ reveal(wrote); }

pub assume_specification<T: core::cmp::PartialEq> [<[T]>::contains] (s: &[T], x: &T) -> (r: bool)
    ensures r == s@.contains(*x);

// R17: a counter of bytes actually handed to a sink cannot exceed usize::MAX (fewer than 2^64 bytes are ever written)
#[verifier::external_body]
pub fn counter_add(a: usize, b: usize) -> (r: usize) ensures r == a + b { a + b }

// std: `impl Write for Vec<u8>` appends and never fails
impl SinkView for Vec<u8> {
    open spec fn delivered(&self) -> Seq<u8> { self@ }
    open spec fn cap(&self) -> nat { 0 }
    open spec fn pos(&self) -> nat { self@.len() }
    open spec fn unbounded(&self) -> bool { true }
}
impl Write for Vec<u8> {
    #[verifier::external_body]
    fn write(&mut self, data: &[u8]) -> (r: Result<usize>) { unimplemented!() }
    #[verifier::external_body]
    fn flush(&mut self) -> (r: Result<()>) { unimplemented!() }
    #[verifier::external_body]
    fn write_all(&mut self, data: &[u8]) -> (r: Result<()>) { unimplemented!() }
}

pub proof fn lemma_unbounded<W: SinkView>(s0: W, s1: W, ok: bool, enc: Seq<u8>)
    requires wrote(s0, s1, ok, enc), s0.unbounded()
    ensures ok, s1.unbounded(), s1.delivered() == s0.delivered() + enc
{ reveal(wrote); }
