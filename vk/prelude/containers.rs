// ===== trusted models of std containers and integer byte conversions (R5, R8) =====
// R8: std::collections::BTreeMap -- abstract behaviour only (a finite map; ordered iteration where a unit needs it)
#[verifier::external_body]
#[verifier::reject_recursive_types(K)]
#[verifier::reject_recursive_types(V)]
pub struct VBTreeMap<K, V> { m: std::collections::BTreeMap<K, V> }
impl<K, V> VBTreeMap<K, V> {
    pub uninterp spec fn view(&self) -> Map<K, V>;
    #[verifier::external_body]
    pub fn new() -> (r: Self) ensures r@ == Map::<K, V>::empty() { unimplemented!() }
    #[verifier::external_body]
    pub fn get(&self, k: &K) -> (r: Option<&V>)
        ensures match r { Some(v) => self@.contains_key(*k) && *v == self@[*k], None => !self@.contains_key(*k) }
    { unimplemented!() }
    #[verifier::external_body]
    pub fn insert(&mut self, k: K, v: V) -> (r: Option<V>)
        ensures final(self)@ == old(self)@.insert(k, v)
    { unimplemented!() }
}

// big-endian bytes (R5: to_be_bytes has a const-generic return type Verus cannot specify)
pub open spec fn be16(v: u16) -> Seq<u8> { seq![(v / 256) as u8, (v % 256) as u8] }
pub open spec fn be32(v: u32) -> Seq<u8> { seq![(v / 0x1000000) as u8, ((v / 0x10000) % 256) as u8, ((v / 256) % 256) as u8, (v % 256) as u8] }
#[verifier::external_body]
pub fn extend_be_u32(out: &mut Vec<u8>, v: u32) ensures final(out)@ == old(out)@ + be32(v) { out.extend(v.to_be_bytes()) }
#[verifier::external_body]
pub fn extend_be_u16(out: &mut Vec<u8>, v: u16) ensures final(out)@ == old(out)@ + be16(v) { out.extend(v.to_be_bytes()) }
#[verifier::external_body]
pub fn extend_vec(out: &mut Vec<u8>, v: Vec<u8>) ensures final(out)@ == old(out)@ + v@ { out.extend(v) }

impl<K, V> VBTreeMap<K, V> {
    // R8: `map.entry(k).or_insert(v)` -- insert only if the key is absent
    #[verifier::external_body]
    pub fn insert_if_absent(&mut self, k: K, v: V)
        ensures final(self)@ == (if old(self)@.contains_key(k) { old(self)@ } else { old(self)@.insert(k, v) })
    { unimplemented!() }
}
impl<V> VBTreeMap<u32, V> {
    // R8: consuming iteration of a BTreeMap<u32, _>: every entry exactly once, in increasing key order
    #[verifier::external_body]
    pub fn into_sorted_vec(self) -> (r: Vec<(u32, V)>)
        ensures
            forall|i: int, j: int| 0 <= i < j < r@.len() ==> r@[i].0 < r@[j].0,
            forall|i: int| 0 <= i < r@.len() ==> self@.contains_key(r@[i].0) && self@[r@[i].0] == r@[i].1,
            forall|k: u32| self@.contains_key(k) ==> exists|i: int| 0 <= i < r@.len() && r@[i].0 == k,
    { unimplemented!() }
}
