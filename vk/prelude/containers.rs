// ===== trusted models of std containers and integer byte conversions (R5, R8) =====
// R8: std::collections::BTreeMap -- abstract behaviour only (a finite map; ordered iteration where a unit needs it)
#[verifier::external_body]
#[verifier::reject_recursive_types(K)]
#[verifier::reject_recursive_types(V)]
pub struct VBTreeMap<K, V> { m: std::collections::BTreeMap<K, V> }
impl<K, V> VBTreeMap<K, V> {
    pub uninterp spec fn view(&self) -> Map<K, V>;
    #[verifier::external_body]
    pub fn new() -> (r: Self) ensures r@ == Map::<K, V>::empty() { unimplemented!() }
    #[verifier::external_body]
    pub fn get(&self, k: &K) -> (r: Option<&V>)
        ensures match r { Some(v) => self@.contains_key(*k) && *v == self@[*k], None => !self@.contains_key(*k) }
    { unimplemented!() }
    #[verifier::external_body]
    pub fn insert(&mut self, k: K, v: V) -> (r: Option<V>)
        ensures final(self)@ == old(self)@.insert(k, v)
    { unimplemented!() }
}

// big-endian bytes (R5: to_be_bytes has a const-generic return type Verus cannot specify)
pub open spec fn be16(v: u16) -> Seq<u8> { seq![(v / 256) as u8, (v % 256) as u8] }
pub open spec fn be32(v: u32) -> Seq<u8> { seq![(v / 0x1000000) as u8, ((v / 0x10000) % 256) as u8, ((v / 256) % 256) as u8, (v % 256) as u8] }
#[verifier::external_body]
pub fn extend_be_u32(out: &mut Vec<u8>, v: u32) ensures final(out)@ == old(out)@ + be32(v) { out.extend(v.to_be_bytes()) }
#[verifier::external_body]
pub fn extend_be_u16(out: &mut Vec<u8>, v: u16) ensures final(out)@ == old(out)@ + be16(v) { out.extend(v.to_be_bytes()) }
#[verifier::external_body]
pub fn extend_vec(out: &mut Vec<u8>, v: Vec<u8>) ensures final(out)@ == old(out)@ + v@ { out.extend(v) }
