// ===== trusted models of crate-external containers and formatting (R5, R8) =====
// R8: `Dictionary(IndexMap<Vec<u8>, Object>)` is modelled by its insertion-ordered entry list.
pub struct Dictionary { pub entries: Vec<(Vec<u8>, Object)> }
pub struct Writer;

pub open spec fn hex_upper(n: u8) -> u8 { if n < 10 { (0x30 + n) as u8 } else { (0x41 + (n - 10)) as u8 } }
pub open spec fn hex2(b: u8) -> Seq<u8> { seq![hex_upper(b / 16), hex_upper(b % 16)] }

// canonical decimal spelling (what itoa and `{}` print for integers)
pub open spec fn dec_nat(n: nat) -> Seq<u8> decreases n {
    if n < 10 { seq![(0x30 + n) as u8] } else { dec_nat(n / 10) + seq![(0x30 + n % 10) as u8] }
}
pub open spec fn dec_int(v: int) -> Seq<u8> {
    if v < 0 { seq![0x2du8] + dec_nat((-v) as nat) } else { dec_nat(v as nat) }
}
// `{}` of an f32 (std float formatting): left uninterpreted; the complete 2^32 sweep in E3 decides what it needs
pub uninterp spec fn fmt_f32(v: f32) -> Seq<u8>;

// R5: itoa::Buffer
#[verifier::external_body]
pub struct ItoaBuffer { b: [u8; 40] }
impl ItoaBuffer {
    #[verifier::external_body]
    pub fn new() -> ItoaBuffer { unimplemented!() }
    #[verifier::external_body]
    pub fn format(&mut self, v: i64) -> (r: Vec<u8>) ensures r@ == dec_int(v as int) { unimplemented!() }
}
