#!/bin/bash
# dev helper: vk/try.sh <unit> [fn1,fn2]  -- generate and run verus, print rendered errors
cd /verif
if [ -n "$2" ]; then python3 vk/build.py gen "$1" --only "$2" || exit 2; else python3 vk/build.py gen "$1" || exit 2; fi
cd .cache/gen && verus vk_$1.rs --multiple-errors 10 --triggers-mode silent --rlimit ${RLIMIT:-60} --time 2>&1 | grep -v "^warning\|^  *=\|snake case" | grep -v "^ *[a-z-]*time\|^ *total\|^verus-build\|^Verus\|^  Version\|^  Profile\|^  Platform\|^  Toolchain\|verify-crate-time-breakdown\|^$" | head -${LINES_MAX:-120}
