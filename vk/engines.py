"""Engines behind bin/check: E1 (Verus units), E2 (Kani harnesses), E3 (bounded harness), E4 (replay)."""
import os, sys, json, re, time, subprocess, hashlib

HERE = os.path.dirname(os.path.abspath(__file__))
VERIF = os.path.dirname(HERE)
sys.path.insert(0, HERE)
import build  # noqa: E402

REPO = build.REPO
CACHE = build.CACHE
HARNESS_DIR = os.path.join(VERIF, 'harness')
ENV = dict(os.environ, CARGO_NET_OFFLINE='true')


def sha(s):
    return hashlib.sha256(s if isinstance(s, bytes) else str(s).encode()).hexdigest()[:16]


# ------------------------------------------------------------------ E1
def run_verus_unit(pid, step, tier):
    name = step['unit']
    r = build.check_unit(name, canary=True, keep=False)
    out = dict(name='verus:' + name, kind='verus', inconclusive=list(r.get('inconclusive', [])), failures=[], wall=r.get('wall', 0),
               obligations=0, discharged=0, functions=[], solver=[], samples=[], trusted=[], assumptions=[])
    if 'functions' not in r or not r.get('functions'):
        return out
    trusted, forbidden = build.scan_trusted(name)
    if forbidden:
        out['inconclusive'].append('forbidden assume/admit outside an AXIOM: ' + '; '.join(forbidden))
    out['trusted'] = ['[%s] %s' % (name, t) for t in trusted]
    failed_fns = {}
    for f in r.get('failed', []):
        failed_fns.setdefault(f.get('fn'), []).append(f)
    mine = [f for f in r['functions'] if pid in f['props']]
    others = [f for f in r['functions'] if pid not in f['props']]
    # obligations: every Verus-verified item of the unit (spec fns, lemmas, literals, functions) counts once;
    # items belonging to functions not tagged for this property are not counted.
    tv = r.get('total_verified', 0)
    te = r.get('total_errors', 0)
    n_other_ok = len([f for f in others if f['key'] not in failed_fns])
    n_mine_failed = len([f for f in mine if f['key'] in failed_fns])
    n_other_failed = len([f for f in others if f['key'] in failed_fns])
    lemma_failed = [k for k in failed_fns if k not in [f['key'] for f in r['functions']]]
    out['obligations'] = max(0, tv - n_other_ok) + n_mine_failed + len(lemma_failed)
    out['discharged'] = max(0, tv - n_other_ok)
    for f in mine:
        t = r.get('times', {}).get(f['key'], {})
        out['functions'].append(dict(function=f['key'], repo_path='%s:%d' % (f['file'], f['line']), source_sha=f['sha'], rules=f['rules'],
                                     variant=f['variant'], overlay_in_sync=f['overlay_in_sync'], code_lines=f['code_lines'], ghost_lines=f['ghost_lines'],
                                     verified=f['key'] not in failed_fns, unit=name))
        out['solver'].append(dict(function=f['key'], backend='verus/z3', ms=t.get('ms'), rlimit=t.get('rlimit')))
    out['samples'] = ['%s/%s verified against its contract' % (name, f['key']) for f in mine if f['key'] not in failed_fns][:3]
    out['canary'] = r.get('canary')
    if r.get('drift'):
        out['assumptions'].append('overlay drift (source differs from the text the overlay was written for): ' + ', '.join(r['drift']))
    for fn, recs in failed_fns.items():
        meta = next((f for f in r['functions'] if f['key'] == fn), None)
        if meta is not None and pid not in meta['props']:
            continue
        rec = recs[0]
        ob = '%s/%s/%s' % (name, (fn or 'lemma').replace('::', '.'), re.sub(r'[^a-z]+', '-', rec['msg'].lower()).strip('-')[:40])
        out['failures'].append(dict(obligation=ob, detail='%s at generated line %d: %s' % (rec['msg'], rec['gen_line'], rec['text']),
                                    repo_location=('%s:%d' % (meta['file'], meta['line'])) if meta else None,
                                    verifier_output=[x['rendered'] for x in recs][:4], input=None, fn=fn, unit=name,
                                    search=step.get('search', {}).get(fn)))
    return out


# ------------------------------------------------------------------ E3 (bounded harness) -- built once per run
_built = {}


def harness_bin(features_default=True, profile='release'):
    """profile 'dev' = the same harness and library built without optimisation (largest stack frames)."""
    key = ('d' if features_default else 'n') + profile
    if key in _built:
        return _built[key]
    tdir = os.path.join(CACHE, 'harness-target' + ('' if features_default else '-nodefault') + ('' if profile == 'release' else '-' + profile))
    cmd = ['cargo', 'build', '--offline', '--manifest-path', os.path.join(HARNESS_DIR, 'Cargo.toml'), '--target-dir', tdir]
    if profile == 'release':
        cmd.insert(2, '--release')
    if not features_default:
        cmd += ['--no-default-features']
    flags = '--cfg lopdf_verif -C overflow-checks=on -C debug-assertions=on' if profile == 'release' else '--cfg lopdf_verif'
    env = dict(ENV, RUSTFLAGS=flags, LOPDF_PATH=REPO)
    p = subprocess.run(cmd, capture_output=True, text=True, env=env)
    if p.returncode != 0:
        _built[key] = (None, p.stderr[-3000:])
    else:
        _built[key] = (os.path.join(tdir, 'release' if profile == 'release' else 'debug', 'lopdf-verif-harness'), '')
    return _built[key]


def run_e3(pid, step, tier, seed):
    t0 = time.time()
    out = dict(name='e3:' + step['cmd'] + (':no-default-features' if step.get('no_default_features') else '') + (':' + step['profile'] + '-profile' if step.get('profile') else ''), kind='e3', bounded=True, inconclusive=[], failures=[], evaluations=0, distinct_nontrivial=0,
               exhaustive=False, bound=step.get('bound', ''), samples=[], assumptions=[], trusted=[])
    exe, err = harness_bin(not step.get('no_default_features'), step.get('profile', 'release'))
    if not exe:
        out['inconclusive'].append('harness build failed: ' + err[-1500:])
        out['wall'] = time.time() - t0
        return out
    args = [exe, step['cmd'], '--tier', tier, '--seed', str(seed)] + step.get('args', [])
    env = dict(ENV, RAYON_NUM_THREADS=os.environ.get('RAYON_NUM_THREADS', '16'))
    if step.get('needs_seq_bin'):
        # the same harness built with --no-default-features (lopdf without rayon): the sequential reference
        seq, err = harness_bin(False)
        if not seq:
            out['inconclusive'].append('sequential (no-default-features) harness build failed: ' + err[-1500:])
            out['wall'] = time.time() - t0
            return out
        env['LOPDF_VERIF_SEQ_BIN'] = seq
    try:
        p = subprocess.run(args, capture_output=True, text=True, timeout=step.get('timeout', 1500), env=env)
    except subprocess.TimeoutExpired:
        out['inconclusive'].append('bounded unit timed out')
        out['wall'] = time.time() - t0
        return out
    js = None
    for line in p.stdout.split('\n'):
        if line.startswith('{') and '"e3"' in line:
            try:
                js = json.loads(line)
            except Exception:
                pass
    if js is None:
        out['inconclusive'].append('harness produced no report (rc=%d): %s' % (p.returncode, (p.stderr or p.stdout)[-1200:]))
        out['wall'] = time.time() - t0
        return out
    out.update(evaluations=js.get('evaluations', 0), distinct_nontrivial=js.get('nontrivial', 0), exhaustive=js.get('exhaustive', False),
               bound=js.get('bound', out['bound']), samples=js.get('samples', [])[:3])
    if step.get('complete') or (step.get('complete_in_thorough') and tier == 'thorough' and js.get('exhaustive')):
        # complete enumeration of a finite domain on the real code is a proof, not a bounded stand-in
        out['bounded'] = False
        out['obligations'] = js.get('obligations', 1)
        out['discharged'] = out['obligations'] - len(set(f['obligation'] for f in js.get('failures', [])))
        out['solver'] = [dict(function=step['cmd'], backend='complete native enumeration', ms=int((time.time() - t0) * 1000), evaluations=js.get('evaluations', 0))]
    for f in js.get('failures', []):
        inp = f.get('input')
        out['failures'].append(dict(obligation='e3/%s/%s' % (step['cmd'], f['obligation']), detail=f.get('detail'), input=inp,
                                    input_sha=sha(json.dumps(inp, sort_keys=True)), observed=f.get('observed'), replay=dict(cmd=step['cmd'], case=f.get('case'))))
    out['wall'] = time.time() - t0
    return out


# ------------------------------------------------------------------ E2 (Kani)
def run_kani(pid, step, tier):
    """One Kani harness on the real crate (hook H0b includes /verif/kani/harnesses.rs under cfg(kani)).  On failure the
    counterexample Kani prints (concrete playback) becomes the failing input; the replay runs the same harness body
    natively on those values."""
    t0 = time.time()
    h = step['harness']
    out = dict(name='kani:' + h, kind='kani', inconclusive=[], failures=[], obligations=1, discharged=0, samples=[], trusted=[],
               assumptions=['Kani/CBMC: termination not checked; bit-precise machine arithmetic; loops unwound to the stated constant bound with unwinding assertions'], solver=[])
    tdir = os.path.join(CACHE, 'kani-target')
    cmd = ['cargo', 'kani', '--manifest-path', os.path.join(REPO, 'Cargo.toml'), '--target-dir', tdir, '-Z', 'concrete-playback', '--concrete-playback=print',
           '--harness', h] + step.get('args', [])
    try:
        p = subprocess.run(cmd, capture_output=True, text=True, timeout=step.get('timeout', 1800), env=ENV, cwd=REPO)
    except subprocess.TimeoutExpired:
        out['inconclusive'].append('kani timed out')
        out['wall'] = time.time() - t0
        return out
    txt = p.stdout + p.stderr
    ok = 'VERIFICATION:- SUCCESSFUL' in txt
    failed = 'VERIFICATION:- FAILED' in txt
    m = re.search(r'Verification Time: ([0-9.]+)s', txt)
    nchecks = re.search(r'\*\* (\d+) of (\d+) failed', txt)
    out['solver'].append(dict(function=h, backend='kani 0.68 / cbmc', ms=int(float(m.group(1)) * 1000) if m else None, checks=int(nchecks.group(2)) if nchecks else None))
    if ok and nchecks and int(nchecks.group(2)) > 0:
        out['discharged'] = 1
        out['samples'] = ['kani harness %s: %s checks, VERIFICATION SUCCESSFUL' % (h, nchecks.group(2))]
    elif failed:
        fails = re.findall(r'Check \d+: (\S+)\s*\n\s*- Status: FAILURE\s*\n\s*- Description: "([^"]*)"', txt)
        vals = None
        pb = re.search(r'let concrete_vals: Vec<Vec<u8>> = vec!\[(.*?)\];\s*kani::concrete_playback_run', txt, re.S)
        if pb:
            vals = [[int(x) for x in re.findall(r'\d+', v)] for v in re.findall(r'vec!\[([^\]]*)\]', pb.group(1))]
        inp = dict(kani_harness=h, values=vals) if vals is not None else None
        out['failures'].append(dict(obligation='kani/%s' % h, detail='; '.join('%s: %s' % f for f in fails[:5]) or 'verification failed',
                                    verifier_output=[txt[-3000:]], input=inp, input_sha=sha(json.dumps(inp, sort_keys=True)) if inp else None,
                                    observed='counterexample (Kani concrete playback): %s' % vals if vals is not None else None))
    elif ok:
        out['inconclusive'].append('kani reported success over zero checks (vacuous harness)')
    else:
        out['inconclusive'].append('kani gave no verdict: ' + txt[-800:])
    out['wall'] = time.time() - t0
    return out


def run_step(pid, step, tier, seed):
    try:
        if step['kind'] == 'verus':
            return run_verus_unit(pid, step, tier)
        if step['kind'] == 'e3':
            return run_e3(pid, step, tier, seed)
        if step['kind'] == 'kani':
            return run_kani(pid, step, tier)
    except Exception as e:  # machinery defect: never an alarm
        import traceback
        return dict(name=str(step), kind=step.get('kind'), inconclusive=['machinery error: %s\n%s' % (e, traceback.format_exc()[-1500:])], failures=[])
    return dict(name=str(step), kind='?', inconclusive=['unknown step kind'], failures=[])


def replay(pid, path):
    rec = json.load(open(path))
    print('replay of %s: obligation %s' % (pid, rec.get('obligation')))
    if rec.get('failing_input') is not None and (str(rec.get('step', '')).startswith('e3:') or str(rec.get('step', '')).startswith('kani:')):
        exe, err = harness_bin(True)
        if not exe:
            print('harness build failed', err, file=sys.stderr)
            return 2
        p = subprocess.run([exe, 'replay', path], capture_output=True, text=True, env=ENV)
        print(p.stdout[-3000:])
        return 1 if p.returncode == 1 else (0 if p.returncode == 0 else 2)
    # a Verus obligation: re-run the unit on the current tree
    m = re.match(r'([^/]+)/', rec.get('obligation', ''))
    if m and rec.get('engine') == 'verus':
        r = build.check_unit(m.group(1), canary=False)
        bad = ['%s: %s' % (f.get('fn'), f.get('msg')) for f in r.get('failed', [])]
        print('verus unit %s: %d failed obligations %s' % (m.group(1), len(bad), bad[:5]))
        return 1 if bad else (2 if r.get('inconclusive') else 0)
    print(json.dumps(rec, indent=1)[:3000])
    return 2
