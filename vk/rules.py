"""Syntactic rewrite rules R1..R17 (DESIGN.md section 3).  Each rule maps function
text to function text and reports what it did; none looks at a contract."""
import re
import hashlib
from rustcut import match_brace, strip_comments, LostAnchor, _CHAR_RE


class Unsupported(Exception):
    pass


class Ctx:
    """Per-function rewrite context: collects applied rules and fmt shims used."""

    def __init__(self):
        self.applied = []
        self.fmt = {}      # hash -> (literal, macro)
        self.lits = {}     # lit fn name -> bytes
        self.loops = 0
        self.q = 0

    def note(self, rule, n=1):
        if n:
            self.applied.append('%s x%d' % (rule, n))


# ---------------------------------------------------------------- R12
def r12_attrs(text, ctx):
    t = strip_comments(text)
    t2 = re.sub(r'^[ \t]*#\[(?:inline(?:\([a-z]+\))?|allow\([^\]]*\)|must_use)\]\s*\n', '', t, flags=re.M)
    # visibility is irrelevant inside the generated module
    t3 = re.sub(r'^([ \t]*)pub(?:\([a-z]+\))?\s+(fn|const fn)\b', r'\1\2', t2, flags=re.M)
    ctx.note('R12')
    return t3


# ---------------------------------------------------------------- R1
def _bytes_of_literal(body):
    return eval('b"' + body + '"')


def lit_name(b):
    if len(b) == 0:
        return 'lit_empty'
    if len(b) <= 12:
        return 'lit_' + b.hex()
    return 'lit_h' + hashlib.sha1(b).hexdigest()[:10]


def lit_expr(b, ctx):
    nm = lit_name(b)
    ctx.lits[nm] = bytes(b)
    return nm + '()'


def lit_definition(nm, b):
    """verified (not trusted) definition of a byte-string literal as an exec fn with a seq! contract"""
    if len(b) == 0:
        return ("fn lit_empty() -> (r: &'static [u8]) ensures r@ == Seq::<u8>::empty()\n"
                "{ let r: &'static [u8] = &[0u8; 0]; assert(r@ =~= Seq::<u8>::empty()); r }")
    el = ', '.join('0x%02xu8' % x for x in b)
    return ("fn %s() -> (r: &'static [u8]) ensures r@ == seq![%s]\n"
            "{ let r: &'static [u8] = &[%s]; assert(r@ =~= seq![%s]); r }" % (nm, el, el, el))


def r1_bytes(text, ctx):
    n = [0]

    def conv(m):
        n[0] += 1
        return lit_expr(_bytes_of_literal(m.group(1)), ctx)

    t = re.sub(r'\bb"((?:[^"\\]|\\.)*)"', conv, text)
    ctx.note('R1', n[0])
    return t


# ---------------------------------------------------------------- R6
def r6_logging(text, ctx):
    n = [0]
    out = []
    j = 0
    pat = re.compile(r'(?:log::)?(?:warn|error|debug|info|trace)!\s*\(')
    while True:
        m = pat.search(text, j)
        if not m:
            out.append(text[j:])
            break
        # must be at statement start
        ls = text.rfind('\n', 0, m.start()) + 1
        if text[ls:m.start()].strip() != '':
            out.append(text[j:m.end()])
            j = m.end()
            continue
        e = match_brace(text, m.end() - 1)
        k = e + 1
        while k < len(text) and text[k] in ' \t':
            k += 1
        if k < len(text) and text[k] == ';':
            k += 1
        # drop the whole statement including its line break
        if k < len(text) and text[k] == '\n':
            k += 1
        out.append(text[j:ls])
        j = k
        n[0] += 1
    ctx.note('R6', n[0])
    return ''.join(out)


# ---------------------------------------------------------------- R3
def _split_args(s):
    """split top-level commas"""
    parts, depth, cur, j = [], 0, [], 0
    while j < len(s):
        c = s[j]
        if c == '"':
            k = j + 1
            while s[k] != '"':
                if s[k] == '\\':
                    k += 1
                k += 1
            cur.append(s[j:k + 1])
            j = k + 1
            continue
        if c in '([{':
            depth += 1
        elif c in ')]}':
            depth -= 1
        if c == ',' and depth == 0:
            parts.append(''.join(cur))
            cur = []
        else:
            cur.append(c)
        j += 1
    if ''.join(cur).strip():
        parts.append(''.join(cur))
    return [p.strip() for p in parts]


def _str_to_bytes_expr(lit_body, ctx):
    b = eval('"' + lit_body + '"').encode('utf-8')
    return lit_expr(b, ctx)


def fmt_hash(lit):
    return hashlib.sha1(lit.encode()).hexdigest()[:8]


def r3_fmt(text, ctx):
    n = [0]
    out = []
    j = 0
    pat = re.compile(r'\b(write|writeln)!\s*\(')
    while True:
        m = pat.search(text, j)
        if not m:
            out.append(text[j:])
            break
        e = match_brace(text, m.end() - 1)
        args = _split_args(text[m.end():e])
        sink = args[0]
        if len(args) == 1:
            lit = ''
            rest = []
        else:
            lm = re.fullmatch(r'"((?:[^"\\]|\\.)*)"', args[1], re.S)
            if not lm:
                raise Unsupported('write! with non-literal format')
            lit = lm.group(1)
            rest = args[2:]
        if m.group(1) == 'writeln':
            lit += '\\n'
        h = fmt_hash(lit)
        ctx.fmt[h] = lit
        ctx.fmt_nargs = getattr(ctx, 'fmt_nargs', {})
        ctx.fmt_nargs[h] = len(rest)
        # string literals among the arguments become byte arrays
        rest2 = [re.sub(r'"((?:[^"\\]|\\.)*)"', lambda mm: _str_to_bytes_expr(mm.group(1), ctx), a) for a in rest]
        out.append(text[j:m.start()])
        out.append('fmt_%s(%s)' % (h, ', '.join([sink] + rest2)))
        j = e + 1
        n[0] += 1
    ctx.note('R3', n[0])
    return ''.join(out)


# ---------------------------------------------------------------- R2
_FOR_RE = re.compile(r'^([ \t]*)for\s+(.+?)\s+in\s+(.+?)\s*\{[ \t]*$', re.M)


def r2_loops(text, ctx, loop_kinds=None):
    """loop_kinds: {ordinal: dict(kind='pairs', seq='d.entries') ...} overrides."""
    loop_kinds = loop_kinds or {}
    n = [0]
    k = [ctx.loops]

    def conv(m):
        ind, pat, seq = m.group(1), m.group(2).strip(), m.group(3).strip()
        k[0] += 1
        ordn = k[0]
        ov = loop_kinds.get(ordn, {})
        if ov.get('kind') == 'keep':
            return '%sfor %s in %s\n%s{' % (ind, pat, seq, ind)
        # range loops stay `for` loops (Verus supports them natively); only a ghost slot is made
        if re.search(r'\.\.', seq) and not seq.startswith('&') and 'kind' not in ov:
            n[0] += 1
            return '%sfor %s in %s\n%s{' % (ind, pat, seq, ind)
        idx = '__k%d' % ordn
        enum = False
        seq2 = seq
        if seq2.endswith('.iter().enumerate()'):
            enum = True
            seq2 = seq2[:-len('.iter().enumerate()')]
        elif seq2.endswith('.iter()'):
            seq2 = seq2[:-len('.iter()')]
        if seq2.startswith('&mut '):
            raise Unsupported('for over &mut sequence')
        if seq2.startswith('&'):
            seq2 = seq2[1:].strip()
        if 'seq' in ov:
            seq2 = ov['seq']
        binds = []
        if ov.get('kind') == 'pairs':
            mm = re.fullmatch(r'\(\s*(\w+)\s*,\s*(\w+)\s*\)', pat)
            if not mm:
                raise Unsupported('pairs loop pattern ' + pat)
            binds = ['let %s = &%s[%s].0;' % (mm.group(1), seq2, idx), 'let %s = &%s[%s].1;' % (mm.group(2), seq2, idx)]
        elif ov.get('kind') == 'index':
            # for PAT in <iter_mut / zip shape>: only the index is bound; the body's derefs are rewritten by explicit substitutions of the unit
            binds = ['let %s = %s;' % (ov['index'], idx)] if ov.get('index') else []
            n[0] += 1
            start = ov.get('start', '0')
            return ('%slet mut %s: usize = %s;\n%swhile %s < %s\n%s{\n' % (ind, idx, start, ind, idx, ov['limit'], ind)
                    + ''.join('%s    %s\n' % (ind, b) for b in binds)
                    + '%s    %s += 1;' % (ind, idx))
        elif ov.get('kind') == 'pairs_owned':
            # for (k, v) in <map consumed by value>: the model hands out its key-ordered entry list once
            mm = re.fullmatch(r'\(\s*(\w+)\s*,\s*(\w+)\s*\)', pat)
            if not mm:
                raise Unsupported('pairs_owned loop pattern ' + pat)
            n[0] += 1
            return ('%slet %s = xref.entries.into_sorted_vec();\n%slet mut %s: usize = 0;\n%swhile %s < %s.len()\n%s{\n' % (ind, seq2, ind, idx, ind, idx, seq2, ind)
                    + '%s    let %s = %s[%s].0;\n%s    let %s = clone_entry(&%s[%s].1);\n' % (ind, mm.group(1), seq2, idx, ind, mm.group(2), seq2, idx)
                    + '%s    %s += 1;' % (ind, idx))
        elif ov.get('kind') == 'idpairs':
            # for (&(a, b), v) in &map  over a key-ordered entry list  [((a, b), v)]
            mm = re.fullmatch(r'\(\s*&\(\s*(\w+)\s*,\s*(\w+)\s*\)\s*,\s*(\w+)\s*\)', pat)
            if not mm:
                raise Unsupported('idpairs loop pattern ' + pat)
            binds = ['let %s = %s[%s].0.0;' % (mm.group(1), seq2, idx), 'let %s = %s[%s].0.1;' % (mm.group(2), seq2, idx),
                     'let %s = &%s[%s].1;' % (mm.group(3), seq2, idx)]
        elif enum:
            mm = re.fullmatch(r'\(\s*(\w+)\s*,\s*(&?)(\w+)\s*\)', pat)
            if not mm:
                raise Unsupported('enumerate loop pattern ' + pat)
            binds = ['let %s = %s;' % (mm.group(1), idx),
                     'let %s = %s%s[%s];' % (mm.group(3), '' if mm.group(2) else '&', seq2, idx)]
        else:
            mm = re.fullmatch(r'(&?)(\w+)', pat)
            if not mm:
                raise Unsupported('for loop pattern ' + pat)
            binds = ['let %s = %s%s[%s];' % (mm.group(2), '' if mm.group(1) else '&', seq2, idx)]
        n[0] += 1
        return ('%slet mut %s: usize = 0;\n%swhile %s < %s.len()\n%s{\n' % (ind, idx, ind, idx, seq2, ind)
                + ''.join('%s    %s\n' % (ind, b) for b in binds)
                + '%s    %s += 1;' % (ind, idx))

    t = _FOR_RE.sub(conv, text)
    ctx.loops = k[0]
    ctx.note('R2', n[0])
    return t


def r2b_while_slots(text, ctx):
    """`while COND {` / `loop {` -> header and brace on separate lines (ghost slot)."""
    t = re.sub(r'^([ \t]*)(while\s+.+?|loop)\s*\{[ \t]*$', lambda m: '%s%s\n%s{' % (m.group(1), m.group(2), m.group(1)), text, flags=re.M)
    return t


# ---------------------------------------------------------------- R4
def r4_sink(text, ctx):
    n = 0
    if re.search(r'&mut\s+dyn\s+Write', text):
        # fn NAME( -> fn NAME<W: Write>(
        def gen(m):
            if m.group(2):
                return m.group(0)  # already generic
            return '%sfn %s<W: Write>(' % (m.group(1), m.group(3))
        text = re.sub(r'^([ \t]*(?:pub\s+)?)fn\s+()(\w+)\s*\(', gen, text, count=1, flags=re.M)
        text = re.sub(r'&mut\s+dyn\s+Write', '&mut W', text)
        n += 1
    if re.search(r'CountingWrite<&mut W>', text):
        text = text.replace('CountingWrite<&mut W>', 'CountingWrite<W>')
        n += 1
    ctx.note('R4', n)
    return text


def r4b_result_name(text, ctx):
    """-> Result<T>  becomes  -> (r: Result<T>) on the signature (first line group)."""
    i = text.index('{')
    sig = text[:i]
    m = re.search(r'->\s*([^\n{]+?)\s*$', sig.rstrip())
    if m and not m.group(1).startswith('('):
        sig2 = sig.rstrip()[:m.start()] + '-> (r: ' + m.group(1) + ')'
        text = sig2 + '\n' + text[i:]
    else:
        text = sig.rstrip() + '\n' + text[i:]
    return text


# ---------------------------------------------------------------- R16
def r16_question(text, ctx):
    """statement-level `E?;` -> `let __qN = E;` / `__qN?;`   and
    `let PAT = E?;` -> `let __qN = E;` / `let PAT = __qN?;`.  Only whole-line single-`?`
    statements whose `?` is the last token before `;` are split (others are left alone)."""
    lines = text.split('\n')
    out = []
    n = 0
    j = 0
    while j < len(lines):
        line = lines[j]
        # gather a statement that may span several lines: starts at a line, ends with `?;`
        stripped = line.strip()
        popped = 0
        if stripped.endswith('?;') and _balanced(stripped):
            stmt_lines = [line]
            popped = 0
            # a method chain continued from previous lines: `recv\n    .method(..)?;`
            while stmt_lines[0].strip().startswith('.') and out and not out[-1].strip().endswith((';', '{', '}')):
                stmt_lines.insert(0, out.pop())
                popped += 1
        else:
            # multi-line statement: find start line with unbalanced open, ending at `)?;`
            stmt_lines = None
            if not _balanced(stripped) and not stripped.startswith(('if ', 'match ', 'while ', 'for ', 'else', '}')):
                acc = [line]
                kk = j + 1
                while kk < len(lines) and kk - j < 12:
                    acc.append(lines[kk])
                    joined = ' '.join(x.strip() for x in acc)
                    if _balanced(joined):
                        if joined.endswith('?;') and not re.search(r'\{\s*$', lines[j]):
                            stmt_lines = acc
                        break
                    kk += 1
        if not stmt_lines:
            out.append(line)
            j += 1
            continue
        ind = re.match(r'[ \t]*', stmt_lines[0]).group(0)
        body = '\n'.join(stmt_lines)
        core = body.strip()[:-2]  # drop `?;`
        if core.count('?') != 0 and re.search(r'\?\s*[;.)\],]', core):
            # nested `?` inside: leave alone
            out.extend(stmt_lines)
            j += len(stmt_lines) - popped
            continue
        n += 1
        ctx.q += 1
        q = '__q%d' % ctx.q
        lm = re.match(r'let\s+(.+?)\s*=\s*(?!=)', core, re.S)
        am = re.match(r'([A-Za-z_][\w\.]*(?:\[[^\]]*\])?)\s*=\s*(?!=)', core, re.S)
        if not core.startswith('let ') and am:
            # assignment `x = E?;`
            out.append('%slet %s = %s;' % (ind, q, core[am.end():]))
            out.append('%s%s = %s?;' % (ind, am.group(1), q))
        elif core.startswith('let ') and lm:
            out.append('%slet %s = %s;' % (ind, q, core[lm.end():]))
            out.append('%slet %s = %s?;' % (ind, lm.group(1), q))
        elif core.startswith('return '):
            out.extend(stmt_lines)
            ctx.q -= 1
            n -= 1
        else:
            out.append('%slet %s = %s;' % (ind, q, core))
            out.append('%s%s?;' % (ind, q))
        j += len(stmt_lines) - popped
    ctx.note('R16', n)
    return '\n'.join(out)


def _balanced(s):
    depth = 0
    j = 0
    while j < len(s):
        c = s[j]
        if c == '"':
            j += 1
            while j < len(s) and s[j] != '"':
                if s[j] == '\\':
                    j += 1
                j += 1
        elif c == "'":
            m = _CHAR_RE.match(s, j)
            if m:
                j = m.end() - 1
        elif c in '([{':
            depth += 1
        elif c in ')]}':
            depth -= 1
            if depth < 0:
                return False
        j += 1
    return depth == 0


# ---------------------------------------------------------------- custom substitutions (R5/R7/R8/R11/R13/R15/R17)
def custom_subst(text, ctx, subst):
    """subst: list of dicts {rule, pat (regex) | lit (literal), to, count (optional exact count), note}"""
    for s in subst or []:
        if 'lit' in s:
            cnt = text.count(s['lit'])
            new = text.replace(s['lit'], s['to'])
        else:
            new, cnt = re.subn(s['pat'], s['to'], text, flags=re.M | re.S)
        want = s.get('count')
        if (want is not None and cnt != want) or (want is None and cnt == 0):
            if s.get('optional'):
                continue
            raise LostAnchor('substitution %s: pattern %r matched %d times (expected %s)' % (s.get('rule', '?'), s.get('lit', s.get('pat')), cnt, want if want is not None else '>=1'))
        text = new
        ctx.applied.append('%s[%s] x%d' % (s.get('rule', 'Rx'), s.get('note', ''), cnt))
    return text


def r11_set_keys(text, ctx):
    """`.set("Key", v)` -> `.set(lit_<hex>(), v)`: K: Into<Vec<u8>> made concrete at a &str key (its UTF-8 bytes)."""
    n = [0]

    def conv(m):
        n[0] += 1
        return '.set(' + _str_to_bytes_expr(m.group(1), ctx) + ','
    t = re.sub(r'\.set\(\s*"((?:[^"\\]|\\.)*)"\s*,', conv, text)
    ctx.note('R11', n[0])
    return t


def one_stmt_per_line_braces(text):
    """put `{` of the function body on its own line (ghost slot between signature and body)"""
    i = text.index('{')
    head = text[:i].rstrip()
    return head + '\n{' + text[i + 1:]


def apply_rules(text, ctx, opts):
    opts = opts or {}
    text = r12_attrs(text, ctx)
    text = custom_subst(text, ctx, opts.get('pre_subst'))
    text = r6_logging(text, ctx)
    text = r1_bytes(text, ctx)
    text = r3_fmt(text, ctx)
    text = r11_set_keys(text, ctx)
    text = r2_loops(text, ctx, opts.get('loops'))
    text = r2b_while_slots(text, ctx)
    if not opts.get('no_sink'):
        text = r4_sink(text, ctx)
    if not opts.get('no_q'):
        text = r16_question(text, ctx)
    text = custom_subst(text, ctx, opts.get('subst'))
    if not opts.get('raw_sig'):
        text = r4b_result_name(text, ctx)
    text = one_stmt_per_line_braces(text) if opts.get('raw_sig') else text
    return text
