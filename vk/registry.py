"""Which engines decide which property (DESIGN.md section 5)."""

def V(unit, **kw):
    return dict(kind='verus', unit=unit, **kw)

def E3(cmd, **kw):
    return dict(kind='e3', cmd=cmd, **kw)

def K(harness, **kw):
    return dict(kind='kani', harness=harness, **kw)

PROPS = {
    'C01': dict(level='proof', steps=[V('writer'), V('reader'), E3('c01-roundtrip'), E3('c01-bytepairs'), E3('c01-reals', complete_in_thorough=True), E3('c01-roundtrip', no_default_features=True)],
                title='Save then load returns the same document',
                technique='Verus contracts on mechanically extracted writer functions (spec encodings from ISO 32000-1 7.3, 7.5), on the cross-reference stream decoder, and round-trip theorems between the two specifications; bounded-exhaustive save/load for the nom grammar',
                text='writer side: every lexical writer function, the cross-reference table / stream and the whole file layout emit exactly the specified bytes for every argument (unbounded, Verus). Round trips proved between specifications: a reader written from ISO 7.3.4/7.3.5 recovers every name, literal and hexadecimal string from its encoding (grammar.rs); the specification decode_xref_stream is proved against (unit reader) recovers exactly the in-use and compressed entries of the table from the bytes and Index create_xref_steam is proved to deliver (xrefrt.rs). The nom parsers (objects, cross-reference table, trailer) are compared on the bounded families only.',
                note='std fmt/itoa shims trusted; the nom parsers are not under contract (bounded stand-in); known finding K-C01-1: nesting deeper than MAX_CONTAINER_DEPTH = 32'),
    'C03': dict(level='proof', steps=[V('writer'), E3('c03-strict')],
                title='Saved files are valid PDF for a strict third-party reader',
                technique='Verus contracts on mechanically extracted writer functions',
                text='byte-exact layout contract of the writer functions (Verus).',
                note='std fmt/itoa shims trusted'),
    'C14': dict(level='proof', steps=[V('writer'), E3('c14-content')],
                title='Content streams survive encode and decode',
                technique='Verus contracts on mechanically extracted writer functions',
                text='encoder side under contract (Verus).',
                note='nom parser side not under contract'),
    'C19': dict(level='proof', steps=[V('writer'), E3('c19-sinks')],
                title='Saving reports sink failures and ignores sink chunking',
                technique='Verus capacity-sink contract wrote(old,new,ok,enc) on every writer function',
                text='for every failure offset: Ok iff everything fitted, delivered bytes are a prefix of the complete output (Verus).',
                note='std Write::write_all/write_fmt contract assumed'),
}

PROPS['C09'] = dict(level='proof', steps=[V('stream'), K('kani_png_row_of_two'), K('kani_filter_type_byte'), E3('c09-filters')],
                title='Stream filters decode as specified; compression is lossless',
                technique='Verus contracts on extracted PNG predictor code against PNG 9.2 reconstruction functions',
                text='PNG predictor decoding equals the PNG 9.2 definition, ASCII85 decoding equals ISO 7.4.3, predictor dispatch and geometry, and the Length / Filter / DecodeParms bookkeeping of new, set_content, set_plain_content, compress, decompress, for every input (Verus).',
                note='flate2/weezl assumed; allocation within the granted bound assumed to succeed')

PROPS['C16'] = dict(level='proof', steps=[V('resources'), E3('c16-text', complete=True), E3('c16-strings')],
                title='Text strings and one-byte encodings round-trip text',
                technique='complete enumeration of the finite domains on the real code (all Unicode scalar values; 5 tables x 256 bytes) + bounded strings; Verus contract on Document::get_page_fonts (which Resources dictionaries are in effect for a page)',
                text='every clause over a finite domain is decided by complete enumeration on the real functions: all 1 112 064 scalar values through text_string/decode_text_string, all 5 x 256 table entries (decode total, re-encode stable, published WinAnsi/MacRoman/PDFDoc values); multi-character strings and text extraction (also through a saved file) are bounded families; for extraction, Document::get_page_fonts is proved to collect fonts from the Resources of the page and of every ancestor, nearest first, held directly or by reference (Verus unit resources).',
                note='std UTF-8/UTF-16 conversions trusted for the step from single characters to strings; Verus cannot reason about str, so no contract was placed on these functions')

PROPS['C07'] = dict(level='proof', steps=[V('reader'), V('writer'), V('incr'), E3('c07-histories')],
                title='Incremental updates: latest revision wins, history preserved',
                technique='Verus contracts: Xref::merge first-wins, IncrementalDocument::save_internal prefix + revision layout, search_substring = last occurrence, IncrementalDocument::opt_clone_object_to_new_document (an object the update holds is never replaced by the older one; otherwise the update receives what the id resolves to in the previous revisions; previous bytes and objects untouched); bounded histories through the real loader',
                text='Xref::merge never replaces an existing (newer) entry and adds every other one; incremental save emits the previous bytes unchanged followed by exactly one well-formed revision; startxref discovery takes the last occurrence; opt_clone_object_to_new_document (unit incr, together with Document::has_object, get_object, dereference, set_object as verified callees) leaves the previous revisions\' bytes and objects as they are, never replaces an object the update already holds, and otherwise stores under the id exactly what the id resolves to in the previous revisions (the end of its reference chain) or reports that lookup\'s error and changes nothing (all unbounded, Verus). The Prev-chain loop and object-stream merge inside Reader::read are exercised on bounded histories only.',
                note='Reader::read (Prev loop, object-stream merge) is not under contract: bounded stand-in; nom parsers trusted')

PROPS['C04'] = dict(level='proof', steps=[V('stream'), V('reader'), E3('c04-hostile'), E3('c04-depth', profile='dev')],
                title='Parsing untrusted bytes never panics, aborts or hangs',
                technique='Verus robustness obligations (overflow, bounds, unwrap, termination, allocation bound) on the byte-level decoders that are not nom combinators; worker-process sweeps of hostile inputs for the rest',
                text='for every input: PNG predictor decoding, predictor geometry, ASCII85 decoding and startxref search neither overflow, index out of range, loop without progress nor allocate beyond a linear bound (Verus, no preconditions beyond call-site facts). Cross-reference stream decoding is proved free of overflow, out-of-range index, oversized allocation and stalling for every /W, /Index, /Size (Verus, no precondition). The nom grammar, object streams, CMaps and text decoding are covered by the bounded sweep only.',
                note='nom/flate2/weezl/encoding_rs assumed not to panic; allocation within the granted bound assumed to succeed')

PROPS['C02'] = dict(level='proof', steps=[V('stream'), V('reader'), E3('c02-reader')],
                title='Well-formed PDFs from any producer load to their content',
                technique='Verus contracts on the non-nom decoders (PNG predictors, ASCII85, startxref search, cross-reference stream decoding against a specification written from ISO 32000-1 7.5.8); reference writer x enumerated syntactic choices through the real loader for the nom grammar',
                text='structural-stream decoding (Flate predictor 10-15 geometry and PNG reconstruction, ASCII85) and startxref discovery are proved for all inputs, and decode_xref_stream is proved to return exactly the entries that ISO 32000-1 7.5.8.2/3 define for every /W, /Index, /Size and data (rows of any type take their full width, types other than 1 and 2 leave no entry) (Verus); the lexical and cross-reference-table grammar (nom) is compared with an independent reference writer over every combination of a bounded set of syntactic choices.',
                note='the nom grammar itself is outside both verifiers: bounded stand-in; flate2 assumed; known finding K-C02-1 (an unescaped CR / CR LF inside a literal string is kept as written)')

PROPS['C06'] = dict(level='proof', steps=[V('keys'), V('crypt'), K('kani_permission_word'), E3('c06-interop')],
                title='Standard security handler agrees with ISO 32000 algorithms',
                technique='Verus contracts: the real key-derivation functions against spec functions written from ISO 32000-1 7.6.2-7.6.3 over an uninterpreted MD5; RC4 against its definition; interoperability with an independent reference handler (own MD5/SHA-2/AES/RC4) over an enumerated configuration family',
                text='proved for all inputs (Verus): Algorithm 1 and 1.A (per-object key, all four crypt filters), Algorithm 2 (file key R2-4), Algorithm 3 (O value), Algorithm 4 and 5 (U value; the first 16 bytes for R3/4), Algorithm 6 and 7 (user / owner authentication: Ok exactly when the recomputed U matches, the owner path through the user password recovered from O; lemma: Algorithm 7 inverts Algorithm 3), Algorithms 2.A, 11 and 12 over an uninterpreted Algorithm 2.B and AES-256-CBC (which password bytes, which salt slices of U and O, owner before user, Perms validation only on the user path), Permissions::p_value reserved bits, RC4 = KSA/PRGA, PKCS#5 padding. Algorithms 2.B, 8-10, 13, password preparation, crypt-filter selection and the encryption dictionary are covered by the bounded interoperability family only.',
                note='MD5 uninterpreted (md-5 crate assumed to compute RFC 1321); shims for RustCrypto Digest API, to_le_bytes, sub-slices, rand; the trailer /ID accessor chain is dropped from the verified text')

PROPS['C08'] = dict(level='other', steps=[E3('c08-orders', needs_seq_bin=True, timeout=3000)],
                title='Loading is deterministic under every thread schedule',
                technique='schedule enumeration through hook H1 on the real loader: every merge order (k! for k object streams, k <= 4, thorough 6) of the per-container blocks, plus repeated loads on rayon pools of 1,2,3,4,8,16 threads, all compared with the sequential (no-default-features) build of the same harness',
                text='bounded stand-in: neither verifier reasons about threads (Kani has no thread support, the loader is rayon/Mutex/closure code outside the Verus subset). What is decided exhaustively is the merge step: for every generated file every order in which the blocks can reach the first-wins merge gives the document of the sequential build. Real schedules and rayon splitting inside one object stream are sampled only.',
                note='bounded; hook H1 (cfg lopdf_verif) in src/reader.rs + src/verif_hooks.rs; Xref::merge first-wins is proved in unit reader (C07)')

PROPS['C10'] = dict(level='other', steps=[V('bookmarks'), E3('c10-renumber')],
                title='Renumbering objects preserves the document graph',
                technique='Verus contract on renumber_bookmarks / update_bookmark_pages (bookmark targets follow a renamed page throughout the forest, nothing else changes, termination); bounded-exhaustive executable contract: 14 page-tree templates x all id permutations x 3 id sets x starts x bookmark sets, and every reference graph over <= 3 objects with dangling ids, 5 container kinds and 4 trailer shapes, against an independent renaming-discovery oracle',
                text='proved for every pending bookmark forest built by add_bookmark, every old and new id (Verus unit bookmarks): renumber_bookmarks / update_bookmark_pages terminate, change nothing but pages equal to the old id, which become the new id (renamed), and leave every bookmark in the forest under the top-level list pointing at its target (all_renamed), whatever the order of the walk. Since the repair that made renumber_objects_with rename everything at once (apply_renaming), renumber_objects_with no longer calls renumber_bookmarks: the contract covers the public function a caller uses to keep bookmark targets in step with a page it renames itself, not the renumbering pass. Bounded stand-in for the renumbering pass: renumber_objects_with is BTreeMap/closure code over the whole Document and outside the verifiers\' subset; the postcondition of the property (consecutive numbers, max_id, a one-to-one renaming under which trailer, objects and bookmark targets are equal, dangling stays dangling, page order) is evaluated on every enumerated document.',
                note='bounded; start = 0, object number 0 in use and start + n > u32::MAX are recorded as known findings K-C10-1..4 (outside the domain of the function)')

PROPS['C11'] = dict(level='other', steps=[V('ids'), E3('c11-edits')],
                title='Editing operations keep the document sound',
                technique='bounded-exhaustive executable contracts: every call sequence of length <= 2 (thorough <= 3/4) over 38-54 editing calls on 14 start states, checked against an independent abstract model after every step',
                text='bounded stand-in only: the editing functions are iterator/closure graph code outside the verifiers\' subset (DESIGN 5, C11); every step of every enumerated sequence is checked against observers written from the property statement. Only the id-allocation kernel is under contract (Verus unit ids: new_object_id / add_object / set_object keep `no object number above max_id` and hand out numbers no object carries).',
                note='bounded; the three findings once recorded for C11 are repaired (a485a2f, acbdf8a, d625e0c); precondition max_id < u32::MAX on id allocation')

PROPS['C12'] = dict(level='proof', steps=[V('pages'), E3('c12-pages')],
                title='Page enumeration is the depth-first order of the page tree',
                technique='Verus contract on PageTreeIter::next (one step of the walk written as a spec function, termination measure, only-Page postcondition, stack bound) and the theorem that repeated steps yield the pre-order listing of the Page leaves for every tree within the iterator budgets; bounded-exhaustive: all page trees <= 7 nodes (thorough 9) x id layouts x Kids holdings, deep/wide patterns, malformed graphs and kinds, against the depth-first order computed from the tree shape',
                text='proved for every object graph, cyclic or not (Verus): PageTreeIter::next terminates (lexicographic measure iter_limit, stack length), yields only ids whose dictionary has /Type /Page, never raises the budget, keeps its explicit stack within PAGE_TREE_DEPTH_LIMIT, and is exactly one step of next_spec (units/pages/spec.rs). For every page tree whose nesting stays within PAGE_TREE_DEPTH_LIMIT and whose number of kids stays within iter_limit, of any size and shape, the ids yielded by repeated calls are the /Type /Page leaves in depth-first order (theorem_page_order, units/pages/order.rs, by induction over depth and sibling lists). Trees beyond those budgets, graphs that are not trees, id layouts, Kids held behind references and the reload path are decided on the enumerated family only (bounded).',
                note='Document::get_dictionary / Dictionary::get_type / PageTreeIter::kids enter as callee contracts (shims); while-let, byte-string match and @-pattern are rewritten by stated rules')

PROPS['C17'] = dict(level='other', steps=[V('bookmarks'), E3('c17-outline')],
                title='Bookmarks become a well-formed outline that reads back',
                technique='Verus contracts on Bookmark::new and Document::add_bookmark (the pending forest: fresh id, appended in insertion order under the right parent, every other bookmark untouched, ids rise from parent to child) and on recursive_fix_pages / adjust_zero_pages (termination on every such forest, no panic, nothing but pages of zero-page parents changes, every bookmark under the top-level list ends up with the first real page below it, written as spec functions eff_page / first_real / all_fixed with stability, transitivity and monotonicity lemmas); bounded-exhaustive: every attachment sequence of <= 5 (thorough 6) bookmarks x pages x targets x 4 document layouts, 23-title alphabet, every Unicode scalar value as a title (thorough), against an abstract forest',
                text='proved for every table, bookmark and parent (Verus unit bookmarks): add_bookmark hands out max_bookmark_id + 1, an id no bookmark of the table carries; stores the bookmark under that id with title, page, colour, format and children as given; appends the id to the end of the top-level list (no parent) or to the end of the named parent\'s children (insertion order under the right parent) and changes no other bookmark and no other list; keeps `every id within 1 ..= max_bookmark_id, stored under its own id`; and, for bookmarks made by Bookmark::new, keeps `every child carries a greater id than its parent and is in the table`, so the pending forest is acyclic. On every forest with those two invariants recursive_fix_pages and adjust_zero_pages terminate (measure: max_bookmark_id + 1 - the smallest id of the list walked), never reach the unwrap of a missing bookmark, and change nothing but the page of bookmarks that had a zero page and children: lists, key set, ids, children, titles, colours, formats and every real page are as before, and both invariants are kept. Which page a zero-page parent receives is proved as well: eff_page(t, id) is the bookmark\'s own page or, for a zero-page parent, the first real page among its children in order, each child standing for its own eff_page; every page the walk changes becomes eff_page computed on the table as it was before the call (rel), the inner walk returns first_real of its list, and after adjust_zero_pages every bookmark in the forest under the top-level list carries eff_page (all_fixed) - whatever the depth, fan-out and order of attachment. That the fix-up is independent of the order in which it visits and rewrites bookmarks is lemma_stable_eff / lemma_stable_first (eff_page is unchanged by replacing pages of zero-page parents with their eff_page). outline_child / build_outline (dictionary building, recursion over the table), the outline readers and get_toc are decided on the enumerated family only (bounded): links, order, fresh ids, titles, destinations and get_toc before/after save+load on every enumerated forest.',
                note='bounded for the outline itself; precondition max_bookmark_id < u32::MAX on add_bookmark; HashMap::get_mut / insert enter as a stated model (units/bookmarks/spec.rs)')

PROPS['C05'] = dict(level='proof', steps=[V('crypt'), E3('c05-encrypt')],
                title='Encrypt then decrypt restores every string and stream',
                technique='Verus contracts: RC4 against its definition + involution lemma, PKCS#5 pad/unpad inverse; bounded cross product of handlers x filters x passwords x documents through encrypt / decrypt / save / load',
                text='the cipher kernels written in the crate are proved for all inputs: Rc4::new is the KSA, apply_keystream/encrypt/decrypt are the PRGA XOR and decrypt(encrypt(x)) = x; Pkcs5 raw_pad / unpad are inverse (Verus). Filter selection, key derivation, password authentication and the document walk are covered by the bounded family only.',
                note='aes/cbc/md-5/sha2/rand assumed; encrypt_object/decrypt_object and Document::{encrypt,decrypt} are closure/iterator code not under contract; known finding K-C05-1 (a removed member of an unpacked object stream comes back after encrypt + in-memory decrypt)')

PROPS['C13'] = dict(level='other', steps=[V('pages'), V('resources'), V('deref'), E3('c13-queries')],
                title='Read-only queries are total on arbitrary object graphs',
                technique='bounded-exhaustive typed-chaos documents (17 families, every key the query code reads bound to every kind / reference / cycle) evaluated in worker processes with stack, CPU and memory limits',
                text='bounded stand-in: every read-only query on every enumerated small document returns without panic, abort, stack overflow or exceeding a CPU budget; lookups agree with an independent chain follower. The page walk under get_pages / page_iter (PageTreeIter::next) and the walks up the Parent chain (Document::get_page_resources, get_page_fonts, which extract_text uses) are additionally proved terminating on every graph, the latter with an error exactly when the chain is cyclic or leaves the document; Document::dereference and get_object are proved to follow at most DEREF_LIMIT references and to return the end of the chain, ObjectNotFound or ReferenceLimit as the chain dictates (Verus units pages, resources, deref).',
                note='bounded; apart from PageTreeIter::next, get_page_resources, get_page_fonts, dereference and get_object the walkers are closure/iterator code not under contract')

PROPS['C15'] = dict(level='proof', steps=[V('cmap'), E3('c15-cmap')],
                title='ToUnicode CMaps decode text as the CMap defines',
                technique='Verus contracts on ToUnicodeCMap::{put, put_char, get, get_or_replacement_char} against the CMap semantics with an honest rangemap contract (get_key_value may return any stored interval); bounded CMap texts through the real parser',
                text='for every sequence of definitions: put overwrites exactly the codes it covers (last definition wins), a range adds the offset to the last UTF-16 unit, an array target is indexed by the offset, get returns the stored meaning independently of how the range map splits or merges intervals, no arithmetic overflow or index error (Verus). The CMap grammar (nom) and the UTF-16 assembly in bytes_to_string are covered by the bounded family.',
                note='rangemap and encoding_rs assumed (contract stated in vk/units/cmap/spec.rs); cmap_parser is nom: bounded only')

NOT_APPLICABLE = {
    'C18': "every clause is about what chrono/jiff/time format and parse; the crate's own code is two string edits, so no contract within either verifier's reach expresses the property",
}

# commits in /repo that add cfg(lopdf_verif)-guarded hooks (recorded in MANIFEST.hooks.source_commits)
HOOK_COMMITS = ['1647cde', '7b2e023']
