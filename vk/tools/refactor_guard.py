#!/usr/bin/env python3
"""False-alarm guard for the Verus units: semantics-preserving edits must never be reported as violations.

    vk/tools/refactor_guard.py [unit ...] [--jobs N] [--out file.json]

For every function under contract, three edits that cannot change behaviour are made to the function's text in a scratch
copy of /repo/src (one at a time), and the unit is verified again on that copy:
  comment  : a comment line and a blank line inserted after the first statement of the body
  rename   : one local variable (introduced by `let` / `let mut`, or a `for` pattern variable) renamed consistently
  unused   : `let _refactor_guard_unused = 0u8;` inserted as the first statement of the body
Allowed outcomes: verified (the overlay re-aligned) or inconclusive (a rewrite rule or a ghost line lost its anchor: the
step decides nothing, exit 2).  A verification failure is a false alarm of the machinery and is listed.
Nothing here touches /repo."""
import sys, os, re, json, shutil, argparse, tempfile, concurrent.futures as cf
HERE = os.path.dirname(os.path.abspath(__file__))
BASE = os.environ.get('VERIF_REPO_BASE', '/repo')
sys.path.insert(0, os.path.dirname(HERE))


def fn_span(src, f):
    import rustcut
    text, line = rustcut.cut_fn(src, f['name'], f.get('impl'), f.get('nth', 0))
    i = src.index(text)
    return i, i + len(text), text


def edits_of(text):
    out = []
    b = text.index('{')
    # first statement end: first ';' or '{' after the body start at nesting depth 1 -> insert after that line
    lines = text.split('\n')
    # body start line index
    acc = 0
    bl = 0
    for k, l in enumerate(lines):
        acc += len(l) + 1
        if acc > b:
            bl = k
            break
    indent = re.match(r'\s*', lines[bl + 1]).group(0) if bl + 1 < len(lines) else '    '
    t = lines[:bl + 1] + [indent + 'let _refactor_guard_unused = 0u8;'] + lines[bl + 1:]
    out.append(('unused', '\n'.join(t)))
    # comment after the first line of the body that ends with ';'
    for k in range(bl + 1, len(lines)):
        if lines[k].rstrip().endswith(';'):
            t = lines[:k + 1] + ['', indent + '// (refactor guard: a comment changes nothing)'] + lines[k + 1:]
            out.append(('comment', '\n'.join(t)))
            break
    # rename one local
    m = None
    for m in re.finditer(r'\blet\s+(?:mut\s+)?([a-z][a-z0-9_]{2,})\b', text):
        name = m.group(1)
        if name in ('self', 'mut') or re.search(r'\b%s_rg\b' % name, text):
            continue
        # skip names that also occur as struct field shorthand or method names (a dot before, or `name:`/`name,` in a struct literal)
        if re.search(r'\.%s\b' % name, text) or re.search(r'[{,]\s*%s\s*[,}]' % name, text):
            continue
        out.append(('rename ' + name, re.sub(r'\b%s\b' % name, name + '_rg', text)))
        break
    return out


def run_one(args):
    unit, key, kind, file_rel, a, b, new_text = args
    d = tempfile.mkdtemp(prefix='rg_')
    try:
        shutil.copytree(BASE + '/src', d + '/src')
        p = os.path.join(d, file_rel)
        s = open(p).read()
        open(p, 'w').write(s[:a] + new_text + s[b:])
        os.environ['VERIF_REPO'] = d
        import importlib
        import build
        importlib.reload(build)
        build.REPO = d
        r = build.check_unit(unit, canary=False, mutate=dict(id='rg%d' % os.getpid(), fn='__none__', find='', replace=''))
        try:
            os.remove(r.get('gen_path', ''))
        except OSError:
            pass
        if r['failed']:
            return dict(unit=unit, fn=key, edit=kind, verdict='FALSE-ALARM', why='; '.join(sorted(set('%s: %s' % (x['fn'], x['msg']) for x in r['failed'])))[:300])
        if r['inconclusive']:
            return dict(unit=unit, fn=key, edit=kind, verdict='inconclusive', why='; '.join(r['inconclusive'])[:200])
        return dict(unit=unit, fn=key, edit=kind, verdict='verified', why='')
    finally:
        shutil.rmtree(d, ignore_errors=True)


def main():
    ap = argparse.ArgumentParser()
    ap.add_argument('units', nargs='*')
    ap.add_argument('--jobs', type=int, default=6)
    ap.add_argument('--out')
    a = ap.parse_args()
    import build
    units = a.units or build.all_units()
    jobs = []
    for u in units:
        unit = build.load_unit(u)
        for f in unit['functions']:
            if f.get('overlay', '').startswith('../'):
                continue  # function shared with another unit: guarded there
            src = open(os.path.join(BASE, f['file'])).read()
            try:
                s0, s1, text = fn_span(src, f)
            except Exception as e:
                continue
            for kind, new in edits_of(text):
                jobs.append((u, build.fkey(f), kind, f['file'], s0, s1, new))
    print('%d edits over %d units' % (len(jobs), len(units)), file=sys.stderr)
    res = []
    with cf.ProcessPoolExecutor(max_workers=a.jobs) as ex:
        for r in ex.map(run_one, jobs, chunksize=1):
            res.append(r)
            if r['verdict'] == 'FALSE-ALARM':
                print('FALSE-ALARM %s %s [%s]: %s' % (r['unit'], r['fn'], r['edit'], r['why']), flush=True)
    tot = {}
    for r in res:
        t = tot.setdefault(r['unit'], dict(verified=0, inconclusive=0, false_alarm=0))
        t[{'verified': 'verified', 'inconclusive': 'inconclusive', 'FALSE-ALARM': 'false_alarm'}[r['verdict']]] += 1
    print(json.dumps(tot))
    if a.out:
        json.dump(dict(total=tot, results=res), open(a.out, 'w'), indent=1)


if __name__ == '__main__':
    main()
