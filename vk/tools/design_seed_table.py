#!/usr/bin/env python3
"""Rebuild the table of DESIGN.md 0A.5 from seeded/RESULTS.md and the meta.json files: prints markdown rows.
   vk/tools/design_seed_table.py [--write]   (--write replaces the rows between the table header and the first blank line)"""
import os, re, sys, json
V = '/verif'
rows = []
for line in open(V + '/seeded/RESULTS.md'):
    m = re.match(r'\| (C\d\d_m\d+) \| (C\d\d) \| ([^|]+) \| (.*) \|\s*$', line)
    if not m:
        continue
    sid, pid, verdict, obl = m.group(1), m.group(2), m.group(3).strip(), m.group(4)
    meta = json.load(open('%s/seeded/%s/meta.json' % (V, sid)))
    summ = (meta.get('summary') or meta.get('description') or meta.get('what') or '').replace('|', '/').replace('\n', ' ')
    files = [x.strip() for x in obl.split(';') if x.strip()]
    verus, kani, e3 = [], [], []
    for f in files:
        b = os.path.basename(f).replace('.json', '').replace(' no-failing-input-found', '')
        if b.startswith('e3_'):
            e3.append(b.split('_', 2)[2] if b.count('_') >= 2 else b)
        elif b.startswith('kani'):
            kani.append(b)
        else:
            verus.append(b)
    rows.append('| %s | %s... | %s | %s | %s | %s |' % (sid, summ[:110], verdict, '; '.join(verus) or '-', '; '.join(kani) or '-', '; '.join(e3) or '-'))
if '--write' in sys.argv:
    p = V + '/DESIGN.md'
    s = open(p).read()
    head = '| seeded change | what it does (first words of the sub-agent\'s summary) | verdict | Verus obligations | Kani | bounded-harness obligations |\n|---|---|---|---|---|---|\n'
    a = s.index(head) + len(head)
    b = s.index('\n\n', a)
    s = s[:a] + '\n'.join(rows) + s[b:]
    open(p, 'w').write(s)
    print('wrote %d rows' % len(rows))
else:
    print('\n'.join(rows))
