#!/usr/bin/env python3
"""Apply every seeded change in /verif/seeded to /repo, run the property's quick check, undo; print a table."""
import os, sys, json, subprocess
ids = sys.argv[1:] or sorted(d for d in os.listdir('/verif/seeded') if os.path.isdir(os.path.join('/verif/seeded', d)))
rows = []
import shutil
shutil.rmtree('/tmp/evidence_backup', ignore_errors=True)
shutil.copytree('/verif/evidence', '/tmp/evidence_backup')
for sid in ids:
    d = os.path.join('/verif/seeded', sid)
    meta = json.load(open(d + '/meta.json'))
    pid = meta['property']
    a = subprocess.run(['git', '-C', '/repo', 'apply', d + '/patch.diff'], capture_output=True, text=True)
    if a.returncode != 0:
        rows.append((sid, pid, 'PATCH-DOES-NOT-APPLY', a.stderr.strip()[:100]))
        continue
    try:
        r = subprocess.run(['/verif/bin/check', pid], capture_output=True, text=True, cwd='/verif')
        viol = [l for l in r.stdout.split('\n') if l.startswith('VIOLATION')]
        verdict = {0: 'MISSED (exit 0)', 1: 'DETECTED', 2: 'INCONCLUSIVE (exit 2)'}.get(r.returncode, str(r.returncode))
        rows.append((sid, pid, verdict, '; '.join(v.split('replay=')[1].replace('/verif/replays/', '') for v in viol)[:260] or r.stderr.strip()[:200]))
        print(' | '.join(rows[-1]), flush=True)
    finally:
        subprocess.run(['git', '-C', '/repo', 'checkout', '--', '.'])
shutil.rmtree('/verif/evidence')
shutil.copytree('/tmp/evidence_backup', '/verif/evidence')   # evidence files must come from runs on the unchanged tree
if not sys.argv[1:]:
    # full run: keep the table (DESIGN.md 0A.5 quotes it)
    with open('/verif/seeded/RESULTS.md', 'w') as f:
        f.write('| seeded change | property | verdict of `bin/check <property>` | failed obligations (replay files) |\n|---|---|---|---|\n')
        for sid, pid, verdict, obl in rows:
            summ = json.load(open('/verif/seeded/%s/meta.json' % sid)).get('summary', '')[:0]
            f.write('| %s | %s | %s | %s |\n' % (sid, pid, verdict, obl.replace('|', '/')))
