#!/usr/bin/env python3
"""dev helper: ovadd.py <file.ov> <<< 'anchor substring[#n]\\n+ghost\\n+ghost\\n---\\nanchor2...'
Each block: first line = substring of a code line (optionally '@@k' for k-th occurrence), following lines = ghost lines inserted AFTER it."""
import sys
p = sys.argv[1]
lines = open(p).read().rstrip('\n').split('\n')
blocks = sys.stdin.read().split('\n---\n')
for b in blocks:
    bl = b.strip('\n').split('\n')
    anchor = bl[0]
    occ = 1
    if '@@' in anchor:
        anchor, o = anchor.rsplit('@@', 1)
        occ = int(o)
    ghost = ['+' + g for g in bl[1:]]
    cnt = 0
    for i, l in enumerate(lines):
        if l.startswith(' ') and anchor in l:
            cnt += 1
            if cnt == occ:
                # skip past ghost lines already attached after this code line
                j = i + 1
                while j < len(lines) and lines[j].startswith('+'):
                    j += 1
                lines[j:j] = ghost
                break
    else:
        sys.exit('anchor not found: %r in %s' % (anchor, p))
open(p, 'w').write('\n'.join(lines) + '\n')
