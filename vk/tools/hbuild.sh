#!/bin/bash
# dev helper: build the harness from a private copy in which other people's unfinished modules are taken from git HEAD
set -e
rm -rf /tmp/hbuild && mkdir -p /tmp/hbuild && cp -r /verif/harness/Cargo.toml /verif/harness/Cargo.lock /verif/harness/src /tmp/hbuild/
for m in "$@"; do git -C /verif show HEAD:harness/src/$m.rs > /tmp/hbuild/src/$m.rs; done
cd /tmp/hbuild && CARGO_NET_OFFLINE=true RUSTFLAGS='--cfg lopdf_verif -C overflow-checks=on -C debug-assertions=on' cargo build --release --offline --target-dir /verif/.cache/harness-target-mine 2>&1 | grep -E "^error" -A12 | head -50
echo built
