#!/bin/bash
# confirm_seed.sh <worktree> <property> <i> <seed-id>
# Re-confirms a sub-agent's change on the current /repo HEAD inside its scratch worktree and files it under /verif/seeded/<seed-id>/
WT=$1; PID=$2; I=$3; SID=$4
OUT=/verif/seeded/$SID
export CARGO_NET_OFFLINE=true
cd $WT || exit 2
git checkout -q --detach main 2>/dev/null || git checkout -q --detach $(git -C /repo rev-parse HEAD)
git checkout -q -- . ; rm -f tests/demo_*.rs
cp OUT/demo_$I.rs tests/demo_$I.rs
LOG=$(mktemp)
echo "== base: demo must pass" > $LOG
cargo test --offline --test demo_$I >> $LOG 2>&1; BASE_RC=$?
git apply OUT/patch_$I.diff >> $LOG 2>&1; APPLY_RC=$?
echo "== patched: demo must fail" >> $LOG
cargo test --offline --test demo_$I >> $LOG 2>&1; MUT_RC=$?
echo "== patched: existing suite" >> $LOG
rm -f tests/demo_$I.rs
cargo test --offline --no-fail-fast > $LOG.suite 2>&1
FAILED=$(grep -E "^test [^ ]+ \.\.\. FAILED" $LOG.suite | grep -v annotation_count | wc -l)
COMPILE_ERR=$(grep -c "^error\[E" $LOG.suite)
git checkout -q -- . ; rm -f tests/demo_*.rs
echo "base_rc=$BASE_RC apply_rc=$APPLY_RC mut_rc=$MUT_RC other_failed=$FAILED compile_err=$COMPILE_ERR"
if [ $BASE_RC -eq 0 ] && [ $APPLY_RC -eq 0 ] && [ $MUT_RC -ne 0 ] && [ $FAILED -eq 0 ] && [ $COMPILE_ERR -eq 0 ]; then
  mkdir -p $OUT
  cp OUT/patch_$I.diff $OUT/patch.diff; cp OUT/demo_$I.rs $OUT/demo.rs
  python3 - "$OUT" "OUT/meta_$I.json" "$PID" <<'PY'
import json,sys,subprocess
out,meta,pid=sys.argv[1:4]
try: m=json.load(open(meta))
except Exception: m={}
head=subprocess.run(['git','-C','/repo','rev-parse','--short','HEAD'],capture_output=True,text=True).stdout.strip()
json.dump(dict(property=pid, summary=m.get('summary'), needs=m.get('needs'), files=m.get('files'), agent_ran=m.get('ran'),
  confirmed=dict(on_commit=head, base_demo='passes', patched_demo='fails', existing_suite='only annotation::annotation_count fails (as on the unchanged tree)',
  how='vk/tools/confirm_seed.sh in a scratch worktree: cargo test --offline --test demo (base, patched); cargo test --offline --no-fail-fast (patched)')), open(out+'/meta.json','w'), indent=1)
PY
  echo "CONFIRMED $SID"
else
  echo "NOT CONFIRMED $SID (see $LOG)"
fi
