#!/usr/bin/env python3
"""Contract strength: mutation score of the Verus units.

    vk/tools/mutscore.py <unit> [--fn Impl::name] [--jobs N] [--max-per-fn K] [--out file.json]

For every function the unit puts under contract, small edits (one per mutant) are made to the function's text as cut
from /repo/src and rewritten by the unit's rules - i.e. to the text Verus sees, before the ghost lines of the overlay
are merged in - and the unit is verified again (build.check_unit(mutate=...), no canary).  A mutant is
  killed     : Verus reports a verification error (a contract of the unit rejects the changed code),
  survived   : Verus accepts every obligation (the contracts do not tell the changed code from the real one),
  undecided  : the only failed obligation is a proof hint right next to the edited line (DESIGN 0A.2d: reported as inconclusive by
               the Verus step; the bounded step of the property decides),
  invalid    : the changed text does not type-check, the overlay cannot be aligned, or a resource limit is hit.
Survivors are either equivalent changes (the operators are blind) or weaknesses of a contract; they are listed so that
each can be looked at.  Nothing here touches /repo; the mutant files live in .cache/gen and are removed.

Operators: relational (< <= > >= == !=), arithmetic (+ - * /), integer literal +1 (decimal / hex, also inside casts),
boolean (&& ||, true/false, leading !), statement deletion (a line that is a call or an assignment ending in `;`),
early `return`/`break` deletion is not attempted (changes typing too often).
"""
import sys, os, re, json, argparse, time, concurrent.futures as cf
HERE = os.path.dirname(os.path.abspath(__file__))
sys.path.insert(0, os.path.dirname(HERE))
import build  # noqa: E402

REL = {'<=': ['<', '=='], '>=': ['>', '=='], '==': ['!='], '!=': ['=='], '<': ['<='], '>': ['>=']}
ARI = {'+': ['-'], '-': ['+'], '*': ['/'], '/': ['*'], '+=': ['-='], '-=': ['+='], '|': ['&'], '&': ['|'], '^': ['|'], '<<': ['>>'], '>>': ['<<'], '%': ['/']}
LOG = {'&&': ['||'], '||': ['&&']}
TOK = re.compile(r'<<=|>>=|<=|>=|==|!=|&&|\|\||\+=|-=|<<|>>|->|=>|::|[-+*/%<>|&^]')


def strip_strings(line):
    """mask string / char literals and comments so operators inside them are not touched"""
    out, i, n = [], 0, len(line)
    while i < n:
        c = line[i]
        if line.startswith('//', i):
            out.append(' ' * (n - i))
            break
        if c == '"':
            j = i + 1
            while j < n and line[j] != '"':
                j += 2 if line[j] == '\\' else 1
            out.append(' ' * (min(j, n - 1) - i + 1))
            i = j + 1
            continue
        if c == "'" and re.match(r"'(\\.|[^\\'])'", line[i:]):
            m = re.match(r"'(\\.|[^\\'])'", line[i:])
            out.append(' ' * len(m.group(0)))
            i += len(m.group(0))
            continue
        out.append(c)
        i += 1
    return ''.join(out)


def mutants_of(lines):
    """yield (line_no, description, new_line or None for deletion)"""
    depth_generic = 0
    for ln, raw in enumerate(lines):
        if ln == 0:
            continue  # signature
        masked = strip_strings(raw)
        s = masked.strip()
        if not s or s in ('{', '}') or s.startswith('#['):
            continue
        # operators
        for m in TOK.finditer(masked):
            t = m.group(0)
            a, b = m.start(), m.end()
            before, after = masked[:a], masked[b:]
            # skip generics / references / arrows / unary minus in literals / `&mut` / `&x` borrows / closures `|x|`
            if t in ('->', '=>', '::'):
                continue
            if t in ('<', '>') and (re.search(r'[A-Za-z_:]\s*$', before) and re.match(r'\s*[A-Za-z_&\[\(\'u]', after)) and not re.search(r'\s$', before):
                continue  # Vec<u8>, Option<..>
            if t == '&' and (re.match(r'\s*(mut\b|[A-Za-z_\[\(\*&\'])', after) and not re.search(r'[\w\)\]]\s+$', before)):
                continue  # borrow
            if t == '|' and not (re.search(r'[\w\)\]]\s+$', before) and re.match(r'\s+[\w\(]', after)):
                continue  # closure bars / match alternatives
            if t == '*' and not (re.search(r'[\w\)\]]\s*$', before) and re.match(r'\s*[\w\(]', after) and re.search(r'\s$', before)):
                continue  # deref
            if t == '-' and not re.search(r'[\w\)\]]\s*$', before):
                continue  # unary minus
            if t in ('<', '>') and not (re.search(r'\s$', before) and re.match(r'\s', after)):
                continue
            for table in (REL, ARI, LOG):
                for r in table.get(t, []):
                    yield ln, '%s -> %s' % (t, r), raw[:a] + r + raw[b:]
        # integer literals (not in type positions like [u8; 32] handled too: they are sizes and matter)
        for m in re.finditer(r'(?<![\w.])(0x[0-9A-Fa-f_]+|\d[\d_]*)(?![\w.]*\.)', masked):
            lit = m.group(1)
            try:
                v = int(lit.replace('_', ''), 0)
            except ValueError:
                continue
            nv = v + 1
            new = ('0x%X' % nv) if lit.lower().startswith('0x') else str(nv)
            yield ln, 'literal %s -> %s' % (lit, new), raw[:m.start(1)] + new + raw[m.end(1):]
        for a, b in (('true', 'false'), ('false', 'true')):
            for m in re.finditer(r'\b%s\b' % a, masked):
                yield ln, '%s -> %s' % (a, b), raw[:m.start()] + b + raw[m.end():]
        m = re.search(r'\bif !', masked)
        if m:
            yield ln, 'if !c -> if c', raw[:m.end() - 1] + raw[m.end():]
        # statement deletion
        if s.endswith(';') and not s.startswith(('let ', 'return', 'break', 'continue', 'use ')) and not s.endswith('};') and '{' not in s:
            yield ln, 'delete statement', None


def run_one(args):
    unit, fn, ln, desc, find, repl, idx = args
    t0 = time.time()
    mid = 'm%s_%d' % (re.sub(r'\W', '', fn)[-24:], idx)
    r = build.check_unit(unit, canary=False, mutate=dict(id=mid, fn=fn, find=find, replace=repl))
    try:
        os.remove(os.path.join(build.CACHE, 'gen', 'vk_%s__%s.rs' % (unit, mid)))
    except OSError:
        pass
    if r['failed']:
        verdict = 'killed'
        why = '; '.join(sorted(set('%s: %s' % (x['fn'], x['msg']) for x in r['failed'])))[:300]
    elif r['inconclusive']:
        why = '; '.join(r['inconclusive'])[:300]
        verdict = 'undecided' if all('proof hint next to changed code' in x for x in r['inconclusive']) else 'invalid'

    else:
        verdict = 'survived'
        why = ''
    return dict(fn=fn, line=ln, op=desc, verdict=verdict, why=why, wall=round(time.time() - t0, 1))


def main():
    ap = argparse.ArgumentParser()
    ap.add_argument('unit')
    ap.add_argument('--fn')
    ap.add_argument('--jobs', type=int, default=8)
    ap.add_argument('--max-per-fn', type=int, default=0)
    ap.add_argument('--out')
    a = ap.parse_args()
    unit = build.load_unit(a.unit)
    jobs = []
    for f in unit['functions']:
        key = build.fkey(f)
        if a.fn and key != a.fn:
            continue
        ef = build.extract_function(f)
        lines = ef['lines']
        seen = set()
        k = 0
        for ln, desc, new in mutants_of(lines):
            old = lines[ln]
            # the mutation is applied by text: the find string must be unique in the function
            find = old
            joined = '\n'.join(lines)
            if joined.count(find) != 1:
                # extend with the previous line to disambiguate
                if ln > 0 and joined.count(lines[ln - 1] + '\n' + old) == 1:
                    find = lines[ln - 1] + '\n' + old
                    repl = lines[ln - 1] + ('\n' + new if new is not None else '')
                else:
                    continue
            else:
                repl = new if new is not None else ''
            if (find, repl) in seen:
                continue
            seen.add((find, repl))
            k += 1
            if a.max_per_fn and k > a.max_per_fn:
                break
            jobs.append((a.unit, key, ln, desc + ' @ ' + old.strip()[:70], find, repl, len(jobs)))
    print('%s: %d mutants over %d functions' % (a.unit, len(jobs), len(set(j[1] for j in jobs))), file=sys.stderr)
    res = []
    with cf.ProcessPoolExecutor(max_workers=a.jobs) as ex:
        for r in ex.map(run_one, jobs, chunksize=1):
            res.append(r)
            if len(res) % 25 == 0:
                print('  %d/%d' % (len(res), len(jobs)), file=sys.stderr)
    summary = {}
    for r in res:
        s = summary.setdefault(r['fn'], dict(killed=0, survived=0, undecided=0, invalid=0))
        s[r['verdict']] += 1
    tot = dict(killed=sum(s['killed'] for s in summary.values()), survived=sum(s['survived'] for s in summary.values()), undecided=sum(s['undecided'] for s in summary.values()), invalid=sum(s['invalid'] for s in summary.values()))
    out = dict(unit=a.unit, total=tot, per_function=summary, survivors=[r for r in res if r['verdict'] == 'survived'], undecided=[r for r in res if r['verdict'] == 'undecided'], invalid_sample=[r for r in res if r['verdict'] == 'invalid'][:20])
    if a.out:
        json.dump(out, open(a.out, 'w'), indent=1)
    print(json.dumps(dict(unit=a.unit, total=tot), indent=None))
    for r in out['survivors']:
        print('SURVIVED %s:%d %s' % (r['fn'], r['line'], r['op']))


if __name__ == '__main__':
    main()
