#!/usr/bin/env python3
"""dev helper: muttest.py <unit> <file> <old> <new>  -- apply a textual mutation to a scratch copy of /repo/src and run the unit"""
import sys, os, shutil, subprocess, json
unit, f, old, new = sys.argv[1:5]
d = '/tmp/vkmut_%d' % os.getpid()
shutil.rmtree(d, ignore_errors=True)
os.makedirs(d)
shutil.copytree('/repo/src', d + '/src')
p = os.path.join(d, f)
s = open(p).read()
if old not in s:
    sys.exit('pattern not found')
open(p, 'w').write(s.replace(old, new, 1))
os.environ['VERIF_REPO'] = d
sys.path.insert(0, '/verif/vk')
import build
r = build.check_unit(unit, canary=False)
print('ok=%s verified=%s errors=%s drift=%s' % (r['ok'], r.get('total_verified'), r.get('total_errors'), r.get('drift')))
for x in r['failed'][:6]:
    print('  FAILED', x['fn'], '|', x['msg'], '|', x['text'][:90])
for x in r['inconclusive'][:4]:
    print('  INCONCLUSIVE', x[:300])
shutil.rmtree(d, ignore_errors=True)
