use vstd::prelude::*;
verus! {
pub open spec fn is_ws(c: u8) -> bool { c == 0x20 || c == 0x09 || c == 0x0a || c == 0x0d || c == 0x00 || c == 0x0c }
pub open spec fn is_delim(c: u8) -> bool { c == 0x28 || c == 0x29 || c == 0x3c || c == 0x3e || c == 0x5b || c == 0x5d || c == 0x7b || c == 0x7d || c == 0x2f || c == 0x25 }
pub open spec fn is_regular(c: u8) -> bool { !is_ws(c) && !is_delim(c) }
pub open spec fn hex_val(c: u8) -> Option<u8> {
    if 0x30 <= c <= 0x39 { Some((c - 0x30) as u8) } else if 0x41 <= c <= 0x46 { Some((c - 0x41 + 10) as u8) } else if 0x61 <= c <= 0x66 { Some((c - 0x61 + 10) as u8) } else { None }
}
pub open spec fn dec_name(i: Seq<u8>) -> (Seq<u8>, Seq<u8>) decreases i.len() {
    if i.len() == 0 { (seq![], i) }
    else if i[0] == 0x23 {
        if i.len() >= 3 && hex_val(i[1]) is Some && hex_val(i[2]) is Some {
            let (r, rest) = dec_name(i.subrange(3, i.len() as int));
            (seq![(hex_val(i[1]).unwrap() * 16 + hex_val(i[2]).unwrap()) as u8] + r, rest)
        } else { (seq![], i) }
    } else if is_regular(i[0]) {
        let (r, rest) = dec_name(i.subrange(1, i.len() as int));
        (seq![i[0]] + r, rest)
    } else { (seq![], i) }
}

// ---- executable twins (erased to plain Rust for the E3 harness) ----
pub fn x_is_regular(c: u8) -> (r: bool) ensures r == is_regular(c) {
    !(c == 0x20 || c == 0x09 || c == 0x0a || c == 0x0d || c == 0x00 || c == 0x0c)
        && !(c == 0x28 || c == 0x29 || c == 0x3c || c == 0x3e || c == 0x5b || c == 0x5d || c == 0x7b || c == 0x7d || c == 0x2f || c == 0x25)
}
pub fn x_hex_val(c: u8) -> (r: Option<u8>) ensures r == hex_val(c) {
    if 0x30 <= c && c <= 0x39 { Some(c - 0x30) } else if 0x41 <= c && c <= 0x46 { Some(c - 0x41 + 10) } else if 0x61 <= c && c <= 0x66 { Some(c - 0x61 + 10) } else { None }
}
// returns (decoded name, number of input bytes consumed)
pub fn x_dec_name(input: &[u8]) -> (r: (Vec<u8>, usize))
    ensures r.1 <= input@.len(), (r.0@, input@.subrange(r.1 as int, input@.len() as int)) == dec_name(input@)
{
    let mut out: Vec<u8> = Vec::new();
    let mut pos: usize = 0;
    proof { assert(input@.subrange(0, input@.len() as int) =~= input@); assert(Seq::<u8>::empty() + dec_name(input@).0 =~= dec_name(input@).0); }
    loop
        invariant_except_break
            pos <= input@.len(),
            dec_name(input@) == (out@ + dec_name(input@.subrange(pos as int, input@.len() as int)).0, dec_name(input@.subrange(pos as int, input@.len() as int)).1),
        ensures
            pos <= input@.len(),
            (out@, input@.subrange(pos as int, input@.len() as int)) == dec_name(input@),
        decreases input@.len() - pos
    {
        let ghost cur = input@.subrange(pos as int, input@.len() as int);
        if pos >= input.len() {
            proof { assert(out@ + Seq::<u8>::empty() =~= out@); }
            break;
        }
        let c = input[pos];
        proof { assert(cur[0] == c); }
        if c == 0x23 {
            if input.len() - pos > 2 {
                let h1 = x_hex_val(input[pos + 1]);
                let h2 = x_hex_val(input[pos + 2]);
                proof { assert(cur[1] == input@[pos + 1] && cur[2] == input@[pos + 2]); }
                if h1.is_some() && h2.is_some() {
                    let b = h1.unwrap() * 16 + h2.unwrap();
                    proof {
                        assert(cur.subrange(3, cur.len() as int) =~= input@.subrange(pos + 3, input@.len() as int));
                        let nxt = dec_name(input@.subrange(pos + 3, input@.len() as int));
                        assert(out@.push(b) + nxt.0 =~= out@ + (seq![b] + nxt.0));
                    }
                    out.push(b);
                    pos += 3;
                    continue;
                }
            }
            proof { assert(out@ + Seq::<u8>::empty() =~= out@); }
            break;
        } else if x_is_regular(c) {
            proof {
                assert(cur.subrange(1, cur.len() as int) =~= input@.subrange(pos + 1, input@.len() as int));
                let nxt = dec_name(input@.subrange(pos + 1, input@.len() as int));
                assert(out@.push(c) + nxt.0 =~= out@ + (seq![c] + nxt.0));
            }
            out.push(c);
            pos += 1;
        } else {
            proof { assert(out@ + Seq::<u8>::empty() =~= out@); }
            break;
        }
    }
    (out, pos)
}
}
fn main() {
    use std::io::Read;
    let mut buf = Vec::new();
    std::io::stdin().read_to_end(&mut buf).unwrap();
    let (name, used) = x_dec_name(&buf);
    println!("{:?} {}", name, used);
}
