#!/usr/bin/env python3
"""Throw-away prototype of the extractor (design probe): cut functions out of /repo/src/writer.rs,
apply R1 (byte strings), R2 (slice for-loops), R3 (write!/writeln!), R4 (sink type), print Verus text."""
import re, sys, hashlib

SRC = open('/repo/src/writer.rs').read()

def cut_fn(src, name):
    m = re.search(r'^[ \t]*(?:pub(?:\([a-z]+\))? )?fn ' + re.escape(name) + r'\b', src, re.M)
    if not m: raise SystemExit(f'lost anchor: fn {name}')
    i = src.index('{', m.end())
    depth = 0; j = i
    while True:
        c = src[j]
        if c == '{': depth += 1
        elif c == '}':
            depth -= 1
            if depth == 0: break
        elif c == '"':           # skip string literal
            j += 1
            while src[j] != '"':
                if src[j] == '\\': j += 1
                j += 1
        elif c == '\'' and re.match(r"'(\\.|[^\\'])'", src[j:j+4]):   # char literal
            j += len(re.match(r"'(\\.|[^\\'])'", src[j:j+4]).group(0)) - 1
        elif src.startswith('//', j):
            j = src.index('\n', j)
        j += 1
    return src[m.start():j+1]

def r1_bytes(text):
    def conv(m):
        lit = eval('b"' + m.group(1) + '"')
        return '(&[' + ', '.join('0x%02xu8' % b for b in lit) + '])'
    return re.sub(r'\bb"((?:[^"\\]|\\.)*)"', conv, text)

FMT = {}
def r3_fmt(text):
    def conv(m):
        macro, sink, lit, args = m.group(1), m.group(2), m.group(3), m.group(4) or ''
        if macro == 'writeln': lit = lit + '\\n'
        h = hashlib.sha1(lit.encode()).hexdigest()[:8]
        FMT[h] = (lit, args)
        return f'fmt_{h}({sink}{args})'
    return re.sub(r'\b(write|writeln)!\(\s*(\w+)\s*,\s*"((?:[^"\\]|\\.)*)"((?:\s*,[^()]*(?:\([^()]*\)[^()]*)*)?)\)', conv, text)

def r2_loops(text):
    k = [0]
    def conv(m):
        k[0] += 1
        ind, pat, seq = m.group(1), m.group(2).strip(), m.group(3).strip()
        idx = f'__k{k[0]}'
        seq2 = re.sub(r'\.iter\(\)(\.enumerate\(\))?$', '', seq)
        enum = seq.endswith('.enumerate()')
        binds = []
        if enum:
            mm = re.match(r'\((\w+),\s*&?(\w+)\)', pat)
            binds = [f'let {mm.group(1)} = {idx};', f'let {mm.group(2)} = {seq2}[{idx}];']
        else:
            v = pat.lstrip('&')
            ref = '' if pat.startswith('&') else '&'
            binds = [f'let {v} = {ref}{seq2}[{idx}];']
        return (f'{ind}let mut {idx}: usize = 0;\n{ind}while {idx} < {seq2}.len()\n{ind}    /*LOOP{k[0]}*/\n{ind}{{\n' +
                ''.join(f'{ind}    {b}\n' for b in binds) + f'{ind}    {idx} += 1;')
    return re.sub(r'^([ \t]*)for (.+?) in ([\w\.\(\)]+) \{', conv, text, flags=re.M)

def r4_sink(text):
    text = re.sub(r'&mut dyn Write', '&mut Sink', text)
    text = re.sub(r'-> Result<\(\)>', '-> (r: Result<()>)', text)
    return text

for name in sys.argv[1:]:
    t = cut_fn(SRC, name)
    t = re.sub(r'^\s*//.*\n', '', t, flags=re.M)
    t = r1_bytes(t); t = r3_fmt(t); t = r2_loops(t); t = r4_sink(t)
    print(t); print()
print('// FMT shims needed:', FMT, file=sys.stderr)
