use vstd::prelude::*;
verus! {

pub spec const LP: u8 = 0x28;
pub spec const RP: u8 = 0x29;
pub spec const BS: u8 = 0x5c;
pub spec const CR: u8 = 0x0d;

// height of the writer's parenthesis stack after processing s[0..i]
pub open spec fn h(s: Seq<u8>, i: int) -> int decreases i {
    if i <= 0 { 0 } else {
        let p = h(s, i - 1);
        let c = s[i - 1];
        if c == LP { p + 1 } else if c == RP && p > 0 { p - 1 } else { p }
    }
}
// suffix minimum of h over [i, n]
pub open spec fn m(s: Seq<u8>, i: int) -> int decreases s.len() - i {
    if i >= s.len() { h(s, s.len() as int) } else { let r = m(s, i + 1); if h(s, i) < r { h(s, i) } else { r } }
}
// escape decision of the writer (first pass + leftover stack), expressed by heights
pub open spec fn esc(s: Seq<u8>, k: int) -> bool {
    let c = s[k];
    c == BS || c == CR || (c == RP && h(s, k) == 0) || (c == LP && m(s, k + 1) == h(s, k + 1))
}
pub open spec fn piece(s: Seq<u8>, k: int) -> Seq<u8> {
    if esc(s, k) { seq![BS, if s[k] == CR { 0x72u8 } else { s[k] }] } else { seq![s[k]] }
}
pub open spec fn render(s: Seq<u8>, i: int) -> Seq<u8> decreases s.len() - i {
    if i >= s.len() { seq![] } else { piece(s, i) + render(s, i + 1) }
}

// ISO 32000-1 7.3.4.2 literal string body decoder (only the escapes the writer can emit are spelled out;
// the other escape forms are irrelevant to the round trip and are mapped to the literal character here)
pub open spec fn dec(inp: Seq<u8>, depth: int) -> Option<(Seq<u8>, Seq<u8>)> decreases inp.len() {
    if inp.len() == 0 { None }
    else if inp[0] == BS {
        if inp.len() < 2 { None } else {
            let e = inp[1];
            let ch = if e == 0x72 { CR } else { e };
            match dec(inp.subrange(2, inp.len() as int), depth) {
                Some((out, rest)) => Some((seq![ch] + out, rest)),
                None => None,
            }
        }
    } else if inp[0] == RP && depth == 0 { Some((seq![], inp.subrange(1, inp.len() as int))) }
    else {
        let d2 = if inp[0] == LP { depth + 1 } else if inp[0] == RP { depth - 1 } else { depth };
        match dec(inp.subrange(1, inp.len() as int), d2) {
            Some((out, rest)) => Some((seq![inp[0]] + out, rest)),
            None => None,
        }
    }
}

proof fn lemma_h_nonneg(s: Seq<u8>, i: int)
    ensures h(s, i) >= 0
    decreases i
{ if i > 0 { lemma_h_nonneg(s, i - 1); } }

proof fn lemma_m_bounds(s: Seq<u8>, i: int)
    requires 0 <= i <= s.len()
    ensures 0 <= m(s, i) <= h(s, i)
    decreases s.len() - i
{
    lemma_h_nonneg(s, i);
    lemma_h_nonneg(s, s.len() as int);
    if i < s.len() { lemma_m_bounds(s, i + 1); }
}

pub proof fn lemma_lit_roundtrip(s: Seq<u8>, i: int, rest: Seq<u8>)
    requires 0 <= i <= s.len()
    ensures dec(render(s, i) + seq![RP] + rest, h(s, i) - m(s, i)) == Some((s.subrange(i, s.len() as int), rest))
    decreases s.len() - i
{
    let n = s.len() as int;
    lemma_m_bounds(s, i);
    if i == n {
        let inp = render(s, i) + seq![RP] + rest;
        assert(render(s, i) == Seq::<u8>::empty());
        assert(inp == seq![RP] + rest);
        assert(inp.subrange(1, inp.len() as int) == rest);
        assert(s.subrange(i, n) == Seq::<u8>::empty());
    } else {
        lemma_lit_roundtrip(s, i + 1, rest);
        lemma_m_bounds(s, i + 1);
        lemma_h_nonneg(s, i);
        let tail = render(s, i + 1) + seq![RP] + rest;
        let inp = render(s, i) + seq![RP] + rest;
        let c = s[i];
        let d = h(s, i) - m(s, i);
        let d1 = h(s, i + 1) - m(s, i + 1);
        assert(inp == piece(s, i) + tail);
        assert(s.subrange(i, n) == seq![c] + s.subrange(i + 1, n));
        if esc(s, i) {
            assert(inp.subrange(2, inp.len() as int) == tail);
            assert(inp[0] == BS);
            assert(d == d1);
        } else {
            assert(inp.subrange(1, inp.len() as int) == tail);
            assert(inp[0] == c);
            if c == RP { assert(h(s, i) > 0); assert(d >= 1); assert(d1 == d - 1); }
            else if c == LP { assert(d1 == d + 1); }
            else { assert(d1 == d); }
        }
    }
}

pub proof fn theorem_lit(s: Seq<u8>, rest: Seq<u8>)
    ensures dec(render(s, 0) + seq![RP] + rest, 0) == Some((s, rest))
{
    lemma_lit_roundtrip(s, 0, rest);
    lemma_m_bounds(s, 0);
    assert(h(s, 0) == 0);
    assert(s.subrange(0, s.len() as int) == s);
}
}
fn main() {}
