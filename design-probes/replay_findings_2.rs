use lopdf::content::*;
#[test]
fn inline_image_reencode() {
    let input = b"q BI /W 2 /H 2 /CS /Gray /BPC 8\nID\nabcd\nEI Q";
    let c = Content::decode(input).unwrap();
    println!("OPS1: {:?}", c.operations.iter().map(|o| (o.operator.clone(), o.operands.len())).collect::<Vec<_>>());
    let e = c.encode().unwrap();
    println!("ENC: {:?}", String::from_utf8_lossy(&e));
    let c2 = Content::decode(&e);
    println!("OPS2: {:?}", c2.map(|c| c.operations.iter().map(|o| (o.operator.clone(), o.operands.clone())).collect::<Vec<_>>()));
}
#[test]
fn content_tokens() {
    // operand boundary cases
    for ops in [vec![Operation::new("Tj", vec![lopdf::Object::Name(b"".to_vec()), lopdf::Object::Integer(1)])],
                vec![Operation::new("n", vec![]), Operation::new("ull", vec![])],
                vec![Operation::new("f", vec![lopdf::Object::Real(1e19)])],
                vec![Operation::new("true", vec![])],
    ] {
        let c = Content { operations: ops.clone() };
        let e = c.encode().unwrap();
        let d = Content::decode(&e).unwrap();
        println!("{:?} -> {:?} -> {:?}", ops, String::from_utf8_lossy(&e), d.operations);
    }
}
