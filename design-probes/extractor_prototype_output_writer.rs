use vstd::prelude::*;
verus! {
pub struct IoError;
pub type Result<T> = core::result::Result<T, IoError>;
#[verifier::external_body]
pub struct Sink { inner: Vec<u8> }
impl Sink {
    #[verifier::external_body]
    pub fn write_all(&mut self, data: &[u8]) -> (r: Result<()>) { unimplemented!() }
}
pub assume_specification<T: core::cmp::PartialEq> [<[T]>::contains] (s: &[T], x: &T) -> (r: bool);
pub enum StringFormat { Literal, Hexadecimal }
pub struct Dictionary { pub entries: Vec<(Vec<u8>, Object)> }
pub struct Stream { pub dict: Dictionary, pub content: Vec<u8> }
pub enum Object { Null, Boolean(bool), Integer(i64), Real(f32), Name(Vec<u8>), String(Vec<u8>, StringFormat), Array(Vec<Object>), Dictionary(Dictionary), Stream(Stream), Reference((u32, u16)) }
use Object::*;
#[verifier::external_body] fn fmt_5d8d5a3f(file: &mut Sink, byte: u8) -> (r: Result<()>) { unimplemented!() }
#[verifier::external_body] fn fmt_8e39c88f(file: &mut Sink, byte: u8) -> (r: Result<()>) { unimplemented!() }
#[verifier::external_body] fn fmt_bf21a9e8(file: &mut Sink, v: &f32) -> (r: Result<()>) { unimplemented!() }
#[verifier::external_body] fn fmt_c88aae09(file: &mut Sink, a: u32, b: u16) -> (r: Result<()>) { unimplemented!() }
#[verifier::external_body] fn itoa_i64(v: i64) -> (r: Vec<u8>) { unimplemented!() }
#[verifier::external_body] fn write_dictionary(file: &mut Sink, d: &Dictionary) -> (r: Result<()>) { unimplemented!() }
    fn need_separator(object: &Object) -> bool {
        matches!(*object, Null | Boolean(_) | Integer(_) | Real(_) | Reference(_))
    }

    fn need_end_separator(object: &Object) -> bool {
        matches!(
            *object,
            Null | Boolean(_) | Integer(_) | Real(_) | Name(_) | Reference(_) | Object::Stream(_)
        )
    }

    fn write_name(file: &mut Sink, name: &[u8]) -> (r: Result<()>) {
        file.write_all((&[0x2fu8]))?;
        let mut __k1: usize = 0;
        while __k1 < name.len()
            invariant __k1 <= name.len(),
            decreases name.len() - __k1,
        {
            let byte = name[__k1];
            __k1 += 1;
            if (&[0x20u8, 0x09u8, 0x0au8, 0x0du8, 0x0cu8, 0x28u8, 0x29u8, 0x3cu8, 0x3eu8, 0x5bu8, 0x5du8, 0x7bu8, 0x7du8, 0x2fu8, 0x25u8, 0x23u8]).contains(&byte) || !(33..=126).contains(&byte) {
                fmt_5d8d5a3f(file, byte)?;
            } else {
                file.write_all(&[byte])?;
            }
        }
        Ok(())
    }

    fn write_string(file: &mut Sink, text: &[u8], format: &StringFormat) -> (r: Result<()>) {
        match *format {
            StringFormat::Literal => {
                let mut escape_indice = Vec::new();
                let mut parentheses = Vec::new();
                let mut __k1: usize = 0;
                while __k1 < text.len()
                    invariant __k1 <= text.len(),
                    decreases text.len() - __k1,
                {
                    let index = __k1;
                    let byte = text[__k1];
                    __k1 += 1;
                    match byte {
                        b'(' => parentheses.push(index),
                        b')' => {
                            if !parentheses.is_empty() {
                                parentheses.pop();
                            } else {
                                escape_indice.push(index);
                            }
                        }
                        b'\\' | b'\r' => escape_indice.push(index),
                        _ => continue,
                    }
                }
                escape_indice.append(&mut parentheses);

                file.write_all((&[0x28u8]))?;
                if !escape_indice.is_empty() {
                    let mut __k2: usize = 0;
                    while __k2 < text.len()
                        invariant __k2 <= text.len(),
                        decreases text.len() - __k2,
                    {
                        let index = __k2;
                        let byte = text[__k2];
                        __k2 += 1;
                        if escape_indice.contains(&index) {
                            file.write_all((&[0x5cu8]))?;
                            file.write_all(&[if byte == b'\r' { b'r' } else { byte }])?;
                        } else {
                            file.write_all(&[byte])?;
                        }
                    }
                } else {
                    file.write_all(text)?;
                }
                file.write_all((&[0x29u8]))?;
            }
            StringFormat::Hexadecimal => {
                file.write_all((&[0x3cu8]))?;
                let mut __k3: usize = 0;
                while __k3 < text.len()
                    invariant __k3 <= text.len(),
                    decreases text.len() - __k3,
                {
                    let byte = text[__k3];
                    __k3 += 1;
                    fmt_8e39c88f(file, byte)?;
                }
                file.write_all((&[0x3eu8]))?;
            }
        }
        Ok(())
    }

    fn write_array(file: &mut Sink, array: &[Object]) -> (r: Result<()>)
    decreases array@
{
        file.write_all((&[0x5bu8]))?;
        let mut first = true;
        let mut __k1: usize = 0;
        while __k1 < array.len()
            invariant __k1 <= array.len(),
            decreases array.len() - __k1,
        {
            let object = &array[__k1];
            __k1 += 1;
            if first {
                first = false;
            } else if need_separator(object) {
                file.write_all((&[0x20u8]))?;
            }
            write_object(file, object)?;
        }
        file.write_all((&[0x5du8]))?;
        Ok(())
    }

    fn write_stream(file: &mut Sink, stream: &Stream) -> (r: Result<()>) {
        write_dictionary(file, &stream.dict)?;
        file.write_all((&[0x73u8, 0x74u8, 0x72u8, 0x65u8, 0x61u8, 0x6du8, 0x0au8]))?;
        file.write_all(&stream.content)?;
        file.write_all((&[0x0au8, 0x65u8, 0x6eu8, 0x64u8, 0x73u8, 0x74u8, 0x72u8, 0x65u8, 0x61u8, 0x6du8]))?;
        Ok(())
    }

    fn write_object(file: &mut Sink, object: &Object) -> (r: Result<()>)
    decreases object
{
        match object {
            Null => file.write_all((&[0x6eu8, 0x75u8, 0x6cu8, 0x6cu8])),
            Boolean(value) => {
                if *value {
                    file.write_all((&[0x74u8, 0x72u8, 0x75u8, 0x65u8]))
                } else {
                    file.write_all((&[0x66u8, 0x61u8, 0x6cu8, 0x73u8, 0x65u8]))
                }
            }
            Integer(value) => {
                file.write_all(itoa_i64(*value).as_slice())
            }
            Real(value) => fmt_bf21a9e8(file, value),
            Name(name) => write_name(file, name),
            String(text, format) => write_string(file, text, format),
            Array(array) => write_array(file, array),
            Object::Dictionary(dict) => write_dictionary(file, dict),
            Object::Stream(stream) => write_stream(file, stream),
            Reference(id) => fmt_c88aae09(file, id.0, id.1),
        }
    }


}
fn main() {}
