use lopdf::*;
use lopdf::content::*;
fn cu<F: FnOnce() -> R, R>(f: F) -> std::thread::Result<R> { std::panic::catch_unwind(std::panic::AssertUnwindSafe(f)) }

fn objstm(id: u32, inner: &[(u32, &str)]) -> String {
    let mut idx = String::new(); let mut body = String::new();
    for (n, s) in inner { idx.push_str(&format!("{} {} ", n, body.len())); body.push_str(s); body.push(' '); }
    let content = format!("{}{}", idx, body);
    format!("{} 0 obj\n<</Type/ObjStm/N {}/First {}/Length {}>>stream\n{}\nendstream\nendobj\n", id, inner.len(), idx.len(), content.len(), content)
}
#[test]
fn f12_objstm_precedence() {
    // rev1: objstm 10 holds object 5 = (old); rev2: objstm 20 holds object 5 = (new). single xref stream listing both containers, 5 -> compressed in 20
    let mut f = String::from("%PDF-1.5\n");
    let o10 = f.len(); f.push_str(&objstm(10, &[(5, "(old)")]));
    let o20 = f.len(); f.push_str(&objstm(20, &[(5, "(new)")]));
    let o1 = f.len(); f.push_str("1 0 obj\n<</Type/Catalog>>\nendobj\n");
    let xr = f.len();
    // xref stream with W [1 4 2], entries for 0,1,5,10,20,21
    let mut rows: Vec<u8> = vec![];
    let mut push = |t: u8, a: u32, b: u16| { rows.push(t); rows.extend(a.to_be_bytes()); rows.extend(b.to_be_bytes()); };
    push(0,0,65535); push(1,o1 as u32,0); push(2,20,0); push(1,o10 as u32,0); push(1,o20 as u32,0); push(1,xr as u32,0);
    let mut bytes = f.into_bytes();
    bytes.extend(format!("21 0 obj\n<</Type/XRef/Size 22/Root 1 0 R/W[1 4 2]/Index[0 2 5 1 10 1 20 2]/Length {}>>stream\n", rows.len()).as_bytes());
    bytes.extend(&rows);
    bytes.extend(format!("\nendstream\nendobj\nstartxref\n{}\n%%EOF", xr).as_bytes());
    let mut seen = std::collections::BTreeMap::new();
    for _ in 0..200 {
        let d = Document::load_mem(&bytes).unwrap();
        *seen.entry(format!("{:?}", d.objects.get(&(5,0)))).or_insert(0) += 1;
    }
    println!("F12 object 5 over 200 loads: {:?} (xref says container 20 => (new))", seen);
}
#[test]
fn f20_inline_image_overflow() {
    let r = cu(|| Content::decode(b"BI /W 9223372036854775807 /H 2 /CS /RGB /BPC 8 ID abc EI").map(|c| c.operations.len()));
    println!("F20 -> {:?}", r.as_ref().map_err(|_| "PANIC"));
}
#[test]
fn f22_colorspace_empty() {
    let mut d = Document::with_version("1.5");
    d.objects.insert((1,0), Object::Dictionary(dictionary!{"Type" => "Page", "Resources" => dictionary!{"XObject" => dictionary!{"I" => (2,0)}}}));
    d.objects.insert((2,0), Object::Stream(Stream::new(dictionary!{"Subtype" => "Image", "Width" => 1, "Height" => 1, "ColorSpace" => Vec::<Object>::new()}, vec![0])));
    let r = cu(|| d.get_page_images((1,0)).map(|v| v.len()));
    println!("F22 -> {:?}", r.as_ref().map_err(|_| "PANIC"));
}
#[test]
fn f24_named_dest() {
    let mut d = Document::with_version("1.5");
    d.objects.insert((1,0), Object::Dictionary(dictionary!{"Type" => "Catalog", "Outlines" => (2,0), "Dests" => (3,0)}));
    d.objects.insert((2,0), Object::Dictionary(dictionary!{}));
    d.objects.insert((3,0), Object::Dictionary(dictionary!{"Names" => vec![Object::string_literal("a"), Object::Dictionary(dictionary!{})]}));
    d.trailer.set("Root", (1,0));
    let r = cu(|| d.get_toc().map(|t| t.toc.len()));
    println!("F24 names value without /D -> {:?}", r.as_ref().map_err(|_| "PANIC"));
}
#[test]
fn f23_next_cycle() {
    let (tx, rx) = std::sync::mpsc::channel();
    std::thread::spawn(move || {
        let mut d = Document::with_version("1.5");
        d.objects.insert((1,0), Object::Dictionary(dictionary!{"Type" => "Catalog", "Outlines" => (2,0)}));
        d.objects.insert((2,0), Object::Dictionary(dictionary!{"First" => (3,0)}));
        d.objects.insert((3,0), Object::Dictionary(dictionary!{"Title" => Object::string_literal("t"), "Dest" => vec![Object::Reference((9,0)), Object::Name(b"Fit".to_vec())], "Next" => (3,0)}));
        d.trailer.set("Root", (1,0));
        let r = d.get_toc().map(|t| t.toc.len());
        let _ = tx.send(format!("{:?}", r));
    });
    match rx.recv_timeout(std::time::Duration::from_secs(3)) { Ok(s) => println!("F23 next-cycle -> {}", s), Err(_) => println!("F23 next-cycle -> HANG (>3s)") }
}
#[test]
fn f19_stream_dict_string() {
    let mut d = Document::with_version("1.5");
    d.objects.insert((1,0), Object::Stream(Stream::new(dictionary!{"Secret" => Object::string_literal("plaintext-in-stream-dict")}, b"body body body body".to_vec())));
    d.objects.insert((2,0), Object::string_literal("top level string value"));
    d.trailer.set("ID", Object::Array(vec![Object::string_literal("ABC"), Object::string_literal("DEF")]));
    d.max_id = 2;
    let st = EncryptionState::try_from(EncryptionVersion::V2 { document: &d, owner_password: "o", user_password: "u", key_length: 128, permissions: Permissions::all() }).unwrap();
    d.encrypt(&st).unwrap();
    println!("F19 after encrypt: stream dict = {:?}; obj2 changed = {}", d.objects[&(1,0)].as_stream().unwrap().dict, d.objects[&(2,0)] != Object::string_literal("top level string value"));
}
