use lopdf::content::*;
use lopdf::Object;
use std::time::Instant;
#[test]
fn bench_sweeps() {
    // 2-byte name payload sweep through Content encode/decode
    let t = Instant::now();
    let mut bad = 0u64; let mut n = 0u64;
    for a in 0..=255u8 { for b in 0..=255u8 {
        let c = Content { operations: vec![Operation::new("x", vec![Object::Name(vec![a,b])])] };
        let e = c.encode().unwrap();
        let d = Content::decode(&e).unwrap();
        n += 1;
        if d.operations.len() != 1 || d.operations[0].operands != vec![Object::Name(vec![a,b])] { bad += 1; }
    }}
    println!("NAME2 n={} bad={} in {:?}", n, bad, t.elapsed());
    let t = Instant::now();
    let mut bad = 0u64; let mut n = 0u64; let mut first = None;
    for a in 0..=255u8 { for b in 0..=255u8 {
        let c = Content { operations: vec![Operation::new("x", vec![Object::string_literal(vec![a,b])])] };
        let e = c.encode().unwrap();
        let d = Content::decode(&e).unwrap();
        n += 1;
        if d.operations.len() != 1 || d.operations[0].operands != vec![Object::string_literal(vec![a,b])] { bad += 1; if first.is_none() { first = Some((a,b)); } }
    }}
    println!("STR2 n={} bad={} first={:?} in {:?}", n, bad, first, t.elapsed());
    // f32 sample speed
    let t = Instant::now();
    let mut bad = 0u64; let mut n = 0u64; let mut firstbad = None;
    let mut bits = 0u32;
    while n < 2_000_000 {
        let v = f32::from_bits(bits);
        bits = bits.wrapping_add(2147);
        if !v.is_finite() { continue; }
        let c = Content { operations: vec![Operation::new("x", vec![Object::Real(v)])] };
        let e = c.encode().unwrap();
        let d = Content::decode(&e).unwrap();
        n += 1;
        let ok = d.operations.len() == 1 && d.operations[0].operands.len() == 1 && match &d.operations[0].operands[0] { Object::Real(r) => *r == v, Object::Integer(i) => (*i as f32) == v && v.fract() == 0.0, _ => false };
        if !ok { bad += 1; if firstbad.is_none() { firstbad = Some(v); } }
    }
    println!("F32 n={} bad={} first={:?} in {:?}", n, bad, firstbad, t.elapsed());
}
