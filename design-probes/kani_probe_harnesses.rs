#[cfg(kani)]
mod kani_probe {
    use crate::parser::{self, ParserInput};
    fn fake_cpuid(_leaf: u32, _sub: u32) -> std::arch::x86_64::CpuidResult {
        std::arch::x86_64::CpuidResult { eax: 0, ebx: 0, ecx: 0, edx: 0 }
    }
    #[kani::proof]
    #[kani::unwind(5)]
    #[kani::stub(std::arch::x86_64::__cpuid_count, fake_cpuid)]
    fn name_parse_2() {
        let b0: u8 = kani::any();
        let b1: u8 = kani::any();
        kani::assume(b0 > 32 && b0 < 127 && b0 != b'#');
        let buf = [b'/', b0, b1, b' '];
        let r = parser::name(ParserInput::new_extra(&buf[..], "k"));
        assert!(r.is_ok());
    }
    #[kani::proof]
    #[kani::unwind(8)]
    fn a85_nopanic_6() {
        let buf: [u8; 6] = kani::any();
        let _ = crate::Stream::a85_hook(&buf[..]);
    }
    #[kani::proof]
    fn pdfdoc_ascii_identity() {
        let b: u8 = kani::any();
        kani::assume(b >= 0x20 && b < 0x7f);
        assert!(crate::encodings::PDF_DOC_ENCODING[b as usize] == Some(b as u16));
    }
    #[kani::proof]
    fn tables_no_surrogates() {
        let b: u8 = kani::any();
        let t: u8 = kani::any();
        let tab = match t % 7 { 0 => &crate::encodings::MAC_ROMAN_ENCODING, 1 => &crate::encodings::MAC_EXPERT_ENCODING, 2 => &crate::encodings::WIN_ANSI_ENCODING,
            3 => &crate::encodings::STANDARD_ENCODING, 4 => &crate::encodings::EXPERT_ENCODING, 5 => &crate::encodings::SYMBOL_ENCODING, _ => &crate::encodings::PDF_DOC_ENCODING };
        if let Some(c) = tab[b as usize] { assert!(!(0xD800..=0xDFFF).contains(&c)); }
    }
    #[kani::proof]
    fn pdfdoc_ctrl_identity() {
        let b: u8 = kani::any();
        kani::assume(b < 0x80);
        assert!(crate::encodings::PDF_DOC_ENCODING[b as usize] == Some(b as u16));
    }
    #[kani::proof]
    fn paeth_all() {
        let a: u8 = kani::any(); let b: u8 = kani::any(); let c: u8 = kani::any();
        let mut cur = [0u8, 0u8];
        let prev = [c, b];
        cur[0] = a;
        // decode_row Paeth with bpp=1: cur[1] += paeth(cur[0] (after own decode), prev[1], prev[0])
        crate::filters::png::decode_row(crate::filters::png::FilterType::Paeth, 1, &prev, &mut cur);
        let a2 = cur[0] as i32; let b2 = b as i32; let c2 = c as i32;
        let p = a2 + b2 - c2; let pa = (p - a2).abs(); let pb = (p - b2).abs(); let pc = (p - c2).abs();
        let pr = if pa <= pb && pa <= pc { a2 } else if pb <= pc { b2 } else { c2 };
        assert!(cur[1] == (pr as u8));
    }
}
