use lopdf::*;
fn cu<F: FnOnce() -> R, R>(f: F) -> std::thread::Result<R> { std::panic::catch_unwind(std::panic::AssertUnwindSafe(f)) }
#[test]
fn f10_cmap_array_oob() {
    let cmap = b"/CIDInit /ProcSet findresource begin\n12 dict begin\nbegincmap\n/CMapType 2 def\n1 begincodespacerange\n<00> <FF>\nendcodespacerange\n1 beginbfrange\n<00> <05> [<0041> <0042>]\nendbfrange\nendcmap\nCMapName currentdict /CMap defineresource pop\nend\nend\n";
    let mut d = Document::with_version("1.5");
    d.objects.insert((1,0), Object::Stream(Stream::new(dictionary!{}, cmap.to_vec())));
    let font = dictionary!{"Type" => "Font", "ToUnicode" => (1,0)};
    let r = cu(|| { let e = font.get_font_encoding(&d).unwrap(); Document::decode_text(&e, &[5]).map(|s| s.len()) });
    println!("F10 -> {:?}", r.as_ref().map_err(|_| "PANIC"));
}
#[test]
fn f06b_decode_frame() {
    let r = cu(|| lopdf::filters::png::decode_frame(&[0u8, 1, 2], usize::MAX, 2).map(|v| v.len()).map_err(|e| e.to_string()));
    println!("F06b -> {:?}", r.as_ref().map_err(|_| "PANIC"));
}
