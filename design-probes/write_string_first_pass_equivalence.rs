use vstd::prelude::*;
verus! {
pub spec const LP: u8 = 0x28;
pub spec const RP: u8 = 0x29;
pub spec const BS: u8 = 0x5c;
pub spec const CR: u8 = 0x0d;

pub open spec fn h(s: Seq<u8>, i: int) -> int decreases i {
    if i <= 0 { 0 } else {
        let p = h(s, i - 1);
        let c = s[i - 1];
        if c == LP { p + 1 } else if c == RP && p > 0 { p - 1 } else { p }
    }
}
pub open spec fn m(s: Seq<u8>, i: int) -> int decreases s.len() - i {
    if i >= s.len() { h(s, s.len() as int) } else { let r = m(s, i + 1); if h(s, i) < r { h(s, i) } else { r } }
}
pub open spec fn esc(s: Seq<u8>, k: int) -> bool {
    let c = s[k];
    c == BS || c == CR || (c == RP && h(s, k) == 0) || (c == LP && m(s, k + 1) == h(s, k + 1))
}
// "the '(' at k is still open after processing s[0..i)": every later height stays above h(k)
pub open spec fn open_at(s: Seq<u8>, k: int, i: int) -> bool {
    0 <= k < i && s[k] == LP && forall|j: int| k < j <= i ==> h(s, j) > h(s, k)
}
// first-pass escapes (everything except leftover '(')
pub open spec fn esc1(s: Seq<u8>, k: int) -> bool {
    let c = s[k];
    c == BS || c == CR || (c == RP && h(s, k) == 0)
}

proof fn lemma_h_nonneg(s: Seq<u8>, i: int) ensures h(s, i) >= 0 decreases i { if i > 0 { lemma_h_nonneg(s, i - 1); } }

// m(s,k+1) == h(s,k+1)  <==>  all heights in (k, n] are >= h(k+1)
proof fn lemma_m_char(s: Seq<u8>, i: int, v: int)
    requires 0 <= i <= s.len()
    ensures (m(s, i) >= v) <==> (forall|j: int| i <= j <= s.len() ==> h(s, j) >= v)
    decreases s.len() - i
{
    if i < s.len() {
        lemma_m_char(s, i + 1, v);
        if forall|j: int| i <= j <= s.len() ==> h(s, j) >= v {
            assert(h(s, i) >= v);
            assert(forall|j: int| i + 1 <= j <= s.len() ==> h(s, j) >= v);
        }
        if m(s, i) >= v {
            assert forall|j: int| i <= j <= s.len() implies h(s, j) >= v by { if j > i { } }
        }
    } else {
        if m(s, i) >= v { assert forall|j: int| i <= j <= s.len() implies h(s, j) >= v by { assert(j == s.len()); } }
    }
}
proof fn lemma_m_le(s: Seq<u8>, i: int) requires 0 <= i <= s.len() ensures m(s, i) <= h(s, i) decreases s.len() - i
{ if i < s.len() { lemma_m_le(s, i + 1); } }

// at the end, "still open" is exactly the leftover-'(' escape rule
proof fn lemma_open_is_esc(s: Seq<u8>, k: int)
    requires 0 <= k < s.len(), s[k] == LP
    ensures open_at(s, k, s.len() as int) <==> (m(s, k + 1) == h(s, k + 1))
{
    let n = s.len() as int;
    let v = h(s, k + 1);
    assert(v == h(s, k) + 1);
    lemma_m_char(s, k + 1, v);
    lemma_m_le(s, k + 1);
    if open_at(s, k, n) {
        assert forall|j: int| k + 1 <= j <= n implies h(s, j) >= v by { assert(h(s, j) > h(s, k)); }
    }
    if m(s, k + 1) == v {
        assert forall|j: int| k < j <= n implies h(s, j) > h(s, k) by { assert(h(s, j) >= v); }
    }
}

// ---- the writer's first pass (writer.rs:412-428 after R1, R2) ----
fn first_pass(text: &[u8]) -> (escape_indice: Vec<usize>)
    ensures forall|k: int| 0 <= k < text@.len() ==> (escape_indice@.contains(k as usize) <==> esc(text@, k)),
            forall|t: int| 0 <= t < escape_indice@.len() ==> escape_indice@[t] < text@.len(),
{
    let mut escape_indice: Vec<usize> = Vec::new();
    let mut parentheses: Vec<usize> = Vec::new();
    let mut index: usize = 0;
    while index < text.len()
        invariant
            index <= text@.len(),
            parentheses@.len() == h(text@, index as int),
            // the stack holds exactly the still-open '(' , bottom to top, at position = their height
            forall|t: int| 0 <= t < parentheses@.len() ==> open_at(text@, #[trigger] parentheses@[t] as int, index as int) && h(text@, parentheses@[t] as int) == t,
            forall|k: int| open_at(text@, k, index as int) ==> 0 <= h(text@, k) < parentheses@.len() && parentheses@[h(text@, k)] == k,
            forall|k: int| 0 <= k < index ==> (escape_indice@.contains(k as usize) <==> esc1(text@, k)),
            forall|t: int| 0 <= t < escape_indice@.len() ==> escape_indice@[t] < index,
        decreases text@.len() - index
    {
        let byte = text[index];
        let ghost i = index as int;
        let ghost old_p = parentheses@;
        let ghost old_e = escape_indice@;
        proof { lemma_h_nonneg(text@, i); }
        index += 1;
        if byte == 0x28 {
            parentheses.push(index - 1);
            proof {
                assert forall|k: int| open_at(text@, k, i + 1) implies 0 <= h(text@, k) < parentheses@.len() && parentheses@[h(text@, k)] == k by {
                    if k < i { assert(open_at(text@, k, i)); assert(h(text@, k) < h(text@, i)); }
                }
                assert forall|t: int| 0 <= t < parentheses@.len() implies open_at(text@, #[trigger] parentheses@[t] as int, i + 1) && h(text@, parentheses@[t] as int) == t by {
                    if t < old_p.len() { assert(open_at(text@, old_p[t] as int, i)); }
                }
                assert forall|k: int| 0 <= k < i + 1 implies (escape_indice@.contains(k as usize) <==> esc1(text@, k)) by {}
            }
        } else if byte == 0x29 {
            if !(parentheses.len() == 0) {
                parentheses.pop();
                proof {
                    assert forall|k: int| open_at(text@, k, i + 1) implies 0 <= h(text@, k) < parentheses@.len() && parentheses@[h(text@, k)] == k by {
                        assert(open_at(text@, k, i));
                        assert(h(text@, i + 1) > h(text@, k));
                    }
                    assert forall|t: int| 0 <= t < parentheses@.len() implies open_at(text@, #[trigger] parentheses@[t] as int, i + 1) && h(text@, parentheses@[t] as int) == t by {
                        assert(open_at(text@, old_p[t] as int, i));
                    }
                }
            } else {
                escape_indice.push(index - 1);
                proof {
                    assert forall|k: int| #[trigger] open_at(text@, k, i + 1) implies false by { assert(open_at(text@, k, i)); }
                    assert forall|k: int| 0 <= k < i + 1 implies (escape_indice@.contains(k as usize) <==> esc1(text@, k)) by {
                        if k < i { if old_e.contains(k as usize) { let w = choose|w: int| 0 <= w < old_e.len() && old_e[w] == k as usize; assert(escape_indice@[w] == k as usize); }
                                   if escape_indice@.contains(k as usize) { let w = choose|w: int| 0 <= w < escape_indice@.len() && escape_indice@[w] == k as usize; if w < old_e.len() { assert(old_e[w] == k as usize); } } }
                        else { assert(escape_indice@[old_e.len() as int] == k as usize); }
                    }
                }
            }
        } else if byte == 0x5c || byte == 0x0d {
            escape_indice.push(index - 1);
            proof {
                assert forall|k: int| open_at(text@, k, i + 1) implies 0 <= h(text@, k) < parentheses@.len() && parentheses@[h(text@, k)] == k by { assert(open_at(text@, k, i)); }
                assert forall|t: int| 0 <= t < parentheses@.len() implies open_at(text@, #[trigger] parentheses@[t] as int, i + 1) && h(text@, parentheses@[t] as int) == t by { assert(open_at(text@, old_p[t] as int, i)); }
                assert forall|k: int| 0 <= k < i + 1 implies (escape_indice@.contains(k as usize) <==> esc1(text@, k)) by {
                    if k < i { if old_e.contains(k as usize) { let w = choose|w: int| 0 <= w < old_e.len() && old_e[w] == k as usize; assert(escape_indice@[w] == k as usize); }
                               if escape_indice@.contains(k as usize) { let w = choose|w: int| 0 <= w < escape_indice@.len() && escape_indice@[w] == k as usize; if w < old_e.len() { assert(old_e[w] == k as usize); } } }
                    else { assert(escape_indice@[old_e.len() as int] == k as usize); }
                }
            }
        } else {
            proof {
                assert forall|k: int| open_at(text@, k, i + 1) implies 0 <= h(text@, k) < parentheses@.len() && parentheses@[h(text@, k)] == k by { assert(open_at(text@, k, i)); }
                assert forall|t: int| 0 <= t < parentheses@.len() implies open_at(text@, #[trigger] parentheses@[t] as int, i + 1) && h(text@, parentheses@[t] as int) == t by { assert(open_at(text@, old_p[t] as int, i)); }
            }
            continue;
        }
    }
    let ghost e1 = escape_indice@;
    let ghost p = parentheses@;
    escape_indice.append(&mut parentheses);
    proof {
        let n = text@.len() as int;
        assert(escape_indice@ =~= e1 + p);
        assert forall|k: int| 0 <= k < n implies (escape_indice@.contains(k as usize) <==> esc(text@, k)) by {
            if text@[k] == LP { lemma_open_is_esc(text@, k); }
            if escape_indice@.contains(k as usize) {
                let w = choose|w: int| 0 <= w < escape_indice@.len() && escape_indice@[w] == k as usize;
                if w < e1.len() { assert(e1[w] == k as usize); assert(e1.contains(k as usize)); }
                else { assert(p[w - e1.len()] == k as usize); assert(open_at(text@, p[w - e1.len()] as int, n)); }
            }
            if esc(text@, k) {
                if esc1(text@, k) { let w = choose|w: int| 0 <= w < e1.len() && e1[w] == k as usize; assert(escape_indice@[w] == k as usize); }
                else { assert(open_at(text@, k, n)); let t = h(text@, k); assert(p[t] == k); assert(escape_indice@[e1.len() + t] == k as usize); }
            }
        }
    }
    escape_indice
}
}
fn main() {}
