use lopdf::*;
use lopdf::content::*;
fn catch_unwind<F: FnOnce() -> R, R>(f: F) -> std::thread::Result<R> { std::panic::catch_unwind(std::panic::AssertUnwindSafe(f)) }

fn rt(doc: &mut Document) -> Result<Document> {
    let mut buf = Vec::new();
    doc.save_to(&mut buf).unwrap();
    Document::load_mem(&buf)
}
fn base() -> Document {
    let mut d = Document::with_version("1.5");
    d.reference_table.cross_reference_type = lopdf::xref::XrefType::CrossReferenceTable;
    d
}

#[test]
fn a_real_big() {
    let mut d = base();
    d.objects.insert((1,0), Object::Real(1e19));
    d.objects.insert((2,0), Object::Real(0.5));
    d.max_id = 2;
    let l = rt(&mut d).unwrap();
    println!("REAL_BIG objects after load: {:?}", l.objects);
}
#[test]
fn b_deep_parens() {
    let mut d = base();
    let mut s = vec![b'('; 101]; s.extend(vec![b')'; 101]);
    d.objects.insert((1,0), Object::string_literal(s));
    d.max_id = 1;
    let l = rt(&mut d).unwrap();
    println!("DEEP_PARENS present after load: {}", l.objects.contains_key(&(1,0)));
}
#[test]
fn c_a85_overflow() {
    let st = Stream::new(dictionary!{"Filter" => "ASCII85Decode"}, b"s8W-\"~>".to_vec());
    let r = catch_unwind(|| st.decompressed_content().map(|v| v.len()));
    println!("A85 s8W-\" -> {:?}", r.as_ref().map_err(|_| "PANIC"));
    let st = Stream::new(dictionary!{"Filter" => "ASCII85Decode"}, b"s8W~>".to_vec());
    let r = catch_unwind(|| st.decompressed_content().map(|v| v.len()));
    println!("A85 partial s8W -> {:?}", r.as_ref().map_err(|_| "PANIC"));
}
#[test]
fn d_predictor_overflow() {
    let st = Stream::new(dictionary!{"Filter" => "ASCII85Decode", "DecodeParms" => dictionary!{"Predictor" => 12, "Colors" => i64::MAX}}, b"~>".to_vec());
    // ascii85 doesn't apply predictor; use LZW with empty input
    let st2 = Stream::new(dictionary!{"Filter" => "LZWDecode", "DecodeParms" => dictionary!{"Predictor" => 12, "Colors" => i64::MAX}}, vec![0x80, 0x0b, 0x60, 0x50, 0x22, 0x0c, 0x0c, 0x85, 0x01]);
    let _ = st;
    let r = catch_unwind(|| st2.decompressed_content().map(|v| v.len()));
    println!("PREDICTOR colors=i64::MAX -> {:?}", r.as_ref().map_err(|_| "PANIC"));
    let st3 = Stream::new(dictionary!{"Filter" => "LZWDecode", "DecodeParms" => dictionary!{"Predictor" => 12, "Columns" => i64::MAX, "Colors" => 2}}, vec![0x80, 0x0b, 0x60, 0x50, 0x22, 0x0c, 0x0c, 0x85, 0x01]);
    let r = catch_unwind(|| st3.decompressed_content().map(|v| v.len()));
    println!("PREDICTOR columns=i64::MAX colors=2 -> {:?}", r.as_ref().map_err(|_| "PANIC"));
}
#[test]
fn g_png_avg() {
    use lopdf::filters::png::*;
    let prev = [0u8, 0u8];
    let mut cur = [2u8, 0u8];
    decode_row(FilterType::Avg, 1, &prev, &mut cur);
    println!("PNG AVG cur={:?} (PNG spec expects [2,1])", cur);
}
#[test]
fn h_decodeparms_array() {
    use lopdf::filters::png::*;
    // one row of 2 bytes with Up filter
    let raw = vec![2u8, 5, 6, 2, 1, 1];
    use std::io::Write;
    let mut e = flate2::write::ZlibEncoder::new(Vec::new(), flate2::Compression::default());
    e.write_all(&raw).unwrap();
    let z = e.finish().unwrap();
    let parms = dictionary!{"Predictor" => 12, "Columns" => 2};
    let s1 = Stream::new(dictionary!{"Filter" => "FlateDecode", "DecodeParms" => parms.clone()}, z.clone());
    let s2 = Stream::new(dictionary!{"Filter" => vec![Object::Name(b"FlateDecode".to_vec())], "DecodeParms" => vec![Object::Dictionary(parms)]}, z);
    println!("DECODEPARMS dict -> {:?} ; array -> {:?}", s1.decompressed_content().unwrap(), s2.decompressed_content().unwrap());
    let _ = FilterType::Up;
}
#[test]
fn j_text_string_ctrl() {
    for s in ["a\nb", "\t", "\u{18}", "\u{7f}", "abc"] {
        let o = text_string(s);
        println!("TEXT_STRING {:?} -> {:?}", s, decode_text_string(&o));
    }
}
#[test] #[ignore]
fn k_size_hint() {
    let mut d = base();
    let pages_id = (1,0);
    d.objects.insert((3,0), Object::Dictionary(dictionary!{"Type" => "Page", "Parent" => pages_id}));
    d.objects.insert((4,0), Object::Dictionary(dictionary!{"Type" => "Pages", "Parent" => pages_id, "Kids" => vec![], "Count" => 1_000_000_000_000_000i64}));
    d.objects.insert(pages_id, Object::Dictionary(dictionary!{"Type" => "Pages", "Kids" => vec![Object::Reference((3,0)), Object::Reference((4,0))], "Count" => 1}));
    d.objects.insert((2,0), Object::Dictionary(dictionary!{"Type" => "Catalog", "Pages" => pages_id}));
    d.trailer.set("Root", (2,0));
    d.max_id = 4;
    let r = catch_unwind(|| d.get_pages().len());
    println!("SIZE_HINT get_pages -> {:?}", r.as_ref().map_err(|_| "PANIC"));
}
#[test]
fn m_delete_leftovers() {
    let mut d = base();
    d.objects.insert((1,0), Object::Array(vec![Object::Reference((5,0)), Object::Reference((5,0))]));
    d.objects.insert((2,0), Object::Stream(Stream::new(dictionary!{"Res" => (5,0)}, vec![1])));
    d.objects.insert((5,0), Object::Integer(7));
    d.trailer.set("A", (1,0)); d.trailer.set("B", (2,0)); d.trailer.set("Info", (5,0));
    d.max_id = 5;
    d.delete_object((5,0));
    println!("DELETE leftovers: arr={:?} stream_dict={:?} trailer={:?}", d.objects[&(1,0)], d.objects[&(2,0)], d.trailer);
}
#[test]
fn n_renumber_dangling() {
    let mut d = base();
    d.objects.insert((1,0), Object::Array(vec![Object::Reference((2,0)), Object::Reference((5,0))]));
    d.objects.insert((5,0), Object::Integer(7));
    d.trailer.set("A", (1,0));
    d.max_id = 5;
    d.renumber_objects();
    println!("RENUMBER dangling: {:?} max_id={}", d.objects, d.max_id);
    let mut e = base();
    let r = catch_unwind(move || { e.renumber_objects_with(0); e.max_id });
    println!("RENUMBER empty start 0 -> {:?}", r.as_ref().map_err(|_| "PANIC"));
}
#[test]
fn l_outline_index() {
    let mut d = base();
    d.objects.insert((1,0), Object::Dictionary(dictionary!{"Type" => "Catalog", "Outlines" => (2,0)}));
    d.objects.insert((2,0), Object::Dictionary(dictionary!{"First" => (3,0)}));
    d.objects.insert((3,0), Object::Dictionary(dictionary!{"Title" => Object::string_literal("t"), "Dest" => Vec::<Object>::new()}));
    d.trailer.set("Root", (1,0));
    d.max_id = 3;
    let r = catch_unwind(|| d.get_toc().map(|t| t.toc.len()));
    println!("OUTLINE empty Dest -> {:?}", r.as_ref().map_err(|_| "PANIC"));
}
#[test]
fn i_cmap_split() {
    let cmap = b"/CIDInit /ProcSet findresource begin\n12 dict begin\nbegincmap\n/CMapType 2 def\n1 begincodespacerange\n<00> <FF>\nendcodespacerange\n1 beginbfrange\n<00> <05> [<0041> <0042> <0043> <0044> <0045> <0046>]\nendbfrange\n1 beginbfchar\n<02> <005A>\nendbfchar\nendcmap\nCMapName currentdict /CMap defineresource pop\nend\nend\n";
    let mut d = base();
    d.objects.insert((1,0), Object::Stream(Stream::new(dictionary!{}, cmap.to_vec())));
    let font = dictionary!{"Type" => "Font", "ToUnicode" => (1,0)};
    let enc = font.get_font_encoding(&d);
    match enc { Ok(e) => println!("CMAP split: decode 00..05 -> {:?} (expect ABZDEF)", Document::decode_text(&e, &[0,1,2,3,4,5])), Err(e) => println!("CMAP parse err {:?}", e) }
    let cmap2 = b"/CIDInit /ProcSet findresource begin\n12 dict begin\nbegincmap\n/CMapType 2 def\n1 begincodespacerange\n<0000> <FFFF>\nendcodespacerange\n1 beginbfrange\n<0000> <FFFF> <D800DC00>\nendbfrange\nendcmap\nCMapName currentdict /CMap defineresource pop\nend\nend\n";
    let mut d2 = base();
    d2.objects.insert((1,0), Object::Stream(Stream::new(dictionary!{}, cmap2.to_vec())));
    let font = dictionary!{"Type" => "Font", "ToUnicode" => (1,0)};
    let r = catch_unwind(|| { let e = font.get_font_encoding(&d2).unwrap(); Document::decode_text(&e, &[0xff,0xff]).map(|s| s.len()) });
    println!("CMAP hexstring overflow -> {:?}", r.as_ref().map_err(|_| "PANIC"));
}
#[test]
fn f_xref_table_overflow() {
    let body = b"%PDF-1.4\n1 0 obj\nnull\nendobj\n";
    let mut f = body.to_vec();
    let x = f.len();
    f.extend_from_slice(b"xref\n18446744073709551615 2\n0000000000 00000 n \n0000000009 00000 n \ntrailer\n<</Size 2>>\nstartxref\n");
    f.extend_from_slice(format!("{}\n%%EOF", x).as_bytes());
    let r = catch_unwind(|| Document::load_mem(&f).map(|d| d.objects.len()));
    println!("XREF table start overflow -> {:?}", r.as_ref().map_err(|_| "PANIC"));
}
#[test]
fn e_xref_stream_w() {
    for w in ["[0 0 1]"] {
        let body = b"%PDF-1.5\n";
        let mut f = body.to_vec();
        let x = f.len();
        f.extend_from_slice(format!("1 0 obj\n<</Type/XRef/Size 2/W {}/Index[0 1000000]/Length 4>>stream\nabcd\nendstream\nendobj\nstartxref\n{}\n%%EOF", w, x).as_bytes());
        let t = std::time::Instant::now();
        let r = catch_unwind(|| Document::load_mem(&f).map(|d| d.objects.len()));
        println!("XREF stream W {} -> {:?} in {:?}", w, r.as_ref().map_err(|_| "PANIC"), t.elapsed());
    }
}
#[test]
fn p_deep_array() {
    let h = std::thread::Builder::new().stack_size(2 * 1024 * 1024).spawn(|| {
        let mut c = vec![b'['; 3000]; c.extend(vec![b']'; 3000]); c.extend_from_slice(b" x");
        Content::decode(&c).map(|c| c.operations.len())
    }).unwrap();
    println!("DEEP ARRAY 3000 on 2MB stack -> {:?}", h.join().map_err(|_| "PANIC"));
}
