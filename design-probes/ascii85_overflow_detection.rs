use vstd::prelude::*;
use vstd::slice::slice_subrange;
verus! {
pub enum DecompressError { Ascii85(u8) }
pub type Result<T> = core::result::Result<T, DecompressError>;

pub assume_specification [u8::is_ascii_whitespace] (b: &u8) -> (r: bool)
    ensures r == (*b == 0x20 || *b == 0x09 || *b == 0x0a || *b == 0x0c || *b == 0x0d);

fn warn_missing_eod() {}
pub open spec fn be4(v: u32) -> Seq<u8> { seq![(v >> 24) as u8, ((v >> 16) & 0xff) as u8, ((v >> 8) & 0xff) as u8, (v & 0xff) as u8] }
#[verifier::external_body]
fn u32_to_be_bytes(v: u32) -> (r: [u8; 4]) ensures r@ == be4(v) { v.to_be_bytes() }


fn decode_ascii85(input: &[u8]) -> (r: Result<Vec<u8>>)
{
    let mut output = vec![];
    let mut buffer: u32 = 0;
    let mut count = 0;
    // Check for EOD marker
    let input_no_eod = if input.len() >= 2 && input[input.len() - 2] == 0x7e && input[input.len() - 1] == 0x3e {
        slice_subrange(input, 0, input.len() - 2)
    } else {
        warn_missing_eod();
        input
    };
    let mut idx: usize = 0;
    while idx < input_no_eod.len()
        invariant idx <= input_no_eod.len(),
        decreases input_no_eod.len() - idx,
    {
        let ch = input_no_eod[idx];
        idx += 1;
        if ch == b'z' {
            if count != 0 {
                return Err(DecompressError::Ascii85(1));
            }
            output.extend_from_slice(&[0, 0, 0, 0]);
            continue;
        }

        if ch.is_ascii_whitespace() {
            continue;
        }

        if !(b'!'..=b'u').contains(&ch) {
            break;
        }
        buffer = buffer
            .checked_mul(85)
            .ok_or(DecompressError::Ascii85(2))?;
        buffer += (ch - b'!') as u32;
        count += 1;

        if count == 5 {
            output.extend_from_slice(&u32_to_be_bytes(buffer));
            buffer = 0;
            count = 0;
        }
    }
    Ok(output)
}
}
fn main() {}
