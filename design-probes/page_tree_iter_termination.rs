use vstd::prelude::*;
verus! {

pub type ObjectId = (u32, u16);

pub enum Object {
    Null,
    Integer(i64),
    Name(Vec<u8>),
    Array(Vec<Object>),
    Dictionary(Dict),
    Reference(ObjectId),
}

// R8: Dictionary (IndexMap<Vec<u8>, Object>) as an association list in insertion order
pub struct Dict { pub entries: Vec<(Vec<u8>, Object)> }

pub struct ErrTag;
pub type Result<T> = core::result::Result<T, ErrTag>;

// R8: Document.objects (BTreeMap<ObjectId, Object>) behind a wrapper with a Map view
#[verifier::external_body]
pub struct ObjMap { m: std::collections::BTreeMap<ObjectId, Object> }
impl ObjMap {
    pub uninterp spec fn view(&self) -> Map<ObjectId, Object>;
    pub uninterp spec fn spec_len(&self) -> nat;
    #[verifier::external_body]
    pub fn len(&self) -> (r: usize) ensures r == self.spec_len() { self.m.len() }
}
pub struct Document { pub objects: ObjMap }

#[derive(Clone, Copy)]
pub enum TypeName { Page, Pages, Other }

impl Document {
    // contracts of the callee functions (each verified in its own unit; here only the contract is used)
    #[verifier::external_body]
    pub fn kid_type(&self, id: ObjectId) -> (r: Result<TypeName>) { unimplemented!() }
    #[verifier::external_body]
    pub fn kids<'a>(&'a self, id: ObjectId) -> (r: Option<&'a [Object]>) { unimplemented!() }
}

pub struct PageTreeIter<'a> {
    pub doc: &'a Document,
    pub stack: Vec<&'a [Object]>,
    pub kids: Option<&'a [Object]>,
    pub iter_limit: usize,
}

fn as_reference(o: &Object) -> (r: Result<ObjectId>) {
    match o { Object::Reference(id) => Ok(*id), _ => Err(ErrTag) }
}

impl<'a> PageTreeIter<'a> {
    fn next(&mut self) -> (r: Option<ObjectId>)
        ensures final(self).stack.len() <= old(self).stack.len() + old(self).iter_limit,
    {
        loop
            invariant self.stack.len() + self.iter_limit <= old(self).stack.len() + old(self).iter_limit,
            decreases self.iter_limit, self.stack.len(),
        {
            let ghost l0 = self.iter_limit;
            let ghost s0 = self.stack.len();
            loop
                invariant self.stack.len() + self.iter_limit <= old(self).stack.len() + old(self).iter_limit,
                    self.iter_limit <= l0, self.iter_limit == l0 ==> self.stack.len() == s0,
                decreases self.iter_limit, (if self.kids is Some { self.kids.unwrap()@.len() + 1 } else { 0 }),
            {
                // R10 template for `while let Some((kid, new_kids)) = self.kids.and_then(|k| k.split_first())`
                let cur = match self.kids { Some(k) => k, None => { break; } };
                if cur.len() == 0 { break; }
                let kid = &cur[0];
                let new_kids = vstd::slice::slice_subrange(cur, 1, cur.len());

                if self.iter_limit == 0 {
                    return None;
                }
                self.iter_limit -= 1;

                self.kids = Some(new_kids);

                if let Ok(kid_id) = as_reference(kid) {
                    if let Ok(type_name) = self.doc.kid_type(kid_id) {
                        match type_name {
                            TypeName::Page => {
                                return Some(kid_id);
                            }
                            TypeName::Pages => {
                                if self.stack.len() < 256 {
                                    let kids = self.kids.unwrap();
                                    if !(kids.len() == 0) {
                                        self.stack.push(kids);
                                    }
                                    self.kids = self.doc.kids(kid_id);
                                }
                            }
                            _ => {}
                        }
                    }
                }
            }

            // Current level exhausted, try to pop.
            if let Some(k) = self.stack.pop() {
                self.kids = Some(k);
            } else {
                return None;
            }
        }
    }
}
}
fn main() {}
