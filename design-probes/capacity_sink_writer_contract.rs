use vstd::prelude::*;
verus! {
pub struct IoError;
pub type Result<T> = core::result::Result<T, IoError>;

pub open spec fn take(s: Seq<u8>, n: nat) -> Seq<u8> { if n >= s.len() { s } else { s.subrange(0, n as int) } }
pub open spec fn minn(a: nat, b: nat) -> nat { if a <= b { a } else { b } }

// Sink that fails after `cap` more bytes (cap arbitrary, possibly "infinite" = larger than anything written):
// exactly the quantifier of C19 -- every failure offset of the complete output.
#[verifier::external_body]
pub struct Sink { inner: Vec<u8> }
impl Sink {
    pub uninterp spec fn view(&self) -> Seq<u8>;     // bytes delivered so far
    pub uninterp spec fn cap(&self) -> nat;          // bytes the sink will still accept
    #[verifier::external_body]
    pub fn write_all(&mut self, data: &[u8]) -> (r: Result<()>)
        ensures final(self)@ == old(self)@ + take(data@, old(self).cap()),
                final(self).cap() == old(self).cap() - minn(data@.len(), old(self).cap()),
                r is Ok <==> data@.len() <= old(self).cap(),
    { unimplemented!() }
}
// the uniform writer contract
#[verifier::opaque]
pub open spec fn wrote(old_s: Sink, new_s: Sink, ok: bool, enc: Seq<u8>) -> bool {
    &&& new_s@ == old_s@ + take(enc, old_s.cap())
    &&& new_s.cap() == old_s.cap() - minn(enc.len(), old_s.cap())
    &&& (ok <==> enc.len() <= old_s.cap())
}
pub proof fn lemma_seq(s0: Sink, s1: Sink, s2: Sink, a: Seq<u8>, b: Seq<u8>, r2: bool)
    requires wrote(s0, s1, true, a), wrote(s1, s2, r2, b)
    ensures wrote(s0, s2, r2, a + b)
{
    reveal(wrote);
    let c = s0.cap();
    assert(a.len() <= c);
    if b.len() <= s1.cap() { assert(take(a + b, c) =~= a + b); }
    else { assert(take(a + b, c) =~= a + take(b, s1.cap())); }
    assert(s2@ =~= s0@ + take(a + b, c));
}
pub proof fn lemma_fail(s0: Sink, s1: Sink, s2: Sink, a: Seq<u8>, b: Seq<u8>, tail: Seq<u8>)
    requires wrote(s0, s1, true, a), wrote(s1, s2, false, b)
    ensures wrote(s0, s2, false, a + b + tail)
{
    reveal(wrote);
    lemma_seq(s0, s1, s2, a, b, false);
    let c = s0.cap();
    assert(take(a + b + tail, c) =~= take(a + b, c));
}

pub proof fn lemma_nil(s0: Sink) ensures wrote(s0, s0, true, Seq::<u8>::empty())
{ reveal(wrote); assert(take(Seq::<u8>::empty(), s0.cap()) =~= Seq::<u8>::empty()); assert(s0@ =~= s0@ + Seq::<u8>::empty()); }
pub proof fn lemma_wa(s0: Sink, s1: Sink, r: Result<()>, d: Seq<u8>)
    requires s1@ == s0@ + take(d, s0.cap()), s1.cap() == s0.cap() - minn(d.len(), s0.cap()), r is Ok <==> d.len() <= s0.cap()
    ensures wrote(s0, s1, r is Ok, d)
{ reveal(wrote); }
pub enum Object { Null, Array(Vec<Object>), Integer(i64) }
use Object::*;
pub open spec fn need_sep(o: Object) -> bool { o is Null || o is Integer }
pub open spec fn enc_obj(o: Object) -> Seq<u8> decreases o {
    match o {
        Object::Null => seq![0x6eu8, 0x75, 0x6c, 0x6c],
        Object::Array(a) => seq![0x5bu8] + enc_items(a@, 0) + seq![0x5du8],
        _ => seq![],
    }
}
pub open spec fn enc_items(a: Seq<Object>, i: int) -> Seq<u8> decreases a, a.len() - i {
    if i < 0 || i >= a.len() { seq![] } else {
        (if i > 0 && need_sep(a[i]) { seq![0x20u8] } else { seq![] }) + enc_obj(a[i]) + enc_items(a, i + 1)
    }
}
// encoding of items [0, i)
pub open spec fn enc_upto(a: Seq<Object>, i: int) -> Seq<u8> decreases i {
    if i <= 0 { seq![] } else { enc_upto(a, i - 1) + (if i - 1 > 0 && need_sep(a[i - 1]) { seq![0x20u8] } else { seq![] }) + enc_obj(a[i - 1]) }
}
pub proof fn lemma_split(a: Seq<Object>, i: int)
    requires 0 <= i <= a.len()
    ensures enc_items(a, 0) =~= enc_upto(a, i) + enc_items(a, i)
    decreases i
{
    if i > 0 { lemma_split(a, i - 1); }
}

fn need_separator(object: &Object) -> (r: bool) ensures r == need_sep(*object) { matches!(*object, Null | Integer(_)) }

fn write_object(file: &mut Sink, object: &Object) -> (r: Result<()>)
    ensures wrote(*old(file), *final(file), r is Ok, enc_obj(*object)),
    decreases object
{
    match object {
        Null => { let r = file.write_all(&[0x6e, 0x75, 0x6c, 0x6c]); proof { lemma_wa(*old(file), *file, r, seq![0x6eu8, 0x75, 0x6c, 0x6c]); } r }
        Array(array) => write_array(file, array),
        _ => { let r = file.write_all(&[]); proof { lemma_wa(*old(file), *file, r, Seq::<u8>::empty()); } r }
    }
}

fn write_array(file: &mut Sink, array: &Vec<Object>) -> (r: Result<()>)
    ensures wrote(*old(file), *final(file), r is Ok, seq![0x5bu8] + enc_items(array@, 0) + seq![0x5du8]),
    decreases array
{
    let ghost s0 = *file;
    let ghost full = seq![0x5bu8] + enc_items(array@, 0) + seq![0x5du8];
    let r0 = file.write_all(&[0x5bu8]);
    proof {
        lemma_nil(s0);
        assert((&[0x5bu8])@ =~= seq![0x5bu8]);
        lemma_wa(s0, *file, r0, seq![0x5bu8]);
        if r0 is Err {
            lemma_fail(s0, s0, *file, seq![], seq![0x5bu8], enc_items(array@, 0) + seq![0x5du8]);
            assert(Seq::<u8>::empty() + seq![0x5bu8] + (enc_items(array@, 0) + seq![0x5du8]) =~= full);
        } else {
           
            assert(seq![0x5bu8] + enc_upto(array@, 0) =~= seq![0x5bu8]);
        }
    }
    r0?;
    let mut first = true;
    let mut idx: usize = 0;
    while idx < array.len()
        invariant idx <= array.len(), first == (idx == 0), s0 == *old(file),
            wrote(s0, *file, true, seq![0x5bu8] + enc_upto(array@, idx as int)),
            full == seq![0x5bu8] + enc_items(array@, 0) + seq![0x5du8],
        decreases array.len() - idx
    {
        let object = &array[idx];
        let ghost i0 = idx as int;
        let ghost s1 = *file;
        let ghost done = seq![0x5bu8] + enc_upto(array@, i0);
        let ghost sep: Seq<u8> = if i0 > 0 && need_sep(array@[i0]) { seq![0x20u8] } else { seq![] };
        let ghost rest = enc_items(array@, i0 + 1) + seq![0x5du8];
        proof { lemma_split(array@, i0); assert(full =~= done + sep + (enc_obj(array@[i0]) + rest)); }
        idx += 1;
        let ghost mut pre: Seq<u8> = done;
        if first {
            first = false;
            proof { assert(sep =~= Seq::<u8>::empty()); }
        } else if need_separator(object) {
            let r1 = file.write_all(&[0x20u8]);
            proof {
                assert((&[0x20u8])@ =~= seq![0x20u8]);
                lemma_wa(s1, *file, r1, sep);
                if r1 is Err { lemma_fail(s0, s1, *file, done, sep, enc_obj(array@[i0]) + rest); }
                else { lemma_seq(s0, s1, *file, done, sep, r1 is Ok); }
            }
            assert(r1 is Err ==> wrote(s0, *file, false, full));
            r1?;
            proof { pre = done + sep; }
        } else {
            proof { assert(sep =~= Seq::<u8>::empty()); }
        }
        proof { assert(pre =~= done + sep); }
        let ghost s2 = *file;
        let r2 = write_object(file, object);
        proof {
            assert(full =~= pre + enc_obj(array@[i0]) + rest);
            if r2 is Err { lemma_fail(s0, s2, *file, pre, enc_obj(array@[i0]), rest); }
            else { lemma_seq(s0, s2, *file, pre, enc_obj(array@[i0]), r2 is Ok);
                   assert(pre + enc_obj(array@[i0]) =~= seq![0x5bu8] + enc_upto(array@, i0 + 1)); }
        }
        assert(r2 is Err ==> wrote(s0, *file, false, full));
        r2?;
    }
    let ghost s3 = *file;
    let r3 = file.write_all(&[0x5du8]);
    proof {
        lemma_split(array@, array@.len() as int);
        assert(enc_items(array@, array@.len() as int) =~= Seq::<u8>::empty());
        assert(full =~= (seq![0x5bu8] + enc_upto(array@, array@.len() as int)) + seq![0x5du8]);
        assert((&[0x5du8])@ =~= seq![0x5du8]);
        lemma_wa(s3, *file, r3, seq![0x5du8]);
        lemma_seq(s0, s3, *file, seq![0x5bu8] + enc_upto(array@, array@.len() as int), seq![0x5du8], r3 is Ok);
    }
    r3?;
    Ok(())
}
}
fn main() {}
