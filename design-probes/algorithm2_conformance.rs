use vstd::prelude::*;
verus! {

// uninterpreted primitive (assumption: the md-5 crate implements MD5)
pub uninterp spec fn md5(input: Seq<u8>) -> Seq<u8>;
#[verifier::external_body]
pub broadcast proof fn axiom_md5_len(input: Seq<u8>) ensures #[trigger] md5(input).len() == 16 {}

// R8-style wrapper for md5::Md5 with a ghost accumulator
#[verifier::external_body]
pub struct Md5 { inner: Vec<u8> }
impl Md5 {
    pub uninterp spec fn acc(&self) -> Seq<u8>;
    #[verifier::external_body]
    pub fn new() -> (r: Md5) ensures r.acc() == Seq::<u8>::empty() { unimplemented!() }
    #[verifier::external_body]
    pub fn update(&mut self, data: &[u8]) ensures final(self).acc() == old(self).acc() + data@ { unimplemented!() }
    #[verifier::external_body]
    pub fn finalize(self) -> (r: [u8; 16]) ensures r@ == md5(self.acc()) { unimplemented!() }
    #[verifier::external_body]
    pub fn digest(data: &[u8]) -> (r: [u8; 16]) ensures r@ == md5(data@) { unimplemented!() }
}

pub spec const PAD: Seq<u8> = seq![0x28u8, 0xBF, 0x4E, 0x5E];  // shortened to 4 bytes for the probe

pub open spec fn pad_pw(pw: Seq<u8>) -> Seq<u8> {
    let len = if pw.len() < 4 { pw.len() as int } else { 4 };
    pw.subrange(0, len) + PAD.subrange(0, 4 - len)
}
pub open spec fn iter_md5(x: Seq<u8>, n: int, k: nat) -> Seq<u8> decreases k {
    if k == 0 { x } else { md5(iter_md5(x, n, (k - 1) as nat).subrange(0, n)) }
}
// ISO 32000-2 Algorithm 2 (shape), over uninterpreted md5
pub open spec fn alg2(pw: Seq<u8>, o: Seq<u8>, p_le: Seq<u8>, id0: Seq<u8>, rev: int, n: int, enc_meta: bool) -> Seq<u8> {
    let h0 = md5(pad_pw(pw) + o + p_le + id0 + (if rev >= 4 && !enc_meta { seq![0xffu8, 0xff, 0xff, 0xff] } else { seq![] }));
    let h = if rev >= 3 { iter_md5(h0, n, 50) } else { h0 };
    h.subrange(0, n)
}

#[verifier::external_body]
fn subslice(a: &[u8], lo: usize, hi: usize) -> (r: &[u8])
    requires lo <= hi <= a@.len() ensures r@ == a@.subrange(lo as int, hi as int) { &a[lo..hi] }
#[verifier::external_body]
fn to_vec(a: &[u8]) -> (r: Vec<u8>) ensures r@ == a@ { a.to_vec() }

const PAD_BYTES: [u8; 4] = [0x28, 0xBF, 0x4E, 0x5E];

fn compute_key(password: &[u8], owner_value: &[u8], p_le: &[u8; 4], file_id_0: &[u8], revision: i64, n: usize, encrypt_metadata: bool) -> (r: Vec<u8>)
    requires n <= 16
    ensures r@ == alg2(password@, owner_value@, p_le@, file_id_0@, revision as int, n as int, encrypt_metadata)
{
    broadcast use axiom_md5_len;
    let len = if password.len() < 4 { password.len() } else { 4 };
    let mut hasher = Md5::new();
    hasher.update(subslice(password, 0, len));
    hasher.update(subslice(&PAD_BYTES, 0, 4 - len));
    hasher.update(owner_value);
    hasher.update(p_le);
    hasher.update(file_id_0);
    if revision >= 4 && !encrypt_metadata {
        hasher.update(&[0xff, 0xff, 0xff, 0xff]);
    }
    let mut hash = hasher.finalize();
    let ghost h0 = hash@;
    if revision >= 3 {
        let mut i: usize = 0;
        while i < 50
            invariant i <= 50, n <= 16, hash@ == iter_md5(h0, n as int, i as nat), hash@.len() == 16,
            decreases 50 - i
        {
            hash = Md5::digest(subslice(&hash, 0, n));
            i += 1;
        }
    }
    proof {
        assert(PAD_BYTES@ =~= PAD);
        assert(h0 == md5(pad_pw(password@) + owner_value@ + p_le@ + file_id_0@ + (if revision >= 4 && !encrypt_metadata { seq![0xffu8, 0xff, 0xff, 0xff] } else { seq![] }))) by {
            let tail: Seq<u8> = if revision >= 4 && !encrypt_metadata { seq![0xffu8, 0xff, 0xff, 0xff] } else { seq![] };
            assert(password@.subrange(0, len as int) + PAD.subrange(0, 4 - len) + owner_value@ + p_le@ + file_id_0@ + tail
                =~= pad_pw(password@) + owner_value@ + p_le@ + file_id_0@ + tail);
        }
    }
    to_vec(subslice(&hash, 0, n))
}
}
fn main() {}
