use vstd::prelude::*;
verus! {
pub open spec fn is_ws(c: u8) -> bool { c == 0x20 || c == 0x09 || c == 0x0a || c == 0x0d || c == 0x00 || c == 0x0c }
pub open spec fn is_delim(c: u8) -> bool { c == 0x28 || c == 0x29 || c == 0x3c || c == 0x3e || c == 0x5b || c == 0x5d || c == 0x7b || c == 0x7d || c == 0x2f || c == 0x25 }
pub open spec fn is_regular(c: u8) -> bool { !is_ws(c) && !is_delim(c) }
pub open spec fn needs_escape(b: u8) -> bool {
    b == 0x20 || b == 0x09 || b == 0x0a || b == 0x0d || b == 0x0c || b == 0x28 || b == 0x29 || b == 0x3c || b == 0x3e
    || b == 0x5b || b == 0x5d || b == 0x7b || b == 0x7d || b == 0x2f || b == 0x25 || b == 0x23 || b < 33 || b > 126
}
pub open spec fn hex_up(n: u8) -> u8 { if n < 10 { (0x30 + n) as u8 } else { (0x41 + n - 10) as u8 } }
pub open spec fn hex_val(c: u8) -> Option<u8> {
    if 0x30 <= c <= 0x39 { Some((c - 0x30) as u8) } else if 0x41 <= c <= 0x46 { Some((c - 0x41 + 10) as u8) } else if 0x61 <= c <= 0x66 { Some((c - 0x61 + 10) as u8) } else { None }
}
pub open spec fn enc_byte(b: u8) -> Seq<u8> {
    if needs_escape(b) { seq![0x23u8, hex_up(b / 16), hex_up(b % 16)] } else { seq![b] }
}
// front-recursive encoding (same function as the writer's, proven equal elsewhere)
pub open spec fn enc_name(s: Seq<u8>) -> Seq<u8> decreases s.len() {
    if s.len() == 0 { seq![] } else { enc_byte(s[0]) + enc_name(s.subrange(1, s.len() as int)) }
}
// ISO 32000-1 7.3.5 name body decoder: consumes regular chars, '#xx' -> byte; stops at first non-regular char
pub open spec fn dec_name(i: Seq<u8>) -> (Seq<u8>, Seq<u8>) decreases i.len() {
    if i.len() == 0 { (seq![], i) }
    else if i[0] == 0x23 {
        if i.len() >= 3 && hex_val(i[1]) is Some && hex_val(i[2]) is Some {
            let (r, rest) = dec_name(i.subrange(3, i.len() as int));
            (seq![(hex_val(i[1]).unwrap() * 16 + hex_val(i[2]).unwrap()) as u8] + r, rest)
        } else { (seq![], i) }
    } else if is_regular(i[0]) {
        let (r, rest) = dec_name(i.subrange(1, i.len() as int));
        (seq![i[0]] + r, rest)
    } else { (seq![], i) }
}
proof fn lemma_hex(b: u8)
    ensures hex_val(hex_up(b / 16)) == Some((b / 16) as u8), hex_val(hex_up(b % 16)) == Some((b % 16) as u8),
            ((b / 16) * 16 + (b % 16)) as u8 == b
{}
pub proof fn lemma_name_roundtrip(s: Seq<u8>, rest: Seq<u8>)
    requires rest.len() == 0 || (!is_regular(rest[0])),
    ensures dec_name(enc_name(s) + rest) == (s, rest)
    decreases s.len()
{
    if s.len() == 0 {
        assert(enc_name(s) + rest == rest);
        if rest.len() > 0 { assert(rest[0] != 0x23); }
    } else {
        let b = s[0];
        let tail = s.subrange(1, s.len() as int);
        lemma_name_roundtrip(tail, rest);
        lemma_hex(b);
        let whole = enc_name(s) + rest;
        let after = enc_name(tail) + rest;
        if needs_escape(b) {
            assert(whole == enc_byte(b) + after);
            assert(whole.subrange(3, whole.len() as int) == after);
            assert(whole[0] == 0x23 && whole[1] == hex_up(b / 16) && whole[2] == hex_up(b % 16));
        } else {
            assert(whole == seq![b] + after);
            assert(whole.subrange(1, whole.len() as int) == after);
            assert(is_regular(b) && b != 0x23);
        }
        assert(seq![b] + tail == s);
    }
}
}
fn main() {}
