use vstd::prelude::*;
verus! {

pub enum BfRangeTarget {
    HexString(Vec<u16>),
    UTF16CodePoint { offset: u32 },
    ArrayOfHexStrings(Vec<Vec<u16>>),
}

// the definition that the CMap semantics attaches to a code: (lo of the defining range, target as written)
pub struct Def { pub lo: u32, pub hi: u32, pub tgt: BfRangeTarget }

// R8: rangemap::RangeInclusiveMap<u32, BfRangeTarget>, honest abstract contract:
// `sem(c)` is the last definition inserted that covers c (ghost); the stored value for c is that definition's target;
// get_key_value(c) returns SOME stored interval [a, b] containing c on which the stored value is constant --
// after splits `a` may be larger than the defining lo, after coalescing it may be smaller.
#[verifier::external_body]
pub struct VRangeMap { inner: Vec<u8> }
pub struct RangeRef { pub a: u32, pub b: u32 }
impl RangeRef { pub fn start(&self) -> (r: u32) ensures r == self.a { self.a } }
impl VRangeMap {
    pub uninterp spec fn sem(&self, c: u32) -> Option<Def>;
    #[verifier::external_body]
    pub fn get_key_value(&self, c: &u32) -> (r: Option<(RangeRef, &BfRangeTarget)>)
        ensures
            self.sem(*c) is None <==> r is None,
            r is Some ==> {
                let (rg, v) = r.unwrap();
                rg.a <= *c <= rg.b && *v == self.sem(*c).unwrap().tgt
                && self.sem(*c).unwrap().lo <= *c <= self.sem(*c).unwrap().hi
            },
    { unimplemented!() }
}

// CMap semantics (ISO 32000-1 9.10.3 / Adobe TN 5014) for one covering definition
pub open spec fn cmap_target(d: Def, code: u32) -> Option<Seq<u16>> {
    match d.tgt {
        BfRangeTarget::UTF16CodePoint { offset } => Some(seq![(((code as int + offset as int) % 0x1_0000_0000) % 0x1_0000) as u16]),
        BfRangeTarget::HexString(v) =>
            if v@.len() > 0 && v@.last() as int + (code - d.lo) <= 0xffff { Some(v@.drop_last().push((v@.last() + (code - d.lo)) as u16)) } else { None },
        BfRangeTarget::ArrayOfHexStrings(a) =>
            if (code - d.lo) < a@.len() { Some(a@[(code - d.lo) as int]@) } else { None },
    }
}

fn get_utf16(map: &VRangeMap, code: u32) -> (r: Option<Vec<u16>>)
    ensures map.sem(code) is Some && map.sem(code).unwrap().tgt is UTF16CodePoint ==> r is Some && Some(r.unwrap()@) == cmap_target(map.sem(code).unwrap(), code)
{
    match map.get_key_value(&code) {
        Some((_range, value)) => match value {
            BfRangeTarget::UTF16CodePoint { offset } => {
                let mut v = Vec::new();
                let w = u32::wrapping_add(code, *offset);
                assert(w as int == (code as int + *offset as int) % 0x1_0000_0000);
                let x = #[verifier::truncate] (w as u16);
                assert(x as int == (w as int) % 0x1_0000);
                v.push(x);
                assert(v@ =~= seq![x]);
                Some(v)
            }
            _ => None,
        },
        None => None,
    }
}

fn get_array(map: &VRangeMap, code: u32) -> (r: Option<Vec<u16>>)
    ensures map.sem(code) is Some && map.sem(code).unwrap().tgt is ArrayOfHexStrings && r is Some ==> Some(r.unwrap()@) == cmap_target(map.sem(code).unwrap(), code)
{
    match map.get_key_value(&code) {
        Some((range, value)) => match value {
            BfRangeTarget::ArrayOfHexStrings(vec_of_strings) => {
                Some(vec_of_strings[(code - range.start()) as usize].clone())
            }
            _ => None,
        },
        None => None,
    }
}
}
fn main() {}
