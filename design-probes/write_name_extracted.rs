use vstd::prelude::*;
verus! {

pub open spec fn needs_escape(b: u8) -> bool {
    b == 0x20 || b == 0x09 || b == 0x0a || b == 0x0d || b == 0x0c || b == 0x28 || b == 0x29 || b == 0x3c || b == 0x3e
    || b == 0x5b || b == 0x5d || b == 0x7b || b == 0x7d || b == 0x2f || b == 0x25 || b == 0x23 || b < 33 || b > 126
}
pub open spec fn hex_digit_upper(n: u8) -> u8 { if n < 10 { (0x30 + n) as u8 } else { (0x41 + n - 10) as u8 } }
pub open spec fn enc_byte(b: u8) -> Seq<u8> {
    if needs_escape(b) { seq![0x23u8, hex_digit_upper(b / 16), hex_digit_upper(b % 16)] } else { seq![b] }
}
pub open spec fn enc_name_body(s: Seq<u8>) -> Seq<u8> decreases s.len() {
    if s.len() == 0 { seq![] } else { enc_name_body(s.drop_last()) + enc_byte(s.last()) }
}

pub assume_specification<T: core::cmp::PartialEq> [<[T]>::contains] (s: &[T], x: &T) -> (r: bool)
    ensures r == s@.contains(*x);
pub struct IoError;
pub type Result<T> = core::result::Result<T, IoError>;

pub struct Sink { pub buf: Vec<u8> }
impl Sink {
    pub open spec fn view(&self) -> Seq<u8> { self.buf@ }
    #[verifier::external_body]
    pub fn write_all(&mut self, data: &[u8]) -> (r: Result<()>)
        ensures r is Ok ==> final(self)@ == old(self)@ + data@,
    { self.buf.extend_from_slice(data); Ok(()) }
}

#[verifier::external_body]
fn fmt_hash_02X(file: &mut Sink, byte: u8) -> (r: Result<()>)
    ensures r is Ok ==> final(file)@ == old(file)@ + seq![0x23u8, hex_digit_upper(byte / 16), hex_digit_upper(byte % 16)]
{ Ok(()) }

fn write_name(file: &mut Sink, name: &[u8]) -> (r: Result<()>)
    ensures r is Ok ==> final(file)@ == old(file)@ + seq![0x2fu8] + enc_name_body(name@)
{
    file.write_all((&[0x2fu8]))?;
    let ghost start = file@;
    for idx in 0..name.len()
        invariant file@ == start + enc_name_body(name@.subrange(0, idx as int)),
    {
        let byte = name[idx];
        proof { assert(name@.subrange(0, idx + 1).drop_last() == name@.subrange(0, idx as int)); }
        if (&[0x20u8, 0x09u8, 0x0au8, 0x0du8, 0x0cu8, 0x28u8, 0x29u8, 0x3cu8, 0x3eu8, 0x5bu8, 0x5du8, 0x7bu8, 0x7du8, 0x2fu8, 0x25u8, 0x23u8]).contains(&byte) || !(33..=126).contains(&byte) {
            fmt_hash_02X(file, byte)?;
        } else {
            file.write_all(&[byte])?;
        }
    }
    proof { assert(name@.subrange(0, name.len() as int) == name@); }
    Ok(())
}
}
fn main() {}
