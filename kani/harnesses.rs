//! E2: loop-free (or constant-bound) Kani harnesses over complete scalar domains, on the real crate.
//! The same bodies are compiled twice: under `cfg(kani)` inside lopdf (included from src/lib.rs through hook H0b) and
//! natively inside /verif/harness, where `replay` feeds them the values of a counterexample Kani printed, so that a
//! violation found by the model checker is shown against the real code.  `super::verif_lp` is lopdf's public root.
#![allow(dead_code)]
use super::verif_lp as lp;

/// where the symbolic (or replayed) input values come from
pub trait Src {
    fn u8(&mut self) -> u8;
    fn u64(&mut self) -> u64;
}

#[cfg(kani)]
pub struct Symbolic;
#[cfg(kani)]
impl Src for Symbolic {
    fn u8(&mut self) -> u8 { kani::any() }
    fn u64(&mut self) -> u64 { kani::any() }
}

/// the values of a counterexample, in the order the harness asked for them (little-endian byte vectors, as Kani prints them)
pub struct Replayed { pub values: Vec<Vec<u8>>, pub next: usize }
impl Src for Replayed {
    fn u8(&mut self) -> u8 { let v = self.values.get(self.next).cloned().unwrap_or_default(); self.next += 1; v.first().copied().unwrap_or(0) }
    fn u64(&mut self) -> u64 { let v = self.values.get(self.next).cloned().unwrap_or_default(); self.next += 1; let mut b = [0u8; 8]; for (i, x) in v.iter().take(8).enumerate() { b[i] = *x; } u64::from_le_bytes(b) }
}

// ---------------------------------------------------------------------------------------------------------------
// PNG 9.2-9.4: reconstruction of one row of two one-byte pixels, every filter type, every byte value (C09)
// ---------------------------------------------------------------------------------------------------------------
fn paeth_spec(a: u8, b: u8, c: u8) -> u8 {
    let (ia, ib, ic) = (a as i32, b as i32, c as i32);
    let p = ia + ib - ic;
    let (pa, pb, pc) = ((p - ia).abs(), (p - ib).abs(), (p - ic).abs());
    if pa <= pb && pa <= pc { a } else if pb <= pc { b } else { c }
}
fn recon_spec(ft: u8, x: u8, a: u8, b: u8, c: u8) -> u8 {
    match ft {
        0 => x,
        1 => x.wrapping_add(a),
        2 => x.wrapping_add(b),
        3 => x.wrapping_add(((a as u16 + b as u16) / 2) as u8),
        _ => x.wrapping_add(paeth_spec(a, b, c)),
    }
}
/// returns the first index at which decode_row disagrees with the PNG definition, if any
pub fn png_row_of_two<S: Src>(s: &mut S) -> Option<(u8, [u8; 2], [u8; 2], [u8; 2])> {
    use lp::filters::png::{decode_row, FilterType};
    let ft = s.u8() % 5;
    let prev = [s.u8(), s.u8()];
    let raw = [s.u8(), s.u8()];
    let mut cur = raw;
    let filter = match ft { 0 => FilterType::None, 1 => FilterType::Sub, 2 => FilterType::Up, 3 => FilterType::Avg, _ => FilterType::Paeth };
    decode_row(filter, 1, &prev, &mut cur);
    let e0 = recon_spec(ft, raw[0], 0, prev[0], 0);
    let e1 = recon_spec(ft, raw[1], e0, prev[1], prev[0]);
    if cur[0] != e0 || cur[1] != e1 { Some((ft, prev, raw, cur)) } else { None }
}
#[cfg(kani)]
#[kani::proof]
#[kani::unwind(4)]
fn kani_png_row_of_two() { assert!(png_row_of_two(&mut Symbolic).is_none()); }

// ---------------------------------------------------------------------------------------------------------------
// ISO 32000-1 table 22: the permission word for every 64-bit flag pattern (C06)
// ---------------------------------------------------------------------------------------------------------------
pub fn permission_word<S: Src>(s: &mut S) -> Option<(u64, u64)> {
    let x = s.u64();
    let p = lp::Permissions::from_bits_truncate(x).p_value();
    // bits 7-8 and 13-32 are one, the upper half is all ones, bits 1-2 are zero, and the defined flags are those asked for
    const FLAGS: u64 = (1 << 2) | (1 << 3) | (1 << 4) | (1 << 5) | (1 << 8) | (1 << 9) | (1 << 10) | (1 << 11);
    let ok = p & 0xC0 == 0xC0 && p & 0xFFFF_F000 == 0xFFFF_F000 && p >> 32 == 0xFFFF_FFFF && p & 0x3 == 0 && p & FLAGS == x & FLAGS;
    if ok { None } else { Some((x, p)) }
}
#[cfg(kani)]
#[kani::proof]
fn kani_permission_word() { assert!(permission_word(&mut Symbolic).is_none()); }

// ---------------------------------------------------------------------------------------------------------------
// PNG filter type byte: 0..=4 are the five types, everything else is rejected (C09, C04)
// ---------------------------------------------------------------------------------------------------------------
pub fn filter_type_byte<S: Src>(s: &mut S) -> Option<u8> {
    use lp::filters::png::FilterType;
    let b = s.u8();
    let r = FilterType::try_from(b);
    let ok = match (b, r) { (0, Ok(FilterType::None)) | (1, Ok(FilterType::Sub)) | (2, Ok(FilterType::Up)) | (3, Ok(FilterType::Avg)) | (4, Ok(FilterType::Paeth)) => true, (5..=255, Err(_)) => true, _ => false };
    if ok { None } else { Some(b) }
}
#[cfg(kani)]
#[kani::proof]
fn kani_filter_type_byte() { assert!(filter_type_byte(&mut Symbolic).is_none()); }
