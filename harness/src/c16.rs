//! C16: text strings and one-byte encodings. Finite domains are enumerated completely (all Unicode scalar values,
//! all 7 tables x 256 bytes); strings over a 14-character class alphabet up to length 4 are a bounded family.
#![allow(dead_code)]
use crate::common::*;
use lopdf::{decode_text_string, text_string, Document, Encoding, Object, StringFormat};
use rayon::prelude::*;
use serde_json::{json, Value};

fn check_text(s: &str) -> Result<(), (String, String)> {
    let o = match guarded(|| text_string(s)) { Ok(o) => o, Err(p) => return Err(("text-no-panic".into(), format!("text_string panicked: {}", p))) };
    // form: ASCII stays a PDFDocEncoded literal; everything else UTF-16BE with BOM
    if let Object::String(bytes, _) = &o {
        if !s.is_ascii() && !(bytes.starts_with(&[0xFE, 0xFF])) { return Err(("text-form".into(), format!("non-ASCII text {:?} not written as UTF-16BE with BOM: {:02x?}", s, bytes))); }
    } else { return Err(("text-form".into(), "text_string did not return a string object".into())); }
    match guarded(|| decode_text_string(&o)) {
        Err(p) => Err(("text-no-panic".into(), format!("decode_text_string panicked: {}", p))),
        Ok(Err(e)) => Err(("text-roundtrip".into(), format!("{:?} encodes to {:?} which fails to decode: {}", s, o, e))),
        Ok(Ok(back)) => if back == s { Ok(()) } else { Err(("text-roundtrip".into(), format!("{:?} encodes to {:?} which decodes to {:?}", s, o, back))) },
    }
}

fn utf8_bom(s: &str) -> Result<(), (String, String)> {
    let mut b = vec![0xEF, 0xBB, 0xBF];
    b.extend_from_slice(s.as_bytes());
    match decode_text_string(&Object::String(b, StringFormat::Literal)) {
        Ok(t) if t == s => Ok(()),
        other => Err(("utf8-bom".into(), format!("UTF-8 with BOM of {:?} decodes to {:?}", s, other.map_err(|e| e.to_string())))),
    }
}

const TABLE_NAMES: &[&str] = &["StandardEncoding", "MacRomanEncoding", "MacExpertEncoding", "WinAnsiEncoding", "PDFDocEncoding"];

/// published values (ISO 32000-1 Annex D): printable ASCII is the identity in WinAnsi, MacRoman (except none here), PDFDoc;
/// Latin-1 0xA1..0xFF is the identity in WinAnsi and PDFDoc (0xAD soft hyphen undefined in PDFDoc).
fn published(table: &str, b: u8) -> Option<Option<char>> {
    match table {
        "WinAnsiEncoding" => { if (0x20..=0x7E).contains(&b) { Some(Some(b as char)) } else if b >= 0xA1 && b != 0xAD { Some(Some(char::from_u32(b as u32).unwrap())) } else { None } }
        "PDFDocEncoding" => { if (0x20..=0x7E).contains(&b) || b == 9 || b == 10 || b == 13 { Some(Some(b as char)) } else if b >= 0xA1 && b != 0xAD { Some(Some(char::from_u32(b as u32).unwrap())) } else { None } }
        "MacRomanEncoding" => { if (0x20..=0x7E).contains(&b) { Some(Some(b as char)) } else { None } }
        _ => None,
    }
}

fn encoding_of(doc: &Document, name: &str) -> Option<Encoding<'static>> {
    let _ = doc;
    // the public route to a predefined table: a font dictionary with /Encoding /Name
    let mut font = lopdf::Dictionary::new();
    font.set("Type", Object::Name(b"Font".to_vec()));
    font.set("Encoding", Object::Name(name.as_bytes().to_vec()));
    let d: &'static lopdf::Dictionary = Box::leak(Box::new(font));
    let docl: &'static Document = Box::leak(Box::new(Document::with_version("1.5")));
    d.get_font_encoding(docl).ok()
}

pub fn run(thorough: bool) -> Report {
    let mut rep = Report::new("complete finite domains: every Unicode scalar value as a 1-character text string; 5 public one-byte tables x all 256 bytes (decode never fails, re-encode stable, published values)", true);
    rep.obligations = 5;
    let _ = thorough;
    // 1. every scalar value
    let fails: Vec<(u32, String, String)> = (0u32..=0x10FFFF).into_par_iter().filter_map(|cp| {
        let c = char::from_u32(cp)?;
        let s = c.to_string();
        match check_text(&s) { Ok(()) => None, Err((o, d)) => Some((cp, o, d)) }
    }).collect();
    rep.evaluations += 0x110000 - 0x800;
    rep.nontrivial += 0x110000 - 0x800;
    let mut fails = fails;
    fails.sort();
    let total = fails.len();
    for (cp, o, d) in fails.into_iter() {
        rep.fail(&o, format!("{} ({} scalar values fail this obligation family)", d, total), json!({"kind": "text", "s": char::from_u32(cp).unwrap().to_string()}), d.clone());
    }
    // 3. one-byte encodings, all 256 bytes
    let doc = Document::with_version("1.5");
    for t in TABLE_NAMES {
        let enc = match encoding_of(&doc, t) { Some(e) => e, None => { rep.fail("table-reachable", format!("{} not reachable through get_font_encoding", t), json!({"kind": "table", "table": t}), String::new()); continue; } };
        for b in 0u16..256 {
            let b = b as u8;
            rep.case(true);
            let dec = match guarded(std::panic::AssertUnwindSafe(|| enc.bytes_to_string(&[b]))) {
                Err(p) => { rep.fail("table-decode-never-fails", format!("{} byte {:#04x}: panic {}", t, b, p), json!({"kind": "table", "table": t, "byte": b}), p); continue; }
                Ok(Err(e)) => { rep.fail("table-decode-never-fails", format!("{} byte {:#04x}: {}", t, b, e), json!({"kind": "table", "table": t, "byte": b}), e.to_string()); continue; }
                Ok(Ok(s)) => s,
            };
            // re-encoding decoded text reproduces bytes that decode to the same text
            let re = enc.string_to_bytes(&dec);
            let dec2 = enc.bytes_to_string(&re).unwrap_or_default();
            if dec2 != dec { let d = format!("{} byte {:#04x} decodes to {:?}, re-encodes to {:02x?}, which decodes to {:?}", t, b, dec, re, dec2); rep.fail("table-reencode", d.clone(), json!({"kind": "table", "table": t, "byte": b}), d); }
            if let Some(want) = published(t, b) {
                let got: Option<char> = dec.chars().next();
                if got != want || dec.chars().count() > 1 { let d = format!("{} byte {:#04x}: published value {:?}, table gives {:?}", t, b, want, dec); rep.fail("table-published-values", d.clone(), json!({"kind": "table", "table": t, "byte": b}), d); }
            }
        }
    }
    rep
}

pub fn strings(thorough: bool) -> Report {
    let mut rep = Report::new("every string of length <= 4 (quick: <= 3) over a 14-character class alphabet {a, space, LF, NUL, DEL, 0x18, e-acute, U+00FF, U+FEFF, U+FFFE, U+0100, euro, U+D7FF, U+1F600}; plus lone BOMs and odd-length UTF-16", true);
    // 2. strings over a class alphabet
    let alpha: Vec<char> = vec!['a', ' ', '\n', '\u{0}', '\u{7f}', '\u{18}', 'é', '\u{ff}', '\u{feff}', '\u{fffe}', 'Ā', '€', '\u{d7ff}', '😀'];
    let maxlen = if thorough { 4 } else { 3 };
    let mut strings: Vec<String> = vec![String::new()];
    let mut frontier = vec![String::new()];
    for _ in 0..maxlen {
        let mut next = vec![];
        for s in &frontier { for c in &alpha { let mut t = s.clone(); t.push(*c); next.push(t); } }
        strings.extend(next.iter().cloned());
        frontier = next;
    }
    for s in &strings {
        rep.case(!s.is_empty());
        if let Err((o, d)) = check_text(s) { rep.fail(&o, d.clone(), json!({"kind": "text", "s": s}), d); }
        if let Err((o, d)) = utf8_bom(s) { rep.fail(&o, d.clone(), json!({"kind": "utf8", "s": s}), d); }
    }
    rep.sample("\"a\\n😀\"".into());
    // odd-length UTF-16 and lone BOMs never panic
    for bytes in [vec![0xFEu8, 0xFF], vec![0xFE, 0xFF, 0x00], vec![0xFE, 0xFF, 0xD8, 0x00], vec![0xEF, 0xBB, 0xBF], vec![0xEF, 0xBB, 0xBF, 0xFF], vec![0xFF, 0xFE, 0x41, 0x00]] {
        rep.case(true);
        let o = Object::String(bytes.clone(), StringFormat::Literal);
        if let Err(p) = guarded(|| { let _ = decode_text_string(&o); }) { rep.fail("text-no-panic", format!("decode_text_string panicked on {:02x?}: {}", bytes, p), json!({"kind": "raw", "bytes": hex(&bytes)}), p); }
    }
    rep
}

pub fn replay(v: &Value) -> Result<(), String> {
    match v["kind"].as_str() {
        Some("text") => check_text(v["s"].as_str().unwrap_or("")).map_err(|e| format!("{}: {}", e.0, e.1)),
        Some("utf8") => utf8_bom(v["s"].as_str().unwrap_or("")).map_err(|e| format!("{}: {}", e.0, e.1)),
        Some("table") => {
            let rep = run(false);
            let t = v["table"].as_str().unwrap_or("");
            match rep.failures.iter().find(|f| f.input["table"] == t && f.input["byte"] == v["byte"]) { Some(f) => Err(f.detail.clone()), None => Ok(()) }
        }
        _ => Err("unknown replay kind".into()),
    }
}
