//! C16: text strings and one-byte encodings. Finite domains are enumerated completely (all Unicode scalar values,
//! all 5 public tables x 256 bytes) by `c16-text`. `c16-strings` holds the bounded families:
//!  * every string over a 14-character class alphabet up to length 4;
//!  * LONG text strings (the property quantifies over strings, not over characters): a character that needs two UTF-16
//!    code units / several UTF-8 bytes at EVERY offset of a long run of one-unit characters, homogeneous runs of astral
//!    characters at both parities, and seeded pseudo-random long strings with lengths around every power of two;
//!  * text EXTRACTION: text over the repertoire of each predefined table is shown on a page whose font is bound in every
//!    way the page tree allows (own /Resources or inherited from either ancestor level, outer levels empty / binding the
//!    same resource name to another encoding / binding another name; direct and indirect dictionaries), extracted from
//!    the document as built and after save + reload. The oracle is ISO 32000-1 7.7.3.4 (the nearest /Resources wins).
//!  * extraction of SEVERAL PAGES WITH ONE CALL (extract_text takes a list of page numbers; the property speaks of the
//!    text of a document, not of a one-page document): documents of 2..4 pages, every assignment of the predefined tables
//!    to the pages, the pages' fonts bound under the same resource name in separate resource dictionaries, under distinct
//!    names, in one shared dictionary, at the page / its own intermediate node / the root; every sequence of page numbers
//!    (any subset, any order, repetitions) is extracted with one call. Resource names are local to a resource dictionary
//!    (ISO 32000-1 7.8.3), so the text of a call is the text of its pages, one after the other, whatever was extracted
//!    earlier in the same call.
#![allow(dead_code)]
use crate::common::*;
use lopdf::content::{Content, Operation};
use lopdf::{decode_text_string, dictionary, text_string, Dictionary, Document, Encoding, Object, ObjectId, Stream, StringFormat};
use rayon::prelude::*;
use serde_json::{json, Value};
use std::sync::OnceLock;

fn cp(c: char) -> String { format!("U+{:04X}", c as u32) }

/// short strings verbatim; long ones as a run-length summary (so that details and replay logs stay readable)
fn describe(s: &str) -> String {
    let n = s.chars().count();
    if n <= 40 { return format!("{:?}", s); }
    let mut runs: Vec<(char, usize)> = vec![];
    for c in s.chars() { match runs.last_mut() { Some((d, k)) if *d == c => *k += 1, _ => runs.push((c, 1)) } }
    let mut parts: Vec<String> = runs.iter().take(6).map(|(c, k)| if *k == 1 { cp(*c) } else { format!("{} x {}", cp(*c), k) }).collect();
    if runs.len() > 6 { parts.push(format!("... {} runs in all", runs.len())); }
    let mut at = 0usize;
    let mut wide: Vec<usize> = vec![];
    for c in s.chars() { if c.len_utf16() == 2 && wide.len() < 3 { wide.push(at); } at += c.len_utf16(); }
    format!("<{} chars = {} UTF-16 code units = {} UTF-8 bytes: {}; first surrogate pairs start at code units {:?}>", n, at, s.len(), parts.join(", "), wide)
}

fn describe_obj(o: &Object) -> String {
    match o {
        Object::String(b, f) if b.len() > 96 => format!("<{:?} string of {} bytes starting {:02x?}>", f, b.len(), &b[..8]),
        _ => format!("{:?}", o),
    }
}

fn first_diff(want: &str, got: &str) -> String {
    let (mut w, mut g) = (want.chars(), got.chars());
    let mut i = 0usize;
    loop {
        match (w.next(), g.next()) {
            (None, None) => return "no difference".into(),
            (a, b) if a == b => i += 1,
            (a, b) => return format!("first difference at char {}: expected {}, got {}", i, a.map(cp).unwrap_or("end".into()), b.map(cp).unwrap_or("end".into())),
        }
    }
}

fn check_text(s: &str) -> Result<(), (String, String)> {
    let o = match guarded(|| text_string(s)) { Ok(o) => o, Err(p) => return Err(("text-no-panic".into(), format!("text_string panicked: {}", p))) };
    // form: ASCII stays a PDFDocEncoded literal; everything else UTF-16BE with BOM
    if let Object::String(bytes, _) = &o {
        if !s.is_ascii() && !(bytes.starts_with(&[0xFE, 0xFF])) { return Err(("text-form".into(), format!("non-ASCII text {} not written as UTF-16BE with BOM: {}", describe(s), describe_obj(&o)))); }
        // "UTF-16BE with a byte-order mark": two bytes per UTF-16 code unit after the mark
        if !s.is_ascii() && bytes.len() != 2 + 2 * s.encode_utf16().count() { return Err(("text-form".into(), format!("non-ASCII text {} written as {} bytes, UTF-16BE with BOM has {}", describe(s), bytes.len(), 2 + 2 * s.encode_utf16().count()))); }
    } else { return Err(("text-form".into(), "text_string did not return a string object".into())); }
    match guarded(|| decode_text_string(&o)) {
        Err(p) => Err(("text-no-panic".into(), format!("decode_text_string panicked: {}", p))),
        Ok(Err(e)) => Err(("text-roundtrip".into(), format!("{} encodes to {} which fails to decode: {}", describe(s), describe_obj(&o), e))),
        Ok(Ok(back)) => if back == s { Ok(()) } else if s.chars().count() <= 40 { Err(("text-roundtrip".into(), format!("{:?} encodes to {:?} which decodes to {:?}", s, o, back))) }
            else { Err(("text-roundtrip".into(), format!("{} encodes to {} which decodes to {} ({})", describe(s), describe_obj(&o), describe(&back), first_diff(s, &back)))) },
    }
}

fn utf8_bom(s: &str) -> Result<(), (String, String)> {
    let mut b = vec![0xEF, 0xBB, 0xBF];
    b.extend_from_slice(s.as_bytes());
    let o = Object::String(b, StringFormat::Literal);
    match guarded(|| decode_text_string(&o)) {
        Err(p) => Err(("text-no-panic".into(), format!("decode_text_string panicked on UTF-8 with BOM of {}: {}", describe(s), p))),
        Ok(Ok(t)) if t == s => Ok(()),
        Ok(other) if s.chars().count() <= 40 => Err(("utf8-bom".into(), format!("UTF-8 with BOM of {:?} decodes to {:?}", s, other.map_err(|e| e.to_string())))),
        Ok(Err(e)) => Err(("utf8-bom".into(), format!("UTF-8 with BOM of {} fails to decode: {}", describe(s), e))),
        Ok(Ok(t)) => Err(("utf8-bom".into(), format!("UTF-8 with BOM of {} decodes to {} ({})", describe(s), describe(&t), first_diff(s, &t)))),
    }
}

const TABLE_NAMES: &[&str] = &["StandardEncoding", "MacRomanEncoding", "MacExpertEncoding", "WinAnsiEncoding", "PDFDocEncoding"];

/// published values (ISO 32000-1 Annex D): printable ASCII is the identity in WinAnsi, MacRoman (except none here), PDFDoc;
/// Latin-1 0xA1..0xFF is the identity in WinAnsi and PDFDoc (0xAD soft hyphen undefined in PDFDoc).
fn published(table: &str, b: u8) -> Option<Option<char>> {
    match table {
        "WinAnsiEncoding" => { if (0x20..=0x7E).contains(&b) { Some(Some(b as char)) } else if b >= 0xA1 && b != 0xAD { Some(Some(char::from_u32(b as u32).unwrap())) } else { None } }
        "PDFDocEncoding" => { if (0x20..=0x7E).contains(&b) || b == 9 || b == 10 || b == 13 { Some(Some(b as char)) } else if b >= 0xA1 && b != 0xAD { Some(Some(char::from_u32(b as u32).unwrap())) } else { None } }
        "MacRomanEncoding" => { if (0x20..=0x7E).contains(&b) { Some(Some(b as char)) } else { None } }
        _ => None,
    }
}

fn encoding_of(doc: &Document, name: &str) -> Option<Encoding<'static>> {
    let _ = doc;
    // the public route to a predefined table: a font dictionary with /Encoding /Name
    let mut font = lopdf::Dictionary::new();
    font.set("Type", Object::Name(b"Font".to_vec()));
    font.set("Encoding", Object::Name(name.as_bytes().to_vec()));
    let d: &'static lopdf::Dictionary = Box::leak(Box::new(font));
    let docl: &'static Document = Box::leak(Box::new(Document::with_version("1.5")));
    d.get_font_encoding(docl).ok()
}

pub fn run(thorough: bool) -> Report {
    let mut rep = Report::new("complete finite domains: every Unicode scalar value as a 1-character text string; 5 public one-byte tables x all 256 bytes (decode never fails, re-encode stable, published values)", true);
    rep.obligations = 5;
    let _ = thorough;
    // 1. every scalar value
    let fails: Vec<(u32, String, String)> = (0u32..=0x10FFFF).into_par_iter().filter_map(|cp| {
        let c = char::from_u32(cp)?;
        let s = c.to_string();
        match check_text(&s) { Ok(()) => None, Err((o, d)) => Some((cp, o, d)) }
    }).collect();
    rep.evaluations += 0x110000 - 0x800;
    rep.nontrivial += 0x110000 - 0x800;
    let mut fails = fails;
    fails.sort();
    let total = fails.len();
    for (cp, o, d) in fails.into_iter() {
        rep.fail(&o, format!("{} ({} scalar values fail this obligation family)", d, total), json!({"kind": "text", "s": char::from_u32(cp).unwrap().to_string()}), d.clone());
    }
    // 3. one-byte encodings, all 256 bytes
    let doc = Document::with_version("1.5");
    for t in TABLE_NAMES {
        let enc = match encoding_of(&doc, t) { Some(e) => e, None => { rep.fail("table-reachable", format!("{} not reachable through get_font_encoding", t), json!({"kind": "table", "table": t}), String::new()); continue; } };
        for b in 0u16..256 {
            let b = b as u8;
            rep.case(true);
            let dec = match guarded(std::panic::AssertUnwindSafe(|| enc.bytes_to_string(&[b]))) {
                Err(p) => { rep.fail("table-decode-never-fails", format!("{} byte {:#04x}: panic {}", t, b, p), json!({"kind": "table", "table": t, "byte": b}), p); continue; }
                Ok(Err(e)) => { rep.fail("table-decode-never-fails", format!("{} byte {:#04x}: {}", t, b, e), json!({"kind": "table", "table": t, "byte": b}), e.to_string()); continue; }
                Ok(Ok(s)) => s,
            };
            // re-encoding decoded text reproduces bytes that decode to the same text
            let re = enc.string_to_bytes(&dec);
            let dec2 = enc.bytes_to_string(&re).unwrap_or_default();
            if dec2 != dec { let d = format!("{} byte {:#04x} decodes to {:?}, re-encodes to {:02x?}, which decodes to {:?}", t, b, dec, re, dec2); rep.fail("table-reencode", d.clone(), json!({"kind": "table", "table": t, "byte": b}), d); }
            if let Some(want) = published(t, b) {
                let got: Option<char> = dec.chars().next();
                if got != want || dec.chars().count() > 1 { let d = format!("{} byte {:#04x}: published value {:?}, table gives {:?}", t, b, want, dec); rep.fail("table-published-values", d.clone(), json!({"kind": "table", "table": t, "byte": b}), d); }
            }
        }
    }
    rep
}

const CLASS_ALPHABET: [char; 14] = ['a', ' ', '\n', '\u{0}', '\u{7f}', '\u{18}', 'é', '\u{ff}', '\u{feff}', '\u{fffe}', 'Ā', '€', '\u{d7ff}', '😀'];

fn splitmix(x: &mut u64) -> u64 {
    *x = x.wrapping_add(0x9E37_79B9_7F4A_7C15);
    let mut z = *x;
    z = (z ^ (z >> 30)).wrapping_mul(0xBF58_476D_1CE4_E5B9);
    z = (z ^ (z >> 27)).wrapping_mul(0x94D0_49BB_1331_11EB);
    z ^ (z >> 31)
}

// ------------------------------------------------------------------------------------------------ long text strings
/// A long string from its generator description (the replay input):
///  slide : `filler` repeated `prefix` times, then the character `wide`, then "z"
///  runs  : `lead` (possibly empty), then `unit` repeated `count` times
///  random: `len` characters drawn from CLASS_ALPHABET with splitmix64(seed)
fn long_string(v: &Value) -> Option<String> {
    let ch = |k: &str| v[k].as_str().and_then(|s| s.chars().next());
    match v["gen"].as_str()? {
        "slide" => {
            let n = v["prefix"].as_u64()? as usize;
            let mut s = String::with_capacity(n * 3 + 8);
            let f = ch("filler")?;
            for _ in 0..n { s.push(f); }
            s.push(ch("wide")?);
            s.push('z');
            Some(s)
        }
        "runs" => {
            let mut s = v["lead"].as_str()?.to_string();
            let u = ch("unit")?;
            for _ in 0..v["count"].as_u64()? { s.push(u); }
            Some(s)
        }
        "random" => {
            let mut x = v["seed"].as_u64()?;
            Some((0..v["len"].as_u64()?).map(|_| CLASS_ALPHABET[(splitmix(&mut x) % 14) as usize]).collect())
        }
        _ => None,
    }
}

fn check_long(v: &Value) -> Result<(), (String, String)> {
    let s = long_string(v).ok_or_else(|| ("replay".to_string(), format!("not a long-string description: {}", v)))?;
    check_text(&s)?;
    utf8_bom(&s)
}

/// lengths around every power of two up to 2^kmax
fn boundary_lengths(kmax: u32) -> Vec<u64> {
    let mut v = vec![];
    for k in 5..=kmax { for d in -2i64..=2 { v.push(((1i64 << k) + d) as u64); } }
    v
}

fn long_family(thorough: bool) -> Vec<Value> {
    let mut specs: Vec<Value> = vec![];
    // a character of two UTF-16 code units (four UTF-8 bytes), and one of three UTF-8 bytes, at every offset
    let top: u64 = if thorough { 16_500 } else { 8_200 };
    for (filler, wide) in [("x", "😀"), ("é", "😀"), ("€", "😀"), ("x", "€"), ("é", "€")] {
        for p in 0..=top { specs.push(json!({"kind": "long", "gen": "slide", "filler": filler, "wide": wide, "prefix": p})); }
    }
    // nothing but surrogate pairs, at even and at odd code-unit offsets
    let kmax = if thorough { 16 } else { 13 };
    for lead in ["", "x"] { for n in boundary_lengths(kmax) { specs.push(json!({"kind": "long", "gen": "runs", "lead": lead, "unit": "😀", "count": n})); } }
    // pseudo-random strings over the class alphabet
    let seeds = if thorough { 12 } else { 4 };
    for n in boundary_lengths(kmax) { for k in 0..seeds { specs.push(json!({"kind": "long", "gen": "random", "len": n, "seed": n * 1000 + k})); } }
    specs
}

// ------------------------------------------------------------------------------------------------ text extraction
/// what each predefined table gives for each byte (None: undefined code), harvested once through the public API
fn tables() -> &'static Vec<[Option<char>; 256]> {
    static T: OnceLock<Vec<[Option<char>; 256]>> = OnceLock::new();
    T.get_or_init(|| {
        let doc = Document::with_version("1.5");
        TABLE_NAMES.iter().map(|t| {
            let mut a = [None; 256];
            if let Some(enc) = encoding_of(&doc, t) {
                for b in 0..256usize {
                    if let Ok(Ok(s)) = guarded(std::panic::AssertUnwindSafe(|| enc.bytes_to_string(&[b as u8]))) {
                        let mut it = s.chars();
                        if let (Some(c), None) = (it.next(), it.next()) { a[b] = Some(c); }
                    }
                }
            }
            a
        }).collect()
    })
}

/// the repertoire of a table: every character it can show, with the first code that shows it, in code order
fn repertoire(t: usize) -> &'static Vec<(u8, char)> {
    static R: OnceLock<Vec<Vec<(u8, char)>>> = OnceLock::new();
    &R.get_or_init(|| tables().iter().map(|tab| {
        let mut out: Vec<(u8, char)> = vec![];
        for b in 0..256usize { if let Some(c) = tab[b] { if !out.iter().any(|(_, d)| *d == c) { out.push((b as u8, c)); } } }
        out
    }).collect())[t]
}

#[derive(Clone, Debug, PartialEq)]
struct Level {
    /// resource name -> index into TABLE_NAMES
    fonts: Vec<(String, usize)>,
    /// /Resources, its /Font subdictionary, each font dictionary: indirect reference (true) or direct object (false)
    res_ind: bool,
    fd_ind: bool,
    font_ind: bool,
}

/// levels[0] is the page, levels[1] its parent /Pages node, ..., the last one the root of the page tree;
/// None: the node has no /Resources entry. segs: (resource name selected with Tf, text shown with Tj), in order.
#[derive(Clone, Debug)]
struct ExSpec { levels: Vec<Option<Level>>, segs: Vec<(String, String)> }

impl ExSpec {
    fn to_json(&self) -> Value {
        let levels: Vec<Value> = self.levels.iter().map(|l| match l {
            None => Value::Null,
            Some(l) => json!({"fonts": l.fonts.iter().map(|(n, t)| json!([n, TABLE_NAMES[*t]])).collect::<Vec<_>>(), "resources_indirect": l.res_ind, "fontdict_indirect": l.fd_ind, "font_indirect": l.font_ind}),
        }).collect();
        json!({"kind": "extract", "levels_page_outwards": levels, "segments": self.segs.iter().map(|(n, t)| json!([n, t])).collect::<Vec<_>>()})
    }
    fn from_json(v: &Value) -> Option<ExSpec> {
        let mut levels = vec![];
        for l in v["levels_page_outwards"].as_array()? {
            if l.is_null() { levels.push(None); continue; }
            let mut fonts = vec![];
            for f in l["fonts"].as_array()? { fonts.push((f[0].as_str()?.to_string(), TABLE_NAMES.iter().position(|t| Some(*t) == f[1].as_str())?)); }
            levels.push(Some(Level { fonts, res_ind: l["resources_indirect"].as_bool()?, fd_ind: l["fontdict_indirect"].as_bool()?, font_ind: l["font_indirect"].as_bool()? }));
        }
        let mut segs = vec![];
        for s in v["segments"].as_array()? { segs.push((s[0].as_str()?.to_string(), s[1].as_str()?.to_string())); }
        Some(ExSpec { levels, segs })
    }
    /// ISO 32000-1 7.7.3.4: /Resources is inheritable; a node's own entry takes the place of the inherited one. So the
    /// resource dictionary in effect for the page's content is that of the nearest node, from the page outwards, having one.
    fn effective(&self) -> Option<(usize, &Level)> { self.levels.iter().enumerate().find_map(|(i, l)| l.as_ref().map(|l| (i, l))) }
    fn level_name(&self, i: usize) -> String {
        if i == 0 { "the page".into() } else if i + 1 == self.levels.len() { "the root /Pages node".into() } else { "the intermediate /Pages node".into() }
    }
    /// the class of the layout, leading every failure detail (failures are grouped by the start of their detail)
    fn class(&self) -> String {
        let (ei, eff) = match self.effective() { Some(x) => x, None => return "(no resources)".into() };
        let lvl = if ei == 0 { "page" } else if ei + 1 == self.levels.len() { "root node" } else { "middle node" };
        let mut same = false;
        let mut other = false;
        for l in self.levels.iter().skip(ei + 1).flatten() { for (n, t) in &l.fonts { match eff.fonts.iter().find(|(m, _)| m == n) { Some((_, u)) if u != t => same = true, Some(_) => {}, None => other = true } } }
        format!("(in effect: {}, {}; outer: {})", lvl, if eff.res_ind { "indirect" } else { "direct" },
            if same { "same name, other encoding" } else if other { "other names" } else { "nothing different" })
    }
    fn summary(&self) -> String {
        let mut parts = vec![];
        for (i, l) in self.levels.iter().enumerate() {
            match l {
                None => parts.push(format!("{}: no /Resources", self.level_name(i))),
                Some(l) => parts.push(format!("{}: {} /Resources with {}", self.level_name(i), if l.res_ind { "indirect" } else { "direct" },
                    l.fonts.iter().map(|(n, t)| format!("/{} -> {}", n, TABLE_NAMES[*t])).collect::<Vec<_>>().join(", "))),
            }
        }
        parts.join("; ")
    }
}

fn font_dict(t: usize) -> Dictionary {
    dictionary! { "Type" => "Font", "Subtype" => "Type1", "BaseFont" => "Helvetica", "Encoding" => TABLE_NAMES[t] }
}

fn resources_object(doc: &mut Document, l: &Level) -> Object {
    let mut fd = Dictionary::new();
    for (name, t) in &l.fonts {
        let f = font_dict(*t);
        let v = if l.font_ind { Object::Reference(doc.add_object(f)) } else { Object::Dictionary(f) };
        fd.set(name.as_bytes().to_vec(), v);
    }
    let fdo = if l.fd_ind { Object::Reference(doc.add_object(fd)) } else { Object::Dictionary(fd) };
    let res = dictionary! { "Font" => fdo };
    if l.res_ind { Object::Reference(doc.add_object(res)) } else { Object::Dictionary(res) }
}

/// the document of a description and the text it shows; Err: the description is outside the family (a Tf names a font
/// that the resource dictionary in effect does not define, or a character outside the repertoire of its encoding)
fn build_extract(spec: &ExSpec) -> Result<(Document, String), String> {
    let (_, eff) = spec.effective().ok_or("no /Resources at any level")?;
    let mut ops = vec![Operation::new("BT", vec![])];
    let mut want = String::new();
    for (k, (name, text)) in spec.segs.iter().enumerate() {
        let t = eff.fonts.iter().find(|(n, _)| n == name).ok_or(format!("/{} is not defined by the resource dictionary in effect", name))?.1;
        let rep = repertoire(t);
        let mut bytes = vec![];
        for c in text.chars() { bytes.push(rep.iter().find(|(_, d)| *d == c).ok_or(format!("{} is not in the repertoire of {}", cp(c), TABLE_NAMES[t]))?.0); }
        ops.push(Operation::new("Tf", vec![Object::Name(name.as_bytes().to_vec()), 12.into()]));
        if k == 0 { ops.push(Operation::new("Td", vec![50.into(), 700.into()])); }
        ops.push(Operation::new("Tj", vec![Object::string_literal(bytes)]));
        want.push_str(text);
    }
    ops.push(Operation::new("ET", vec![]));
    let mut doc = Document::with_version("1.5");
    let nodes: Vec<ObjectId> = (1..spec.levels.len()).map(|_| doc.new_object_id()).collect();
    if nodes.is_empty() { return Err("no page tree node".into()); }
    let content_id = doc.add_object(Stream::new(dictionary! {}, Content { operations: ops }.encode().map_err(|e| e.to_string())?));
    let mut page = dictionary! { "Type" => "Page", "Parent" => nodes[0], "Contents" => content_id };
    if let Some(l) = &spec.levels[0] { let r = resources_object(&mut doc, l); page.set("Resources", r); }
    let mut kid = doc.add_object(page);
    for (i, id) in nodes.iter().enumerate() {
        let mut d = dictionary! { "Type" => "Pages", "Kids" => vec![Object::Reference(kid)], "Count" => 1 };
        if i + 1 < nodes.len() { d.set("Parent", nodes[i + 1]); } else { d.set("MediaBox", vec![0.into(), 0.into(), 595.into(), 842.into()]); }
        if let Some(l) = &spec.levels[i + 1] { let r = resources_object(&mut doc, l); d.set("Resources", r); }
        doc.objects.insert(*id, Object::Dictionary(d));
        kid = *id;
    }
    let catalog = doc.add_object(dictionary! { "Type" => "Catalog", "Pages" => kid });
    doc.trailer.set("Root", catalog);
    Ok((doc, want))
}

/// extraction ends a text object with a line feed; apart from that the text is to come back unchanged
fn same_text(want: &str, got: &str) -> bool { got == want || got.strip_suffix('\n') == Some(want) }

/// why the extracted text differs: position, and which other binding of the same name explains the character
fn explain(spec: &ExSpec, want: &str, got: &str) -> String {
    let mut out = first_diff(want, got.strip_suffix('\n').unwrap_or(got));
    let (ei, eff) = match spec.effective() { Some(x) => x, None => return out };
    // locate the differing character in the segments to name its font and code
    let g: Vec<char> = got.chars().collect();
    let mut i = 0usize;
    for (name, text) in &spec.segs {
        let t = match eff.fonts.iter().find(|(n, _)| n == name) { Some(f) => f.1, None => return out };
        for c in text.chars() {
            if g.get(i) != Some(&c) {
                let code = repertoire(t).iter().find(|(_, d)| *d == c).map(|x| x.0).unwrap_or(0);
                out.push_str(&format!(" (shown with /{} -> {} of {}, code {:#04x})", name, TABLE_NAMES[t], spec.level_name(ei), code));
                for (j, l) in spec.levels.iter().enumerate() {
                    if j == ei { continue; }
                    if let Some(l) = l { for (n2, t2) in &l.fonts { if n2 == name && *t2 != t && g.get(i).is_some() && tables()[*t2][code as usize] == g.get(i).copied() {
                        out.push_str(&format!("; the character returned is what {} gives for that code: the /{} of {} was used although it is not in effect", TABLE_NAMES[*t2], n2, spec.level_name(j)));
                    } } }
                }
                return out;
            }
            i += 1;
        }
    }
    out
}

fn check_extract(spec: &ExSpec) -> Result<(), (String, String)> {
    check_extract_inner(spec).map_err(|(o, d)| (o, format!("{} {}", spec.class(), d)))
}

fn check_extract_inner(spec: &ExSpec) -> Result<(), (String, String)> {
    let (mut doc, want) = match build_extract(spec) { Ok(x) => x, Err(_) => return Ok(()) };
    let show = |s: &str| -> String { let v: String = s.chars().take(48).collect(); if v.len() < s.len() { format!("{:?}...", v) } else { format!("{:?}", v) } };
    match guarded(std::panic::AssertUnwindSafe(|| doc.extract_text(&[1]))) {
        Err(p) => return Err(("extract-no-panic".into(), format!("extract_text panicked: {} [{}]", p, spec.summary()))),
        Ok(Err(e)) => return Err(("extract-unchanged".into(), format!("text {} shown on a page is not extracted: {} [{}]", show(&want), e, spec.summary()))),
        Ok(Ok(got)) => if !same_text(&want, &got) { return Err(("extract-unchanged".into(), format!("text {} shown on a page is extracted as {}: {} [{}]", show(&want), show(&got), explain(spec, &want, &got), spec.summary()))); }
    }
    let mut saved = vec![];
    match guarded(std::panic::AssertUnwindSafe(|| doc.save_to(&mut saved))) {
        Err(p) => return Err(("extract-no-panic".into(), format!("save_to panicked: {} [{}]", p, spec.summary()))),
        Ok(Err(e)) => return Err(("extract-save-reload".into(), format!("the document cannot be saved: {} [{}]", e, spec.summary()))),
        Ok(Ok(())) => {}
    }
    let re = match guarded(|| Document::load_mem(&saved)) {
        Err(p) => return Err(("extract-no-panic".into(), format!("load_mem panicked on the saved document: {} [{}]", p, spec.summary()))),
        Ok(Err(e)) => return Err(("extract-save-reload".into(), format!("the saved document cannot be loaded: {} [{}]", e, spec.summary()))),
        Ok(Ok(d)) => d,
    };
    match guarded(std::panic::AssertUnwindSafe(|| re.extract_text(&[1]))) {
        Err(p) => Err(("extract-no-panic".into(), format!("extract_text panicked after save and reload: {} [{}]", p, spec.summary()))),
        Ok(Err(e)) => Err(("extract-unchanged-after-reload".into(), format!("text {} is not extracted after save and reload: {} [{}]", show(&want), e, spec.summary()))),
        Ok(Ok(got)) => if same_text(&want, &got) { Ok(()) } else { Err(("extract-unchanged-after-reload".into(), format!("text {} is extracted after save and reload as {}: {} [{}]", show(&want), show(&got), explain(spec, &want, &got), spec.summary()))) },
    }
}

/// a pseudo-random string over the repertoire of a table, half of the characters from the upper half of the code space
fn random_text(t: usize, seed: u64) -> String {
    let rep = repertoire(t);
    if rep.is_empty() { return String::new(); }
    let upper: Vec<char> = rep.iter().filter(|(b, _)| *b >= 0x80).map(|x| x.1).collect();
    let mut x = seed;
    let n = 1 + splitmix(&mut x) % 24;
    (0..n).map(|_| { let r = splitmix(&mut x); if r & 1 == 1 && !upper.is_empty() { upper[(r >> 8) as usize % upper.len()] } else { rep[(r >> 8) as usize % rep.len()].1 } }).collect()
}

fn full_text(t: usize) -> String { repertoire(t).iter().map(|x| x.1).collect() }

/// Every way a page of a page tree of depth 1 or 2 can come by the font it shows text with.
///  - the resource dictionary in effect sits at the page or at either ancestor level (nearer levels have none);
///  - it binds /F1 to each table, and optionally /F2 to a second table (text is then shown with both in turn);
///  - each level further out has no /Resources, or binds /F1, or /F2, or both, to each table (bindings that are NOT
///    in effect: the same name with another encoding must not leak into the page);
///  - /Resources, the /Font subdictionary and the font dictionaries are direct objects or indirect references.
fn extract_family(thorough: bool) -> Vec<ExSpec> {
    let nt = TABLE_NAMES.len();
    let mut outer: Vec<Option<Vec<(String, usize)>>> = vec![None];
    for e in 0..nt { outer.push(Some(vec![("F1".into(), e)])); }
    for e in 0..nt { outer.push(Some(vec![("F2".into(), e)])); }
    for e in 0..nt { outer.push(Some(vec![("F1".into(), e), ("F2".into(), (e + 2) % nt)])); }
    // (resources indirect at the level in effect, at outer levels, font subdictionary indirect, fonts indirect)
    let shapes: Vec<(bool, bool, bool, bool)> = if thorough {
        let mut v = vec![];
        for a in [true, false] { for b in [true, false] { for c in [false, true] { for d in [true, false] { v.push((a, b, c, d)); } } } }
        v
    } else { vec![(true, true, false, true), (false, true, false, true), (true, false, true, false), (false, false, true, true)] };
    let mut specs = vec![];
    let mut serial = 0u64;
    for depth in 1..=2usize {
        for eff in 0..=depth {
            for ea in 0..nt {
                let seconds: Vec<Option<usize>> = if thorough { std::iter::once(None).chain((0..nt).map(Some)).collect() } else { vec![None, Some((ea + 1) % nt), Some((ea + 3) % nt)] };
                for eb in &seconds {
                    let mut fonts = vec![("F1".to_string(), ea)];
                    if let Some(eb) = eb { fonts.push(("F2".to_string(), *eb)); }
                    // the outer levels: eff+1 ..= depth
                    let n_outer = depth - eff;
                    let combos = outer.len().pow(n_outer as u32);
                    for combo in 0..combos {
                        for (k, sh) in shapes.iter().enumerate() {
                            let mut levels: Vec<Option<Level>> = vec![None; eff];
                            levels.push(Some(Level { fonts: fonts.clone(), res_ind: sh.0, fd_ind: sh.2, font_ind: sh.3 }));
                            let mut c = combo;
                            for _ in 0..n_outer {
                                levels.push(outer[c % outer.len()].clone().map(|f| Level { fonts: f, res_ind: sh.1, fd_ind: sh.2, font_ind: sh.3 }));
                                c /= outer.len();
                            }
                            // texts: the whole repertoire of the table once per description and shape 0, pseudo-random otherwise
                            serial += 1;
                            let mut segs = vec![("F1".to_string(), if k == 0 { full_text(ea) } else { random_text(ea, serial) })];
                            if let Some(eb) = eb { segs.push(("F2".to_string(), if k == 1 { full_text(*eb) } else { random_text(*eb, serial ^ 0xABCD_EF01) })); }
                            if k >= 2 && eb.is_some() { segs.push(("F1".to_string(), random_text(ea, serial ^ 0x1357_9BDF))); }
                            specs.push(ExSpec { levels, segs });
                        }
                    }
                }
            }
        }
    }
    specs
}

// ------------------------------------------------------------------------------------------------ several pages, one call
/// where the resource dictionary of a page sits: at the page, at an intermediate /Pages node of its own, or nowhere
/// nearer than the root of the page tree (the page inherits the root's /Resources)
#[derive(Clone, Copy, Debug, PartialEq)]
enum Holder { Page, Parent, Root }

impl Holder {
    fn name(self) -> &'static str { match self { Holder::Page => "page", Holder::Parent => "parent", Holder::Root => "root" } }
    fn parse(s: &str) -> Option<Holder> { match s { "page" => Some(Holder::Page), "parent" => Some(Holder::Parent), "root" => Some(Holder::Root), _ => None } }
}

#[derive(Clone, Debug)]
struct MpPage { holder: Holder, dict: Option<usize>, segs: Vec<(String, String)> }

/// dicts: the resource dictionaries of the document (a dictionary that is an indirect object and is named by several
/// holders is ONE shared object); root: the one the root /Pages node carries; pages in page-number order.
#[derive(Clone, Debug)]
struct MpSpec { layout: String, dicts: Vec<Level>, root: Option<usize>, pages: Vec<MpPage> }

impl MpSpec {
    fn to_json(&self, call: &[u32]) -> Value {
        let dicts: Vec<Value> = self.dicts.iter().map(|l| json!({"fonts": l.fonts.iter().map(|(n, t)| json!([n, TABLE_NAMES[*t]])).collect::<Vec<_>>(),
            "resources_indirect": l.res_ind, "fontdict_indirect": l.fd_ind, "font_indirect": l.font_ind})).collect();
        let pages: Vec<Value> = self.pages.iter().map(|p| json!({"holder": p.holder.name(), "dict": p.dict, "segments": p.segs.iter().map(|(n, t)| json!([n, t])).collect::<Vec<_>>()})).collect();
        json!({"kind": "pages", "layout": self.layout, "dicts": dicts, "root": self.root, "pages": pages, "call": call})
    }
    fn from_json(v: &Value) -> Option<(MpSpec, Vec<u32>)> {
        let mut dicts = vec![];
        for l in v["dicts"].as_array()? {
            let mut fonts = vec![];
            for f in l["fonts"].as_array()? { fonts.push((f[0].as_str()?.to_string(), TABLE_NAMES.iter().position(|t| Some(*t) == f[1].as_str())?)); }
            dicts.push(Level { fonts, res_ind: l["resources_indirect"].as_bool()?, fd_ind: l["fontdict_indirect"].as_bool()?, font_ind: l["font_indirect"].as_bool()? });
        }
        let mut pages = vec![];
        for p in v["pages"].as_array()? {
            let mut segs = vec![];
            for s in p["segments"].as_array()? { segs.push((s[0].as_str()?.to_string(), s[1].as_str()?.to_string())); }
            pages.push(MpPage { holder: Holder::parse(p["holder"].as_str()?)?, dict: p["dict"].as_u64().map(|x| x as usize), segs });
        }
        let call: Vec<u32> = v["call"].as_array()?.iter().filter_map(|x| x.as_u64().map(|x| x as u32)).collect();
        Some((MpSpec { layout: v["layout"].as_str().unwrap_or("replayed").to_string(), dicts, root: v["root"].as_u64().map(|x| x as usize), pages }, call))
    }
    /// ISO 32000-1 7.7.3.4 again: the page's own or its nearest ancestor's /Resources
    fn effective(&self, i: usize) -> Option<&Level> {
        let p = self.pages.get(i)?;
        match p.holder { Holder::Page | Holder::Parent => self.dicts.get(p.dict?), Holder::Root => self.dicts.get(self.root?) }
    }
    fn summary(&self) -> String {
        let d = |l: &Level| format!("{}{{{}}}", if l.res_ind { "indirect " } else { "" }, l.fonts.iter().map(|(n, t)| format!("/{} -> {}", n, TABLE_NAMES[*t])).collect::<Vec<_>>().join(", "));
        let mut parts: Vec<String> = vec![];
        if let Some(l) = self.root.and_then(|r| self.dicts.get(r)) { parts.push(format!("root /Pages: /Resources #{} {}", self.root.unwrap_or(0), d(l))); }
        for (i, p) in self.pages.iter().enumerate() {
            parts.push(match (p.holder, p.dict.and_then(|k| self.dicts.get(k))) {
                (Holder::Root, _) => format!("page {}: inherits the root's", i + 1),
                (h, Some(l)) => format!("page {}: /Resources #{} {} at {}", i + 1, p.dict.unwrap_or(0), d(l), if h == Holder::Page { "the page" } else { "its own intermediate /Pages node" }),
                (_, None) => format!("page {}: no /Resources", i + 1),
            });
        }
        parts.join("; ")
    }
}

/// the codes that show `text` with table t (first code of each character)
fn codes_for(t: usize, text: &str) -> Result<Vec<u8>, String> {
    let rep = repertoire(t);
    text.chars().map(|c| rep.iter().find(|(_, d)| *d == c).map(|x| x.0).ok_or(format!("{} is not in the repertoire of {}", cp(c), TABLE_NAMES[t]))).collect()
}

/// the document of a description and the text each page shows
fn build_pages(spec: &MpSpec) -> Result<(Document, Vec<String>), String> {
    if spec.pages.is_empty() { return Err("no pages".into()); }
    let mut doc = Document::with_version("1.5");
    let root_id = doc.new_object_id();
    let dict_objs: Vec<Object> = spec.dicts.iter().map(|l| resources_object(&mut doc, l)).collect();
    let mut kids: Vec<Object> = vec![];
    let mut texts = vec![];
    for (i, p) in spec.pages.iter().enumerate() {
        let eff = spec.effective(i).ok_or(format!("page {} has no /Resources in effect", i + 1))?;
        let mut ops = vec![Operation::new("BT", vec![])];
        let mut want = String::new();
        for (k, (name, text)) in p.segs.iter().enumerate() {
            let t = eff.fonts.iter().find(|(n, _)| n == name).ok_or(format!("/{} is not defined by the resource dictionary in effect for page {}", name, i + 1))?.1;
            let bytes = codes_for(t, text)?;
            ops.push(Operation::new("Tf", vec![Object::Name(name.as_bytes().to_vec()), 12.into()]));
            if k == 0 { ops.push(Operation::new("Td", vec![50.into(), 700.into()])); }
            ops.push(Operation::new("Tj", vec![Object::string_literal(bytes)]));
            want.push_str(text);
        }
        if want.is_empty() { return Err(format!("page {} shows no text", i + 1)); }
        ops.push(Operation::new("ET", vec![]));
        let content_id = doc.add_object(Stream::new(dictionary! {}, Content { operations: ops }.encode().map_err(|e| e.to_string())?));
        let mut page = dictionary! { "Type" => "Page", "Contents" => content_id };
        match p.holder {
            Holder::Parent => {
                let mid = doc.new_object_id();
                page.set("Parent", mid);
                let page_id = doc.add_object(page);
                let mut d = dictionary! { "Type" => "Pages", "Parent" => root_id, "Kids" => vec![Object::Reference(page_id)], "Count" => 1 };
                d.set("Resources", dict_objs[p.dict.ok_or("no dictionary")?].clone());
                doc.objects.insert(mid, Object::Dictionary(d));
                kids.push(Object::Reference(mid));
            }
            h => {
                page.set("Parent", root_id);
                if h == Holder::Page { page.set("Resources", dict_objs[p.dict.ok_or("no dictionary")?].clone()); }
                kids.push(Object::Reference(doc.add_object(page)));
            }
        }
        texts.push(want);
    }
    let mut root = dictionary! { "Type" => "Pages", "Count" => spec.pages.len() as i64, "Kids" => kids, "MediaBox" => vec![0.into(), 0.into(), 595.into(), 842.into()] };
    if let Some(r) = spec.root { root.set("Resources", dict_objs.get(r).ok_or("no such dictionary")?.clone()); }
    doc.objects.insert(root_id, Object::Dictionary(root));
    let catalog = doc.add_object(dictionary! { "Type" => "Catalog", "Pages" => root_id });
    doc.trailer.set("Root", catalog);
    Ok((doc, texts))
}

/// the text of a call is the text of its pages in the order of the call; as for one page, the line feed with which
/// extraction ends a text object may follow each of them
fn same_pages(texts: &[&str], got: &str) -> bool {
    match texts.split_first() {
        None => got.is_empty(),
        Some((first, rest)) => match got.strip_prefix(*first) {
            None => false,
            Some(g) => same_pages(rest, g) || g.strip_prefix('\n').map_or(false, |g2| same_pages(rest, g2)),
        },
    }
}

/// which page of the call comes back changed, and whether the same resource name on another page of the call explains it
fn explain_pages(spec: &MpSpec, call: &[u32], texts: &[String], got: &str) -> String {
    let show = |s: &str| -> String { let v: String = s.chars().take(32).collect(); if v.len() < s.len() { format!("{:?}...", v) } else { format!("{:?}", v) } };
    let mut pos = 0usize;
    for (k, &pn) in call.iter().enumerate() {
        let i = pn as usize - 1;
        let want = &texts[i];
        let rest = &got[pos..];
        if rest.starts_with(want.as_str()) {
            pos += want.len();
            if !want.ends_with('\n') && got[pos..].starts_with('\n') { pos += 1; }
            continue;
        }
        let n = want.chars().count();
        let part: String = rest.chars().take(n).collect();
        let mut out = format!("page {} (position {} of the call) shows {} and comes back as {}: {}", pn, k + 1, show(want), show(&part), first_diff(want, &part));
        let eff = match spec.effective(i) { Some(e) => e, None => return out };
        let g: Vec<char> = part.chars().collect();
        let mut at = 0usize;
        for (name, text) in &spec.pages[i].segs {
            let t = match eff.fonts.iter().find(|(m, _)| m == name) { Some(f) => f.1, None => return out };
            for c in text.chars() {
                if g.get(at) != Some(&c) {
                    let code = repertoire(t).iter().find(|(_, d)| *d == c).map(|x| x.0).unwrap_or(0);
                    out.push_str(&format!(" (shown with /{} -> {}, code {:#04x})", name, TABLE_NAMES[t], code));
                    // earlier pages of the call first
                    let order: Vec<(usize, u32)> = call.iter().copied().enumerate().filter(|(j, q)| *j != k && *q != pn).collect();
                    for (j, q) in order {
                        if let Some(other) = spec.effective(q as usize - 1) {
                            if let Some((_, u)) = other.fonts.iter().find(|(m, u)| m == name && *u != t) {
                                if g.get(at).is_some() && tables()[*u][code as usize] == g.get(at).copied() {
                                    out.push_str(&format!("; the character returned is what {} gives for that code: /{} was taken to be the /{} of page {}, extracted {} in the same call, although resource names are local to a page's resource dictionary", TABLE_NAMES[*u], name, name, q, if j < k { "earlier" } else { "later" }));
                                    return out;
                                }
                            }
                        }
                    }
                    return out;
                }
                at += 1;
            }
        }
        return out;
    }
    format!("all pages of the call come back, followed by unexpected text {}", show(&got[pos..]))
}

/// Extract every sequence of `calls` with one call each, from the document as built and after save_to + load_mem;
/// the first call whose text is not the text of its pages: (index into calls, obligation, detail).
fn check_pages(spec: &MpSpec, calls: &[Vec<u32>]) -> Result<(), (usize, String, String)> {
    let (mut doc, texts) = match build_pages(spec) { Ok(x) => x, Err(_) => return Ok(()) };
    let class = format!("({}; several pages, one call)", spec.layout);
    let run = |d: &Document, when: &str, obl: &str| -> Result<(), (usize, String, String)> {
        for (ci, call) in calls.iter().enumerate() {
            if call.is_empty() || call.iter().any(|p| *p == 0 || *p as usize > texts.len()) { continue; }
            let want: Vec<&str> = call.iter().map(|p| texts[*p as usize - 1].as_str()).collect();
            match guarded(std::panic::AssertUnwindSafe(|| d.extract_text(call))) {
                Err(p) => return Err((ci, "extract-no-panic".into(), format!("{} extract_text(&{:?}) {} panicked: {} [{}]", class, call, when, p, spec.summary()))),
                Ok(Err(e)) => return Err((ci, obl.into(), format!("{} extract_text(&{:?}) {} fails: {} [{}]", class, call, when, e, spec.summary()))),
                Ok(Ok(got)) => if !same_pages(&want, &got) {
                    return Err((ci, obl.into(), format!("{} extract_text(&{:?}) {} does not return the text of those pages: {} [{}]", class, call, when, explain_pages(spec, call, &texts, &got), spec.summary())));
                }
            }
        }
        Ok(())
    };
    run(&doc, "on the document as built", "extract-pages-unchanged")?;
    let mut saved = vec![];
    match guarded(std::panic::AssertUnwindSafe(|| doc.save_to(&mut saved))) {
        Err(p) => return Err((0, "extract-no-panic".into(), format!("{} save_to panicked: {} [{}]", class, p, spec.summary()))),
        Ok(Err(e)) => return Err((0, "extract-save-reload".into(), format!("{} the document cannot be saved: {} [{}]", class, e, spec.summary()))),
        Ok(Ok(())) => {}
    }
    let re = match guarded(|| Document::load_mem(&saved)) {
        Err(p) => return Err((0, "extract-no-panic".into(), format!("{} load_mem panicked on the saved document: {} [{}]", class, p, spec.summary()))),
        Ok(Err(e)) => return Err((0, "extract-save-reload".into(), format!("{} the saved document cannot be loaded: {} [{}]", class, e, spec.summary()))),
        Ok(Ok(d)) => d,
    };
    run(&re, "after save and reload", "extract-pages-unchanged-after-reload")
}

/// every sequence of 1..=min(p, 3) page numbers out of 1..=p (any subset, any order, repetitions), and for p > 3 every
/// arrangement of all p pages
fn call_family(p: usize) -> Vec<Vec<u32>> {
    let mut out: Vec<Vec<u32>> = vec![];
    let mut frontier: Vec<Vec<u32>> = vec![vec![]];
    for _ in 0..p.min(3) {
        let mut next = vec![];
        for s in &frontier { for q in 1..=p as u32 { let mut t = s.clone(); t.push(q); next.push(t); } }
        out.extend(next.iter().cloned());
        frontier = next;
    }
    if p > 3 {
        fn perms(rest: &mut Vec<u32>, cur: &mut Vec<u32>, out: &mut Vec<Vec<u32>>) {
            if rest.is_empty() { out.push(cur.clone()); return; }
            for i in 0..rest.len() { let x = rest.remove(i); cur.push(x); perms(rest, cur, out); cur.pop(); rest.insert(i, x); }
        }
        perms(&mut (1..=p as u32).collect(), &mut vec![], &mut out);
    }
    out
}

const LAYOUTS: [&str; 8] = [
    "same name /F1, own /Resources at each page",
    "a different name per page, own /Resources at each page",
    "two names /F1 /F2 bound crosswise, own /Resources at each page",
    "same name /F1, own /Resources at an intermediate node of each page",
    "same name /F1, first page inherits the root's /Resources, the others have their own",
    "a name per page, one /Resources at the root inherited by all pages",
    "a name per page, one indirect /Resources shared by all pages",
    "same name /F1, own /Resources alternately at the page and at an intermediate node",
];

/// a text over the repertoire of table t that tells t from each of `others`: a pseudo-random string, then for every other
/// table one character whose code that table reads differently (or not at all)
fn telling_text(t: usize, seed: u64, others: &[usize]) -> String {
    let mut s = random_text(t, seed);
    let mut seen: Vec<usize> = vec![];
    for &u in others {
        if u == t || seen.contains(&u) { continue; }
        seen.push(u);
        if let Some((_, c)) = repertoire(t).iter().find(|(b, c)| *b > 0x20 && tables()[u][*b as usize] != Some(*c)) { s.push(*c); }
    }
    s
}

/// Documents of p pages whose fonts use the tables t[0..p] (page i shows text with table t[i]), in each layout.
fn pages_spec(layout: usize, t: &[usize], shape: (bool, bool, bool), serial: u64) -> MpSpec {
    let p = t.len();
    let lv = |fonts: Vec<(String, usize)>, res_ind: bool| Level { fonts, res_ind, fd_ind: shape.1, font_ind: shape.2 };
    let f = |k: usize| format!("F{}", k);
    let mut dicts: Vec<Level> = vec![];
    let mut root = None;
    // per page: holder, dictionary, (name, table) of the segments
    let mut pages: Vec<(Holder, Option<usize>, Vec<(String, usize)>)> = vec![];
    match layout {
        0 | 3 | 7 => for i in 0..p {
            dicts.push(lv(vec![(f(1), t[i])], shape.0));
            let h = if layout == 0 || (layout == 7 && i % 2 == 0) { Holder::Page } else { Holder::Parent };
            pages.push((h, Some(i), vec![(f(1), t[i])]));
        },
        1 => for i in 0..p {
            dicts.push(lv(vec![(f(i + 1), t[i])], shape.0));
            pages.push((Holder::Page, Some(i), vec![(f(i + 1), t[i])]));
        },
        2 => for i in 0..p {
            let (a, b) = (t[i], t[(i + 1) % p]);
            dicts.push(lv(vec![(f(1), a), (f(2), b)], shape.0));
            pages.push((Holder::Page, Some(i), vec![(f(1), a), (f(2), b), (f(1), a)]));
        },
        4 => for i in 0..p {
            dicts.push(lv(vec![(f(1), t[i])], shape.0));
            if i == 0 { root = Some(0); pages.push((Holder::Root, None, vec![(f(1), t[i])])); } else { pages.push((Holder::Page, Some(i), vec![(f(1), t[i])])); }
        },
        _ => {
            dicts.push(lv((0..p).map(|i| (f(i + 1), t[i])).collect(), layout == 6 || shape.0));
            if layout == 5 { root = Some(0); }
            for i in 0..p { pages.push((if layout == 5 { Holder::Root } else { Holder::Page }, if layout == 5 { None } else { Some(0) }, vec![(f(i + 1), t[i])])); }
        }
    }
    let mut k = 0u64;
    let pages = pages.into_iter().enumerate().map(|(i, (holder, dict, segs))| {
        let segs = segs.into_iter().enumerate().map(|(j, (name, tab))| {
            k += 1;
            // the whole repertoire on one page of every eighth document, telling pseudo-random texts otherwise
            let text = if j == 0 && serial % 8 == 0 && i as u64 == (serial / 8) % p as u64 { full_text(tab) } else { telling_text(tab, serial.wrapping_mul(64).wrapping_add(k), t) };
            (name, text)
        }).collect();
        MpPage { holder, dict, segs }
    }).collect();
    MpSpec { layout: LAYOUTS[layout].to_string(), dicts, root, pages }
}

/// Every assignment of the 5 tables to the pages of a document of 2..=pmax pages x every layout x the direct/indirect
/// shapes; documents of the largest page count of the thorough tier take the two extreme shapes only.
fn pages_family(thorough: bool) -> Vec<MpSpec> {
    let nt = TABLE_NAMES.len();
    let pmax = if thorough { 4 } else { 3 };
    let mut specs = vec![];
    let mut serial = 0u64;
    for p in 2..=pmax {
        let shapes: Vec<(bool, bool, bool)> = if thorough && p < 4 {
            let mut v = vec![];
            for a in [true, false] { for b in [false, true] { for c in [true, false] { v.push((a, b, c)); } } }
            v
        } else { vec![(true, false, true), (false, true, false)] };
        for code in 0..nt.pow(p as u32) {
            let mut c = code;
            let t: Vec<usize> = (0..p).map(|_| { let x = c % nt; c /= nt; x }).collect();
            for layout in 0..LAYOUTS.len() {
                for sh in &shapes { serial += 1; specs.push(pages_spec(layout, &t, *sh, serial)); }
            }
        }
    }
    specs
}

pub fn strings(thorough: bool) -> Report {
    let mut rep = Report::new(&format!("(a) every string of length <= 4 (quick: <= 3) over a 14-character class alphabet {{a, space, LF, NUL, DEL, 0x18, e-acute, U+00FF, U+FEFF, U+FFFE, U+0100, euro, U+D7FF, U+1F600}}; plus lone BOMs and odd-length UTF-16; \
(b) long text strings, each through text_string/decode_text_string and as UTF-8 with BOM: filler^p + wide + 'z' for EVERY p in 0..={} and (filler, wide) in {{(x, U+1F600), (e-acute, U+1F600), (euro, U+1F600), (x, euro), (e-acute, euro)}} (a two-code-unit / multi-byte character at every offset), \
U+1F600^n and 'x' + U+1F600^n for n = 2^k + d, k in 5..={}, d in -2..=2 (surrogate pairs at even and at odd offsets), {} pseudo-random strings over the class alphabet for each of those lengths; \
(c) text extraction from one-page documents, as built and after save_to + load_mem: page tree of depth 1 and 2; the /Resources in effect (ISO 32000-1 7.7.3.4) at the page or at either ancestor, binding /F1 to each of the 5 tables and optionally /F2 to {}; \
every level further out without /Resources or binding /F1, /F2 or both to each of the 5 tables (not in effect); {} direct/indirect shapes of /Resources, /Font and the font dictionaries; \
text = the whole repertoire of the table or a pseudo-random string over it (1..24 characters, half from codes >= 0x80), shown with /F1, /F2, /F1 in turn; \
(d) several pages extracted with ONE call of extract_text, as built and after save_to + load_mem: documents of 2..={} pages x every assignment of the 5 tables to the pages (5^p) x 8 layouts of the fonts \
(own /Resources per page binding the same name /F1 on every page; a different name per page; /F1 and /F2 bound crosswise and shown in turn; own /Resources at an intermediate /Pages node per page; first page inheriting the root's while the others have their own; \
one root dictionary inherited by all pages; one indirect dictionary shared by all pages; holders alternating page / intermediate node) x {} direct/indirect shapes{}; \
calls = EVERY sequence of 1..=3 page numbers out of 1..=p (every subset, order and repetition; single pages included){}; each page shows a pseudo-random text over its table's repertoire followed by one character per other table of the document \
whose code that table reads differently (every eighth document: the whole repertoire on one page); oracle: the text of a call is the text of its pages in call order (resource names are local to a resource dictionary, ISO 32000-1 7.8.3)",
        if thorough { 16_500 } else { 8_200 }, if thorough { 16 } else { 13 }, if thorough { 12 } else { 4 }, if thorough { "each table" } else { "2 other tables" }, if thorough { 16 } else { 4 },
        if thorough { 4 } else { 3 }, if thorough { 8 } else { 2 }, if thorough { " (2 shapes for 4 pages)" } else { "" }, if thorough { " and, for 4 pages, every arrangement of all 4" } else { "" }), true);
    rep.obligations = 10;
    // 2. strings over a class alphabet
    let alpha: Vec<char> = CLASS_ALPHABET.to_vec();
    let maxlen = if thorough { 4 } else { 3 };
    let mut strings: Vec<String> = vec![String::new()];
    let mut frontier = vec![String::new()];
    for _ in 0..maxlen {
        let mut next = vec![];
        for s in &frontier { for c in &alpha { let mut t = s.clone(); t.push(*c); next.push(t); } }
        strings.extend(next.iter().cloned());
        frontier = next;
    }
    for s in &strings {
        rep.case(!s.is_empty());
        if let Err((o, d)) = check_text(s) { rep.fail(&o, d.clone(), json!({"kind": "text", "s": s}), d); }
        if let Err((o, d)) = utf8_bom(s) { rep.fail(&o, d.clone(), json!({"kind": "utf8", "s": s}), d); }
    }
    rep.sample("\"a\\n😀\"".into());
    // odd-length UTF-16 and lone BOMs never panic
    for bytes in [vec![0xFEu8, 0xFF], vec![0xFE, 0xFF, 0x00], vec![0xFE, 0xFF, 0xD8, 0x00], vec![0xEF, 0xBB, 0xBF], vec![0xEF, 0xBB, 0xBF, 0xFF], vec![0xFF, 0xFE, 0x41, 0x00]] {
        rep.case(true);
        if let Err(d) = check_raw(&bytes) { rep.fail("text-no-panic", d.clone(), json!({"kind": "raw", "bytes": hex(&bytes)}), d); }
    }
    // long strings
    let t0 = std::time::Instant::now();
    let longs = long_family(thorough);
    let mut fails: Vec<(usize, String, String)> = longs.par_iter().enumerate().filter_map(|(i, v)| check_long(v).err().map(|(o, d)| (i, o, d))).collect();
    fails.sort();
    for _ in 0..longs.len() { rep.case(true); }
    let total = fails.len();
    for (i, o, d) in fails { rep.fail(&o, format!("[{} of the {} long strings fail] {}", total, longs.len(), d), longs[i].clone(), d.clone()); }
    rep.sample("'x' x p + U+1F600 + 'z' for every p".into());
    if std::env::var("C16_TIMES").is_ok() { eprintln!("long strings: {:?}", t0.elapsed()); }
    // text extraction
    let t0 = std::time::Instant::now();
    let _ = tables();
    let specs = extract_family(thorough);
    let mut fails: Vec<(usize, String, String)> = specs.par_iter().enumerate().filter_map(|(i, s)| check_extract(s).err().map(|(o, d)| (i, o, d))).collect();
    fails.sort();
    for _ in 0..specs.len() { rep.case(true); }
    let total = fails.len();
    for (i, o, d) in fails { rep.fail(&o, format!("[{} of the {} documents fail] {}", total, specs.len(), d), specs[i].to_json(), d.clone()); }
    if std::env::var("C16_TIMES").is_ok() { eprintln!("extraction: {:?}", t0.elapsed()); }
    if let Some(s) = specs.iter().find(|s| s.levels.len() == 3 && s.levels[0].is_some() && s.levels[1].is_some()) { rep.sample(s.summary()); }
    // several pages with one call
    let t0 = std::time::Instant::now();
    let docs = pages_family(thorough);
    let calls: Vec<Vec<Vec<u32>>> = (0..=4).map(call_family).collect();
    let mut fails: Vec<(usize, usize, String, String)> = docs.par_iter().enumerate().filter_map(|(i, s)| check_pages(s, &calls[s.pages.len().min(4)]).err().map(|(ci, o, d)| (i, ci, o, d))).collect();
    fails.sort();
    let mut n_calls = 0usize;
    for s in &docs { for _ in 0..calls[s.pages.len().min(4)].len() { rep.case(true); n_calls += 1; } }
    let total = fails.len();
    for (i, ci, o, d) in fails { rep.fail(&o, format!("[{} of the {} documents ({} calls) fail] {}", total, docs.len(), n_calls, d), docs[i].to_json(&calls[docs[i].pages.len().min(4)][ci]), d.clone()); }
    if std::env::var("C16_TIMES").is_ok() { eprintln!("several pages: {:?} ({} documents, {} calls)", t0.elapsed(), docs.len(), n_calls); }
    if let Some(s) = docs.iter().find(|s| s.pages.len() == 3 && s.root.is_some() && s.dicts.len() == 3 && s.dicts[0].fonts != s.dicts[1].fonts && s.dicts[1].fonts != s.dicts[2].fonts && s.dicts[0].fonts != s.dicts[2].fonts) { rep.sample(format!("one call over pages of: {}", s.summary())); }
    rep
}

fn check_raw(bytes: &[u8]) -> Result<(), String> {
    let o = Object::String(bytes.to_vec(), StringFormat::Literal);
    guarded(|| { let _ = decode_text_string(&o); }).map_err(|p| format!("decode_text_string panicked on {:02x?}: {}", bytes, p))
}

pub fn replay(v: &Value) -> Result<(), String> {
    match v["kind"].as_str() {
        Some("text") => check_text(v["s"].as_str().unwrap_or("")).map_err(|e| format!("{}: {}", e.0, e.1)),
        Some("utf8") => utf8_bom(v["s"].as_str().unwrap_or("")).map_err(|e| format!("{}: {}", e.0, e.1)),
        Some("raw") => check_raw(&unhex(v["bytes"].as_str().unwrap_or(""))),
        Some("long") => check_long(v).map_err(|e| format!("{}: {}", e.0, e.1)),
        Some("extract") => {
            let spec = ExSpec::from_json(v).ok_or("malformed extraction description")?;
            build_extract(&spec).map_err(|e| format!("description outside the family: {}", e))?;
            check_extract(&spec).map_err(|e| format!("{}: {}", e.0, e.1))
        }
        Some("pages") => {
            let (spec, call) = MpSpec::from_json(v).ok_or("malformed description of a document of several pages")?;
            build_pages(&spec).map_err(|e| format!("description outside the family: {}", e))?;
            check_pages(&spec, &[call]).map_err(|e| format!("{}: {}", e.1, e.2))
        }
        Some("table") => {
            let rep = run(false);
            let t = v["table"].as_str().unwrap_or("");
            match rep.failures.iter().find(|f| f.input["table"] == t && f.input["byte"] == v["byte"]) { Some(f) => Err(f.detail.clone()), None => Ok(()) }
        }
        _ => Err("unknown replay kind".into()),
    }
}
