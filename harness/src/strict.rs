//! A strict, independent reader written from ISO 32000-1 7.2-7.5 (shares no code with lopdf's parser).
//! It follows only header, startxref, the cross-reference section and the offsets, and accounts for every byte.
use lopdf::{Dictionary, Object, Stream, StringFormat};
use std::collections::BTreeMap;

pub struct P<'a> { pub b: &'a [u8], pub i: usize }

fn is_ws(c: u8) -> bool { matches!(c, 0 | 9 | 10 | 12 | 13 | 32) }
fn is_delim(c: u8) -> bool { matches!(c, b'(' | b')' | b'<' | b'>' | b'[' | b']' | b'{' | b'}' | b'/' | b'%') }
fn is_regular(c: u8) -> bool { !is_ws(c) && !is_delim(c) }
fn hexval(c: u8) -> Option<u8> { (c as char).to_digit(16).map(|d| d as u8) }

impl<'a> P<'a> {
    pub fn new(b: &'a [u8], i: usize) -> P<'a> { P { b, i } }
    pub fn peek(&self) -> Option<u8> { self.b.get(self.i).copied() }
    pub fn eat(&mut self, lit: &[u8]) -> Result<(), String> {
        if self.b.len() >= self.i + lit.len() && &self.b[self.i..self.i + lit.len()] == lit { self.i += lit.len(); Ok(()) }
        else { Err(format!("expected {:?} at offset {}", String::from_utf8_lossy(lit), self.i)) }
    }
    pub fn skip_ws(&mut self) {
        loop {
            match self.peek() {
                Some(c) if is_ws(c) => self.i += 1,
                Some(b'%') => { while let Some(c) = self.peek() { if c == b'\n' || c == b'\r' { break; } self.i += 1; } }
                _ => break,
            }
        }
    }
    pub fn uint(&mut self) -> Result<u64, String> {
        let s = self.i;
        while let Some(c) = self.peek() { if c.is_ascii_digit() { self.i += 1 } else { break } }
        if s == self.i { return Err(format!("digits expected at {}", s)); }
        std::str::from_utf8(&self.b[s..self.i]).unwrap().parse::<u64>().map_err(|e| format!("{} at {}", e, s))
    }
    fn number(&mut self) -> Result<Object, String> {
        let s = self.i;
        if matches!(self.peek(), Some(b'+') | Some(b'-')) { self.i += 1; }
        let mut dot = false;
        let mut digits = 0;
        while let Some(c) = self.peek() {
            if c.is_ascii_digit() { digits += 1; self.i += 1 } else if c == b'.' && !dot { dot = true; self.i += 1 } else { break }
        }
        if digits == 0 { self.i = s; return Err(format!("number expected at {}", s)); }
        let t = std::str::from_utf8(&self.b[s..self.i]).unwrap();
        if dot { t.parse::<f32>().map(Object::Real).map_err(|e| e.to_string()) }
        else { t.parse::<i64>().map(Object::Integer).map_err(|e| format!("integer {}: {}", t, e)) }
    }
    fn name(&mut self) -> Result<Vec<u8>, String> {
        self.eat(b"/")?;
        let mut out = vec![];
        while let Some(c) = self.peek() {
            if !is_regular(c) { break; }
            if c == b'#' {
                let h = self.b.get(self.i + 1).and_then(|x| hexval(*x));
                let l = self.b.get(self.i + 2).and_then(|x| hexval(*x));
                match (h, l) { (Some(h), Some(l)) => { out.push(h * 16 + l); self.i += 3; } _ => return Err(format!("bad # escape at {}", self.i)) }
            } else { out.push(c); self.i += 1; }
        }
        Ok(out)
    }
    fn literal(&mut self) -> Result<Vec<u8>, String> {
        self.eat(b"(")?;
        let mut depth = 1usize;
        let mut out = vec![];
        loop {
            let c = self.peek().ok_or("unterminated string")?;
            self.i += 1;
            match c {
                b'(' => { depth += 1; out.push(c); }
                b')' => { depth -= 1; if depth == 0 { return Ok(out); } out.push(c); }
                b'\r' => { if self.peek() == Some(b'\n') { self.i += 1; } out.push(b'\n'); }   // 7.3.4.2: EOL reads as LF
                b'\\' => {
                    let e = self.peek().ok_or("unterminated escape")?;
                    self.i += 1;
                    match e {
                        b'n' => out.push(b'\n'), b'r' => out.push(b'\r'), b't' => out.push(b'\t'), b'b' => out.push(8), b'f' => out.push(12),
                        b'(' | b')' | b'\\' => out.push(e),
                        b'\r' => { if self.peek() == Some(b'\n') { self.i += 1; } }
                        b'\n' => {}
                        b'0'..=b'7' => {
                            let mut v = (e - b'0') as u32;
                            for _ in 0..2 { if let Some(d @ b'0'..=b'7') = self.peek() { v = v * 8 + (d - b'0') as u32; self.i += 1; } else { break; } }
                            out.push((v & 0xff) as u8);
                        }
                        other => out.push(other),
                    }
                }
                other => out.push(other),
            }
        }
    }
    fn hexstring(&mut self) -> Result<Vec<u8>, String> {
        self.eat(b"<")?;
        let mut nibbles = vec![];
        loop {
            let c = self.peek().ok_or("unterminated hex string")?;
            self.i += 1;
            if c == b'>' { break; }
            if is_ws(c) { continue; }
            nibbles.push(hexval(c).ok_or(format!("bad hex digit at {}", self.i - 1))?);
        }
        if nibbles.len() % 2 == 1 { nibbles.push(0); }
        Ok(nibbles.chunks(2).map(|p| p[0] * 16 + p[1]).collect())
    }
    pub fn object(&mut self, depth: usize) -> Result<Object, String> {
        if depth > 200 { return Err("nesting too deep for the strict reader".into()); }
        let c = self.peek().ok_or("object expected at end of input")?;
        match c {
            b'/' => Ok(Object::Name(self.name()?)),
            b'(' => Ok(Object::String(self.literal()?, StringFormat::Literal)),
            b'[' => {
                self.i += 1;
                let mut v = vec![];
                loop {
                    self.skip_ws();
                    if self.peek() == Some(b']') { self.i += 1; return Ok(Object::Array(v)); }
                    v.push(self.object(depth + 1)?);
                }
            }
            b'<' => {
                if self.b.get(self.i + 1) == Some(&b'<') {
                    self.i += 2;
                    let mut d = Dictionary::new();
                    loop {
                        self.skip_ws();
                        if self.b[self.i..].starts_with(b">>") { self.i += 2; return Ok(Object::Dictionary(d)); }
                        let k = self.name()?;
                        self.skip_ws();
                        let v = self.object(depth + 1)?;
                        d.set(k, v);
                    }
                } else { Ok(Object::String(self.hexstring()?, StringFormat::Hexadecimal)) }
            }
            b't' => { self.eat(b"true")?; Ok(Object::Boolean(true)) }
            b'f' => { self.eat(b"false")?; Ok(Object::Boolean(false)) }
            b'n' => { self.eat(b"null")?; Ok(Object::Null) }
            _ => {
                // number, or `n g R`
                let save = self.i;
                let first = self.number()?;
                if let Object::Integer(n) = first {
                    let after = self.i;
                    if n >= 0 && self.peek().map(is_ws).unwrap_or(false) {
                        self.skip_ws();
                        let s2 = self.i;
                        if let Ok(g) = self.uint() {
                            if self.peek().map(is_ws).unwrap_or(false) {
                                self.skip_ws();
                                if self.peek() == Some(b'R') && self.b.get(self.i + 1).map(|c| !is_regular(*c)).unwrap_or(true) {
                                    self.i += 1;
                                    return Ok(Object::Reference((n as u32, g as u16)));
                                }
                            }
                        }
                        let _ = s2;
                    }
                    self.i = after;
                }
                let _ = save;
                Ok(first)
            }
        }
    }
}

pub struct Recovered {
    pub version: String,
    pub objects: BTreeMap<(u32, u16), Object>,
    pub trailer: Dictionary,
    pub xref_is_stream: bool,
}

fn be(b: &[u8]) -> u64 { b.iter().fold(0u64, |a, x| (a << 8) | *x as u64) }

/// Strict reading of ONE revision that starts at `start` (0 for a plain save) and ends at the end of `file`.
/// `expect_header`: the revision begins with its own %PDF header and binary comment (lopdf writes one per revision).
pub fn read_revision(file: &[u8], start: usize) -> Result<Recovered, String> {
    let mut p = P::new(file, start);
    p.eat(b"%PDF-")?;
    let vs = p.i;
    while let Some(c) = p.peek() { if c == b'\n' { break; } if c == b'\r' { return Err("CR in header line".into()); } p.i += 1; }
    let version = String::from_utf8_lossy(&file[vs..p.i]).to_string();
    p.eat(b"\n")?;
    p.eat(b"%")?;
    let ms = p.i;
    while let Some(c) = p.peek() { if c == b'\n' { break; } p.i += 1; }
    if p.i - ms < 4 || file[ms..p.i].iter().any(|c| *c < 128) { return Err("binary comment must hold at least four bytes >= 128".into()); }
    p.eat(b"\n")?;
    let body_start = p.i;
    // tail
    if !file.ends_with(b"\n%%EOF") { return Err("file must end with %%EOF".into()); }
    let tail_end = file.len() - 6;
    let mut ds = tail_end;
    while ds > 0 && file[ds - 1].is_ascii_digit() { ds -= 1; }
    if ds == tail_end { return Err("startxref offset missing".into()); }
    let xref_off: usize = std::str::from_utf8(&file[ds..tail_end]).unwrap().parse().map_err(|e| format!("startxref: {}", e))?;
    let kw = b"\nstartxref\n";
    if ds < kw.len() || &file[ds - kw.len()..ds] != kw { return Err("startxref keyword missing before the offset".into()); }
    let sx_start = ds - kw.len();
    if xref_off < body_start || xref_off > sx_start { return Err(format!("startxref {} outside the revision body {}..{}", xref_off, body_start, sx_start)); }
    // cross-reference section
    let mut entries: BTreeMap<u32, (u64, u64, bool)> = BTreeMap::new(); // id -> (offset, gen, in_use)
    let mut p = P::new(file, xref_off);
    let trailer;
    let xref_is_stream;
    let mut crs_obj: Option<(u32, usize)> = None;
    if file[xref_off..].starts_with(b"xref\n") {
        xref_is_stream = false;
        p.eat(b"xref\n")?;
        loop {
            if file[p.i..].starts_with(b"trailer\n") { break; }
            let first = p.uint()?;
            p.eat(b" ")?;
            let count = p.uint()?;
            p.eat(b"\n")?;
            if count == 0 { return Err("empty subsection".into()); }
            for k in 0..count {
                let e = file.get(p.i..p.i + 20).ok_or("truncated xref entry")?;
                let ok = e[..10].iter().all(|c| c.is_ascii_digit()) && e[10] == b' ' && e[11..16].iter().all(|c| c.is_ascii_digit()) && e[16] == b' '
                    && (e[17] == b'n' || e[17] == b'f') && ((e[18] == b' ' && e[19] == b'\n') || (e[18] == b' ' && e[19] == b'\r') || (e[18] == b'\r' && e[19] == b'\n'));
                if !ok { return Err(format!("xref entry at {} is not a well-formed 20-byte entry: {:?}", p.i, String::from_utf8_lossy(e))); }
                let off: u64 = std::str::from_utf8(&e[..10]).unwrap().parse().unwrap();
                let gen: u64 = std::str::from_utf8(&e[11..16]).unwrap().parse().unwrap();
                let id = (first + k) as u32;
                if entries.insert(id, (off, gen, e[17] == b'n')).is_some() { return Err(format!("object {} listed twice", id)); }
                p.i += 20;
            }
        }
        p.eat(b"trailer\n")?;
        let t = p.object(0)?;
        trailer = match t { Object::Dictionary(d) => d, _ => return Err("trailer is not a dictionary".into()) };
        if p.i != sx_start { return Err(format!("{} unaccounted bytes between trailer and startxref", sx_start as i64 - p.i as i64)); }
        if !entries.contains_key(&0) { return Err("object 0 missing from the table".into()); }
    } else {
        xref_is_stream = true;
        let id = p.uint()? as u32;
        p.eat(b" ")?;
        let gen = p.uint()?;
        p.eat(b" obj\n")?;
        let d = match p.object(0)? { Object::Dictionary(d) => d, _ => return Err("xref stream dictionary expected".into()) };
        p.eat(b"stream\n")?;
        let len = d.get(b"Length").and_then(|o| o.as_i64()).map_err(|_| "xref stream without Length")? as usize;
        let data = file.get(p.i..p.i + len).ok_or("xref stream Length beyond file")?;
        p.i += len;
        p.eat(b"\nendstream")?;
        p.skip_ws_strict_one_space();
        p.eat(b"\nendobj\n")?;
        if p.i != sx_start { return Err(format!("{} unaccounted bytes between xref stream and startxref", sx_start as i64 - p.i as i64)); }
        if d.get(b"Type").and_then(|o| o.as_name()).ok() != Some(b"XRef".as_slice()) { return Err("xref stream without /Type /XRef".into()); }
        let w: Vec<usize> = d.get(b"W").and_then(|o| o.as_array()).map_err(|_| "W missing")?.iter().map(|o| o.as_i64().unwrap_or(-1) as usize).collect();
        if w.len() != 3 { return Err("W must have three entries".into()); }
        let size = d.get(b"Size").and_then(|o| o.as_i64()).map_err(|_| "Size missing")?;
        let index: Vec<i64> = match d.get(b"Index") { Ok(o) => o.as_array().map_err(|_| "Index not an array")?.iter().map(|o| o.as_i64().unwrap_or(-1)).collect(), Err(_) => vec![0, size] };
        if index.len() % 2 != 0 { return Err("Index must hold pairs".into()); }
        let rows: i64 = index.chunks(2).map(|c| c[1]).sum();
        let rl = w[0] + w[1] + w[2];
        if rows < 0 || rows as usize * rl != data.len() { return Err(format!("W/Index/Length inconsistent: {} rows x {} bytes != Length {}", rows, rl, data.len())); }
        let mut q = 0;
        for c in index.chunks(2) {
            for k in 0..c[1] {
                let row = &data[q..q + rl];
                q += rl;
                let ty = if w[0] == 0 { 1 } else { be(&row[..w[0]]) };
                let f2 = be(&row[w[0]..w[0] + w[1]]);
                let f3 = be(&row[w[0] + w[1]..]);
                let oid = (c[0] + k) as u32;
                match ty {
                    0 => { entries.insert(oid, (0, f3, false)); }
                    1 => { if entries.insert(oid, (f2, f3, true)).is_some() { return Err(format!("object {} listed twice", oid)); } }
                    2 => return Err("compressed entries are not produced by lopdf's writer".into()),
                    _ => return Err("unknown xref stream entry type".into()),
                }
            }
        }
        match entries.get(&id) { Some((off, g, true)) if *off as usize == xref_off && *g == gen => {}, _ => return Err("xref stream does not list itself at its own offset".into()) }
        crs_obj = Some((id, xref_off));
        trailer = d;
    }
    let size = trailer.get(b"Size").and_then(|o| o.as_i64()).map_err(|_| "trailer without Size")?;
    if let Some((maxid, _)) = entries.iter().next_back() { if (*maxid as i64) >= size { return Err(format!("Size {} does not exceed object number {}", size, maxid)); } }
    // objects, in offset order, contiguous from body_start to xref_off
    let mut by_off: Vec<(u64, u32, u64)> = entries.iter().filter(|(_, e)| e.2).map(|(id, e)| (e.0, *id, e.1)).collect();
    by_off.sort();
    let mut objects = BTreeMap::new();
    let mut cursor = body_start;
    for (off, id, gen) in by_off {
        if Some((id, off as usize)) == crs_obj { continue; }
        if off as usize != cursor { return Err(format!("object {} is recorded at offset {} but the previous object ends at {}", id, off, cursor)); }
        let mut p = P::new(file, off as usize);
        let rid = p.uint()?;
        p.eat(b" ")?;
        let rgen = p.uint()?;
        p.eat(b" obj\n")?;
        if rid as u32 != id || rgen != gen { return Err(format!("offset {} holds object {} {} but the table says {} {}", off, rid, rgen, id, gen)); }
        if p.peek() == Some(b' ') { p.i += 1; }
        let mut o = p.object(0)?;
        if let Object::Dictionary(d) = &o {
            if file[p.i..].starts_with(b"stream\n") {
                p.i += 7;
                let len = d.get(b"Length").and_then(|o| o.as_i64()).map_err(|_| format!("stream {} without direct Length", id))? as usize;
                let data = file.get(p.i..p.i + len).ok_or("stream Length beyond file")?.to_vec();
                p.i += len;
                p.eat(b"\nendstream").map_err(|e| format!("object {}: Length {} does not end at endstream: {}", id, len, e))?;
                let mut st = Stream::new(d.clone(), data);
                st.dict = d.clone();
                o = Object::Stream(st);
            }
        }
        if p.peek() == Some(b' ') { p.i += 1; }
        p.eat(b"\nendobj\n").map_err(|e| format!("object {}: {}", id, e))?;
        cursor = p.i;
        objects.insert((id, gen as u16), o);
    }
    if cursor != xref_off { return Err(format!("startxref/xref offset {} but the last object ends at {}", xref_off, cursor)); }
    Ok(Recovered { version, objects, trailer, xref_is_stream })
}

impl<'a> P<'a> {
    fn skip_ws_strict_one_space(&mut self) { if self.peek() == Some(b' ') { self.i += 1; } }
}
