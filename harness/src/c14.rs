//! C14: content streams survive encode and decode (bounded stand-in for the nom operator/operand parsers).
#![allow(dead_code)]
use crate::c03::{obj_from_json, obj_json};
use crate::common::*;
use crate::gen::*;
use lopdf::content::{Content, Operation};
use lopdf::{Object, StringFormat};
use rayon::prelude::*;
use serde_json::{json, Value};

fn direct_alphabet() -> Vec<Object> {
    let mut v: Vec<Object> = leaves().into_iter().filter(|o| !matches!(o, Object::Reference(_))).collect();
    v.extend(containers().into_iter().filter(|o| !has_ref_or_stream(o)));
    v
}
fn has_ref_or_stream(o: &Object) -> bool {
    match o {
        Object::Reference(_) | Object::Stream(_) => true,
        Object::Array(a) => a.iter().any(has_ref_or_stream),
        Object::Dictionary(d) => d.iter().any(|(_, v)| has_ref_or_stream(v)),
        _ => false,
    }
}
const OPERATORS: &[&str] = &["Tj", "T*", "'", "\"", "re", "BT", "q", "W*", "Do", "n", "TJ", "f*"];

fn ops_eq(a: &[Operation], b: &[Operation]) -> bool {
    a.len() == b.len() && a.iter().zip(b).all(|(x, y)| x.operator == y.operator && x.operands.len() == y.operands.len() && x.operands.iter().zip(&y.operands).all(|(p, q)| obj_eq(p, q)))
}

pub fn check_ops(ops: &[Operation]) -> Result<(), (String, String)> {
    let c = Content { operations: ops.to_vec() };
    let enc = match guarded(std::panic::AssertUnwindSafe(|| c.encode())) { Ok(Ok(e)) => e, other => return Err(("encode".into(), format!("{:?}", other.map(|r| r.map_err(|e| e.to_string()))))) };
    match guarded(|| Content::decode(&enc)) {
        Err(p) => Err(("decode-no-panic".into(), p)),
        Ok(Err(e)) => Err(("decode-equals-encoded".into(), format!("encoded {:?} fails to decode: {}", String::from_utf8_lossy(&enc), e))),
        Ok(Ok(d)) => if ops_eq(ops, &d.operations) { Ok(()) } else { Err(("decode-equals-encoded".into(), format!("{:?} encoded as {:?} decodes to {:?}", ops, String::from_utf8_lossy(&enc), d.operations))) },
    }
}

fn ops_json(ops: &[Operation]) -> Value { json!({"kind": "ops", "ops": ops.iter().map(|o| json!({"op": o.operator, "args": o.operands.iter().map(obj_json).collect::<Vec<_>>()})).collect::<Vec<_>>()}) }
fn ops_from_json(v: &Value) -> Vec<Operation> { v["ops"].as_array().cloned().unwrap_or_default().iter().map(|o| Operation::new(o["op"].as_str().unwrap_or("x"), o["args"].as_array().cloned().unwrap_or_default().iter().map(obj_from_json).collect())).collect() }

fn inline_image_bytes(w: usize, h: usize, cs: &str, ncol: usize, bpc: usize, abbreviated: bool, seed: u8) -> Vec<u8> {
    let stride = (w * ncol * bpc + 7) / 8;
    let data: Vec<u8> = (0..stride * h).map(|i| (i as u8).wrapping_mul(37).wrapping_add(seed)).collect();
    let mut b = Vec::new();
    b.extend_from_slice(b"q\nBI ");
    if abbreviated { b.extend_from_slice(format!("/W {} /H {} /BPC {} /CS /{} ", w, h, bpc, cs).as_bytes()); }
    else { b.extend_from_slice(format!("/Width {} /Height {} /BitsPerComponent {} /ColorSpace /{} ", w, h, bpc, cs).as_bytes()); }
    b.extend_from_slice(b"ID ");
    b.extend_from_slice(&data);
    b.extend_from_slice(b" EI\nQ");
    b
}

pub fn check_inline(bytes: &[u8]) -> Result<bool, (String, String)> {
    let d1 = match guarded(|| Content::decode(bytes)) { Ok(Ok(d)) => d, Ok(Err(e)) => return Err(("inline-decodes".into(), format!("{}", e))), Err(p) => return Err(("decode-no-panic".into(), p)) };
    if !d1.operations.iter().any(|o| o.operator == "BI") { return Err(("inline-decodes".into(), format!("no BI operation decoded from {:?}", String::from_utf8_lossy(bytes)))); }
    let enc = match guarded(std::panic::AssertUnwindSafe(|| d1.encode())) { Ok(Ok(e)) => e, other => return Err(("inline-reencode".into(), format!("{:?}", other.map(|r| r.map_err(|e| e.to_string()))))) };
    match guarded(|| Content::decode(&enc)) {
        Ok(Ok(d2)) if ops_eq(&d1.operations, &d2.operations) => Ok(true),
        Ok(Ok(d2)) => Err(("inline-reencode".into(), format!("decode -> encode -> decode changed the operations: {} operations became {} (re-encoded bytes start {:?})", d1.operations.len(), d2.operations.len(), String::from_utf8_lossy(&enc[..enc.len().min(60)])))),
        Ok(Err(e)) => Err(("inline-reencode".into(), format!("re-encoded content fails to decode: {}", e))),
        Err(p) => Err(("decode-no-panic".into(), p)),
    }
}

pub fn run(thorough: bool) -> Report {
    let mut rep = Report::new("single operations: 12 operators x 0..2 operands over the direct-object alphabet (all combinations); sequences of 2 and 3 operations over a 9-operation set (all); all 65 536 byte pairs as name / literal / hex string operands; inline images: W,H in 1..3 x {G,RGB,CMYK and long names} x BPC {1,8} x abbreviated/long keys; nesting depth: a TJ operand that is an array / a dictionary / alternating arrays and dictionaries (every level with leaf siblings before and after the nested child) / a literal string of balanced parentheses, nested 1..L-1 deep (every depth; L = 32 for arrays and dictionaries, 100 for parentheses: the parser's nesting limits) must round-trip, nested L, L+1, L+2, 99, 100, 101, 150, 200 deep must round-trip or be rejected with an error; thread history: these nesting probes plus an ordinary text sequence, a bare operator and an inline image are checked in turn on a fresh thread, and again on a fresh thread that first decoded each history over a 27-item alphabet of earlier Content::decode inputs (well-formed content nested L-1 / L / L+1 / 200 deep in each shape, truncated content with 50 / 100 / 101 / 150 / 200 unclosed openers, stray closers, an inline image with missing data, an ordinary sequence, a valid inline image): every single item repeated {1, 3, 33, 100} times (thorough: {1, 2, 3, 31, 32, 33, 100, 250}), every ordered pair over a 12-item sub-alphabet (thorough: every ordered pair of all 27 items and every ordered triple over the 12-item sub-alphabet); each of the 431 distinct items is also decoded on a fresh thread of its own; what a thread decoded before, accepted or rejected, must not change any result; \
sizes: between BT and ET, one operation carrying a name / literal string / hexadecimal string of n bytes filled with each of {letters, bytes 0x80.., delimiters and white space, digits}, placed as the only operand, as the first of two operands, as an array element, as a dictionary value and (names) as a dictionary key; an operator of n letters; an operation with n operands; an array of n elements; a dictionary of n entries; a run of n operations -- for every n in 0..=260 (thorough: 0..=1100) and n = 2^k - 1, 2^k, 2^k + 1 for k = 9..13 (thorough: k = 9..16) (the property bounds no length, so every one must decode to what was encoded); \
inline image dictionaries: the four required entries (Width, Height, BitsPerComponent, ColorSpace) plus every subset of at most 2 (thorough: every subset) of the five optional entries the decoder supports (Decode, ImageMask, Intent, Interpolate and Length of ISO 32000-2 table 91; Filter / DecodeParms are refused by the decoder), written in EVERY order of the entries, x key spelling {all abbreviated, all full, alternating} x colour space {Gray, RGB, CMYK} (thorough: orders with 3 or more optional entries in one of these 9 combinations each, rotating with the order's number), with W, H in 1..3 and BPC in {1, 2, 4, 8} rotating with the order's number: the decoded operations must be q, BI, Q with exactly the written entries and data, and decode(encode(decoded)) must equal them; \
inline image data: the same two checks for a 1x1 8-bit gray image with each of the 256 data bytes and a 2x1 one with each of the 65 536 pairs of data bytes (sample data are arbitrary bytes); \
names and strings inside inline image dictionaries: every byte string of 0, 1 and 2 bytes (65 793 strings) in each of four places of a 1x1 gray inline image -- as the KEY of an additional entry (/<bytes> 7; the keys of ISO 32000-2 table 91 excepted), as the name value of Intent, as the literal string value and as the hexadecimal string value of an additional entry /Note -- each in two spellings made by the harness (names: only the bytes that must be escaped written as #XX / every byte written as #xx; literal strings: only the necessary escapes / every byte as \\ddd; hexadecimal strings: upper / lower case digits), the entry standing before, between or after the four required ones (rotating): the same two checks (decodes to q, BI, Q with exactly the written entries and data; decode(encode(decoded)) equals the decoded operations); \
real operand values: (a) boundary values of decimal -> binary conversion: for every binary exponent of f32 (the subnormal range included) and every power of ten 10^e that is at least half a unit in the last place there, every decimal d x 10^e in the exponent's range that lies within 2^-16 units in the last place of the midpoint of two adjacent f32 values contributes these two values with both signs (where more than 4096 decimals of one power of ten and exponent qualify -- the grids on which every second or fourth decimal lies ON a midpoint -- 4096 or fewer evenly spaced ones of them); about 274 000 values x 2 signs, each alone in a content stream as an operand of cm and as an element of the array operand of d; (b) consecutive bit patterns: one content stream for each block of 4096 consecutive finite f32 bit patterns (six as the operands of a cm, the next eight in the array operand of a d, alternately), for 17 of the 2048 blocks of every sign and exponent (every 128th and the last one; 35 512 320 values) -- thorough: for ALL blocks of the positive values, that is every one of the 2 139 095 040 positive finite f32 bit patterns (zero and the subnormal ones included), and for 257 of the 2048 blocks of every exponent of the negative ones (every 8th and the last one; 268 431 360 values); every real must come back as the same f32 (or as the integer of the same value)", true);
    let alpha = direct_alphabet();
    // 1. single operations
    let mut cases: Vec<Vec<Operation>> = vec![];
    for op in OPERATORS {
        cases.push(vec![Operation::new(op, vec![])]);
        for a in &alpha { cases.push(vec![Operation::new(op, vec![a.clone()])]); }
    }
    let step = if thorough { 1 } else { 3 };
    for (i, a) in alpha.iter().enumerate() { for (j, b) in alpha.iter().enumerate() { if (i + j) % step == 0 { cases.push(vec![Operation::new(OPERATORS[(i + j) % OPERATORS.len()], vec![a.clone(), b.clone()])]); } } }
    // 2. sequences
    let small: Vec<Operation> = vec![
        Operation::new("BT", vec![]), Operation::new("Tf", vec![name(b"F1"), Object::Integer(12)]), Operation::new("Tj", vec![lit(b"a(b\\c")]),
        Operation::new("'", vec![lit(b"x")]), Operation::new("\"", vec![Object::Integer(1), Object::Real(0.5), lit(b")")]), Operation::new("TJ", vec![Object::Array(vec![lit(b"A"), Object::Integer(-120), hexs(b"\x00\xff")])]),
        Operation::new("ET", vec![]), Operation::new("re", vec![Object::Integer(i64::MIN), Object::Integer(i64::MAX), Object::Real(-0.001), Object::Null]), Operation::new("BDC", vec![name(b"Span"), Object::Dictionary(dict(vec![(b"MCID", Object::Integer(0))]))]),
    ];
    for a in &small { for b in &small { cases.push(vec![a.clone(), b.clone()]); for c in &small { cases.push(vec![a.clone(), b.clone(), c.clone()]); } } }
    for ops in &cases {
        rep.case(!ops[0].operands.is_empty());
        if let Err((o, d)) = check_ops(ops) { rep.fail(&o, d.clone(), ops_json(ops), d); }
    }
    rep.sample(format!("{:?}", cases[17]));
    // 3. byte pairs
    let fails: Vec<(String, String, Value)> = (0u32..65536).into_par_iter().filter_map(|v| {
        let bytes = vec![(v >> 8) as u8, v as u8];
        for o in [Object::Name(bytes.clone()), Object::String(bytes.clone(), StringFormat::Literal), Object::String(bytes.clone(), StringFormat::Hexadecimal)] {
            let ops = vec![Operation::new("Tj", vec![o.clone(), Object::Integer(1), o])];
            if let Err((ob, d)) = check_ops(&ops) { return Some((ob, d, ops_json(&ops))); }
        }
        None
    }).collect();
    rep.evaluations += 3 * 65536; rep.nontrivial += 3 * 65536;
    for (o, d, i) in fails { rep.fail(&o, d.clone(), i, d); }
    // 4. inline images
    for w in 1..=3 { for h in 1..=3 { for (cs, n) in [("G", 1), ("RGB", 3), ("CMYK", 4), ("DeviceGray", 1), ("DeviceRGB", 3), ("DeviceCMYK", 4)] { for bpc in [1, 8] { for abbr in [true, false] { for seed in [0u8, 0x45] {
        let b = inline_image_bytes(w, h, cs, n, bpc, abbr, seed);
        rep.case(true);
        if let Err((o, d)) = check_inline(&b) { rep.fail(&o, d.clone(), json!({"kind": "inline", "bytes": hex(&b)}), d); }
    } } } } } }
    // 5. nesting depth x thread history
    histories_section(&mut rep, thorough);
    // 6. sizes of tokens and lists
    sizes_section(&mut rep, thorough);
    // 7. inline image dictionaries: optional entries x entry order
    image_dict_section(&mut rep, thorough);
    // 8. inline image data bytes
    image_data_section(&mut rep);
    // 9. names and strings inside inline image dictionaries
    image_names_section(&mut rep);
    // 10. real operand values
    reals_section(&mut rep, thorough);
    rep
}

pub fn replay(v: &Value) -> Result<(), String> {
    match v["kind"].as_str() {
        Some("ops") => check_ops(&ops_from_json(v)).map_err(|e| format!("{}: {}", e.0, e.1)),
        Some("history") => replay_history(v),
        Some("sized") => with_quiet_panics(|| check_sized(&SizedCase::from_json(v).ok_or("bad sized case")?).map_err(|e| format!("{}: {}", e.0, e.1))),
        Some("image") => with_quiet_panics(|| check_image(&ImageSpec::from_json(v).ok_or("bad image case")?).map_err(|e| format!("{}: {}", e.0, e.1))),
        Some("real") => with_quiet_panics(|| { let (bits, place) = (v["bits"].as_u64().ok_or("bad real case")? as u32, v["place"].as_u64().unwrap_or(0).min(1) as usize);
            if v["alone"].as_bool().unwrap_or(true) { check_real(bits, place) } else { check_real_in_block(bits) }.map_err(|e| format!("{}: {}", e.0, e.1)) }),
        Some("image-name") => with_quiet_panics(|| ImageNameCase::from_json(v).ok_or("bad image-name case")?.check().map_err(|e| format!("{}: {}", e.0, e.1))),
        Some("inline") => check_inline(&unhex(v["bytes"].as_str().unwrap_or(""))).map(|_| ()).map_err(|e| format!("{}: {}", e.0, e.1)),
        _ => Err("unknown replay kind".into()),
    }
}

// ---------------------------------------------------------------------------------------------------------------
// Nesting depth and thread history.
//
// The property quantifies over operands "nested arbitrarily" and over every call of decode, whatever the calling
// thread decoded before. The parser documents one limit: arrays, dictionaries and the parentheses of a literal
// string may nest at most MAX_BRACKET deep, deeper input is rejected. So an `Item` below is one piece of content,
// a case is a sequence of items decoded one after the other on ONE fresh thread (the history, then the probes), and
// the expected result of every step is a function of that step's item alone:
//   well-formed, nested at most deepest(shape) deep : decode(encode(ops)) == ops
//   well-formed, nested deeper               : decode(encode(ops)) == ops, or decode returns an error
//   malformed (truncated, stray closers)     : anything but a panic
const PLIMIT: usize = 100; // parentheses of a literal string: lopdf::reader::MAX_BRACKET
const CLIMIT: usize = 32; // arrays and dictionaries: MAX_CONTAINER_DEPTH in src/parser/mod.rs (private; /repo repair of the 2 MiB stack overflow)
fn limit(shape: Shape) -> usize { if matches!(shape, Shape::Parens | Shape::Stray) { PLIMIT } else { CLIMIT } }
/// every nesting up to here must be accepted
fn deepest(shape: Shape) -> usize { limit(shape) - 1 }

#[derive(Clone, Copy, PartialEq, Eq, Debug)]
enum Shape { Ordinary, Bare, Inline, BadInline, Array, Dict, Mixed, Parens, Stray }
const SHAPES: &[(Shape, &str)] = &[(Shape::Ordinary, "ordinary"), (Shape::Bare, "bare"), (Shape::Inline, "inline"), (Shape::BadInline, "bad-inline"), (Shape::Array, "array"),
    (Shape::Dict, "dict"), (Shape::Mixed, "mixed"), (Shape::Parens, "parens"), (Shape::Stray, "stray")];

/// one piece of content: `closed` = well-formed (built as operations and encoded by the library), otherwise only the `depth` openers (raw bytes)
#[derive(Clone, Copy, PartialEq, Eq, Debug)]
struct Item { shape: Shape, depth: usize, closed: bool }
fn item(shape: Shape, depth: usize, closed: bool) -> Item { Item { shape, depth, closed } }

enum Payload { Ops(Vec<Operation>), Inline(Vec<u8>), Raw(Vec<u8>) }

fn nested(shape: Shape, depth: usize) -> Object {
    // level 1 is the innermost container; the outermost (level `depth`) of Mixed is an array
    let is_array = |level: usize| match shape { Shape::Array => true, Shape::Dict => false, _ => (depth - level) % 2 == 0 };
    let mut o = if is_array(1) { Object::Array(vec![Object::Integer(7), name(b"Leaf")]) } else { Object::Dictionary(dict(vec![(b"A", Object::Integer(7)), (b"B", name(b"Leaf"))])) };
    for level in 2..=depth {
        o = if is_array(level) { Object::Array(vec![Object::Integer(1), o, lit(b"x")]) } else { Object::Dictionary(dict(vec![(b"A", Object::Integer(1)), (b"K", o), (b"Z", lit(b"x"))])) };
    }
    o
}

impl Item {
    fn nesting(&self) -> bool { matches!(self.shape, Shape::Array | Shape::Dict | Shape::Mixed | Shape::Parens) }
    fn payload(&self) -> Payload {
        let d = self.depth;
        match (self.shape, self.closed) {
            (Shape::Ordinary, _) => Payload::Ops(vec![
                Operation::new("BT", vec![]), Operation::new("Tf", vec![name(b"F1"), Object::Integer(12)]), Operation::new("Td", vec![Object::Integer(100), Object::Integer(600)]),
                Operation::new("TJ", vec![Object::Array(vec![lit(b"Hello"), Object::Integer(-120), lit(b"World")])]), Operation::new("ET", vec![])]),
            (Shape::Bare, _) => Payload::Ops(vec![Operation::new("q", vec![])]),
            (Shape::Inline, _) => Payload::Inline(inline_image_bytes(2, 2, "RGB", 3, 8, true, 0x45)),
            (Shape::BadInline, _) => Payload::Raw(b"q\nBI /W 4 /H 4 /BPC 8 /CS /RGB ID abc EI\nQ".to_vec()),
            (Shape::Stray, _) => Payload::Raw([&b"q\n"[..], &b"] >> ) ".repeat(d), &b"Q"[..]].concat()),
            (Shape::Parens, true) => Payload::Ops(vec![Operation::new("q", vec![]), Operation::new("Tj", vec![lit(&[b"(".repeat(d), b"x".to_vec(), b")".repeat(d)].concat()), Object::Integer(d as i64)]), Operation::new("Q", vec![])]),
            (_, true) => Payload::Ops(vec![Operation::new("q", vec![]), Operation::new("TJ", vec![nested(self.shape, d), Object::Integer(d as i64)]), Operation::new("Q", vec![])]),
            (Shape::Parens, false) => Payload::Raw([&b"q\n"[..], &b"(".repeat(d + 1), &b"x Tj\nQ"[..]].concat()), // d + 1: a string's own parentheses are not nesting
            (shape, false) => {
                let mut b = b"q\n".to_vec();
                for i in 0..d { if shape == Shape::Array || (shape == Shape::Mixed && i % 2 == 0) { b.extend_from_slice(b"[1 "); } else { b.extend_from_slice(b"<</A 1/K "); } }
                b.extend_from_slice(b"7 TJ\nQ");
                Payload::Raw(b)
            }
        }
    }
    fn describe(&self) -> String {
        let what = match self.shape {
            Shape::Ordinary => return "an ordinary text sequence (BT Tf Td TJ ET)".into(), Shape::Bare => return "the bare operator q".into(), Shape::Inline => return "a valid 2x2 RGB inline image".into(),
            Shape::BadInline => return "an inline image with too little data".into(), Shape::Stray => return format!("{} stray closers '] >> )'", self.depth),
            Shape::Array => "an array", Shape::Dict => "a dictionary", Shape::Mixed => "alternating arrays and dictionaries", _ => "a literal string of balanced parentheses",
        };
        if self.closed { format!("q / TJ / Q whose operand is {} nested {} deep", what, self.depth) } else { format!("truncated content: {} unclosed openers of {}", self.depth, what) }
    }
    fn to_json(&self) -> Value { json!({"shape": SHAPES.iter().find(|s| s.0 == self.shape).unwrap().1, "depth": self.depth, "closed": self.closed}) }
    fn from_json(v: &Value) -> Option<Item> {
        let shape = SHAPES.iter().find(|s| Some(s.1) == v["shape"].as_str())?.0;
        Some(Item { shape, depth: v["depth"].as_u64()? as usize, closed: v["closed"].as_bool()? })
    }
}

type Outcome = Result<&'static str, (String, String)>;

/// like common::guarded, without exchanging the process-wide panic hook twice per call (340 000 steps on 16 threads would queue on its lock);
/// `histories_section` installs a quiet hook that records the location once for all its threads
static PANIC_AT: std::sync::Mutex<String> = std::sync::Mutex::new(String::new());
fn caught<T>(f: impl FnOnce() -> T) -> Result<T, String> {
    std::panic::catch_unwind(std::panic::AssertUnwindSafe(f)).map_err(|e| {
        let msg = if let Some(s) = e.downcast_ref::<String>() { s.clone() } else if let Some(s) = e.downcast_ref::<&str>() { s.to_string() } else { "panic".to_string() };
        format!("panic: {} at {}", msg, PANIC_AT.lock().map(|g| g.clone()).unwrap_or_default())
    })
}
fn with_quiet_panics<T>(f: impl FnOnce() -> T) -> T {
    let prev = std::panic::take_hook();
    std::panic::set_hook(Box::new(|info| { if let (Some(l), Ok(mut g)) = (info.location(), PANIC_AT.lock()) { *g = format!("{}:{}", l.file(), l.line()); } }));
    let r = f();
    std::panic::set_hook(prev);
    r
}

/// decode one item on the current thread: Ok(what happened) or Err((obligation, detail)); the verdict depends on the item only
fn run_step(it: &Item) -> Outcome {
    match it.payload() {
        Payload::Raw(bytes) => match caught(|| Content::decode(&bytes)) { Ok(Ok(_)) => Ok("decoded"), Ok(Err(_)) => Ok("rejected"), Err(p) => Err(("decode-no-panic".into(), format!("{}: {}", it.describe(), p))) },
        Payload::Inline(bytes) => check_inline(&bytes).map(|_| "round-trips").map_err(|(o, d)| (o, format!("{}: {}", it.describe(), d))),
        Payload::Ops(ops) => {
            let c = Content { operations: ops.clone() };
            let enc = match caught(|| c.encode()) { Ok(Ok(e)) => e, other => return Err(("encode".into(), format!("{}: {:?}", it.describe(), other.map(|r| r.map_err(|e| e.to_string()))))) };
            let must_accept = !it.nesting() || it.depth <= deepest(it.shape);
            let shown = if enc.len() <= 80 { String::from_utf8_lossy(&enc).to_string() } else { format!("{} ... {}", String::from_utf8_lossy(&enc[..40]), String::from_utf8_lossy(&enc[enc.len() - 30..])) };
            match caught(|| Content::decode(&enc)) {
                Err(p) => Err(("decode-no-panic".into(), format!("{}: {}", it.describe(), p))),
                Ok(Err(_)) if !must_accept => Ok("rejected"),
                Ok(Err(e)) => Err(("decode-equals-encoded".into(), format!("{}{}: the {} encoded bytes {:?} fail to decode: {}", it.describe(), if it.nesting() { format!(" (within the nesting limit of {})", limit(it.shape)) } else { String::new() }, enc.len(), shown, e))),
                Ok(Ok(d)) if ops_eq(&ops, &d.operations) => Ok("round-trips"),
                Ok(Ok(d)) => Err(("decode-equals-encoded".into(), format!("{}: the {} encoded bytes {:?} are neither rejected nor decoded to the {} encoded operations: decode returns Ok with {} operations [{}]",
                    it.describe(), enc.len(), shown, ops.len(), d.operations.len(), d.operations.iter().map(|o| format!("{}/{}", o.operator, o.operands.len())).collect::<Vec<_>>().join(" ")))),
            }
        }
    }
}

/// own thread (fresh thread-local parser state) with a roomy stack: the parser recurses once per nesting level
fn on_fresh_thread<T: Send + 'static>(f: impl FnOnce() -> T + Send + 'static) -> T {
    std::thread::Builder::new().stack_size(64 << 20).spawn(f).expect("spawn").join().expect("the steps catch their panics")
}

/// decode the steps one after the other on one fresh thread; returns the outcome of every step
fn run_steps(steps: Vec<Item>) -> Vec<Outcome> { on_fresh_thread(move || steps.iter().map(run_step).collect()) }
/// the result of the last step of `steps`, decoded on one fresh thread after all the others
fn last_outcome(steps: Vec<Item>) -> Outcome { run_steps(steps).pop().expect("at least one step") }

fn probes() -> Vec<Item> {
    let mut v = vec![item(Shape::Ordinary, 0, true), item(Shape::Bare, 0, true), item(Shape::Inline, 0, true)];
    for shape in [Shape::Array, Shape::Dict, Shape::Mixed, Shape::Parens] {
        for d in 1..=deepest(shape) { v.push(item(shape, d, true)); }
        for d in [limit(shape), limit(shape) + 1, limit(shape) + 2, 99, 100, 101, 150, 200] { v.push(item(shape, d, true)); }
    }
    v
}

/// what a thread may have decoded earlier; the first TRIPLE_ALPHABET items are the sub-alphabet of the triples (and of the quick tier's pairs)
const TRIPLE_ALPHABET: usize = 12;
fn history_alphabet() -> Vec<Item> {
    use Shape::*;
    vec![
        // well-formed, at and beyond the limit
        item(Array, CLIMIT, true), item(Array, CLIMIT + 1, true), item(Dict, CLIMIT + 1, true), item(Mixed, CLIMIT + 1, true), item(Parens, PLIMIT + 1, true),
        // truncated
        item(Array, CLIMIT + 1, false), item(Dict, CLIMIT + 1, false), item(Array, 50, false), item(Parens, 150, false),
        // accepted
        item(Array, (CLIMIT - 1), true), item(Ordinary, 0, true), item(Inline, 0, true),
        // (single repetitions and the thorough tier's pairs only)
        item(Array, 200, true), item(Dict, CLIMIT, true), item(Dict, 200, true), item(Mixed, 200, true), item(Parens, 200, true),
        item(Array, CLIMIT, false), item(Array, 200, false), item(Dict, 50, false), item(Mixed, CLIMIT + 1, false), item(Parens, 50, false),
        item(Stray, 1, false), item(Stray, PLIMIT + 1, false), item(BadInline, 0, false),
        item(Dict, (CLIMIT - 1), true), item(Mixed, (CLIMIT - 1), true),
    ]
}

fn histories(thorough: bool) -> Vec<Vec<(Item, usize)>> {
    let alpha = history_alphabet();
    let mut v: Vec<Vec<(Item, usize)>> = vec![vec![]];
    let reps: &[usize] = if thorough { &[1, 2, 3, CLIMIT - 1, CLIMIT, CLIMIT + 1, PLIMIT, 250] } else { &[1, 3, CLIMIT + 1, PLIMIT] };
    for a in &alpha { for &r in reps { v.push(vec![(*a, r)]); } }
    let pairs = if thorough { &alpha[..] } else { &alpha[..TRIPLE_ALPHABET] };
    for a in pairs { for b in pairs { v.push(vec![(*a, 1), (*b, 1)]); } }
    if thorough { let t = &alpha[..TRIPLE_ALPHABET]; for a in t { for b in t { for c in t { v.push(vec![(*a, 1), (*b, 1), (*c, 1)]); } } } }
    v
}

fn expand(h: &[(Item, usize)]) -> Vec<Item> { h.iter().flat_map(|(it, n)| std::iter::repeat(*it).take(*n)).collect() }
fn compress(steps: &[Item]) -> Vec<(Item, usize)> {
    let mut v: Vec<(Item, usize)> = vec![];
    for s in steps { match v.last_mut() { Some((it, n)) if it == s => *n += 1, _ => v.push((*s, 1)) } }
    v
}
fn history_json(h: &[(Item, usize)], probe: &Item) -> Value {
    json!({"kind": "history", "history": h.iter().map(|(it, n)| { let mut j = it.to_json(); j["times"] = json!(n); j }).collect::<Vec<_>>(), "probe": probe.to_json()})
}
fn describe_history(h: &[(Item, usize)], outcomes: &[Outcome]) -> String {
    let mut at = 0;
    let mut parts = vec![];
    for (it, n) in h {
        let mut seen: Vec<&str> = vec![];
        for o in &outcomes[at..at + n] { let l = match o { Ok(l) => *l, Err(_) => "FAILED" }; if !seen.contains(&l) { seen.push(l); } }
        at += n;
        if parts.len() < 6 { parts.push(format!("{} x {} [{}]", n, it.describe(), seen.join(", "))); }
    }
    if h.len() > 6 { parts.push(format!("... ({} more entries, see the recorded input)", h.len() - 6)); }
    parts.join("; then ")
}

fn histories_section(rep: &mut Report, thorough: bool) {
    let probes = probes();
    let hs = histories(thorough);
    rep.sample(format!("history {:?} then {} probes", hs[40], probes.len()));
    with_quiet_panics(|| {
        // a. every item on a fresh thread of its own (no history at all)
        let mut singles = probes.clone();
        for it in history_alphabet() { if !singles.contains(&it) { singles.push(it); } }
        let alone: Vec<Outcome> = singles.par_iter().map(|it| last_outcome(vec![*it])).collect();
        let mut fails_alone: Vec<Item> = vec![];
        for (it, o) in singles.iter().zip(alone) {
            rep.case(true);
            if let Err((obligation, detail)) = o { fails_alone.push(*it); let d = format!("{} (on a fresh thread, nothing decoded before)", detail); rep.fail(&obligation, d.clone(), history_json(&[], it), d); }
        }
        // b. every history, then all the probes in turn, on one fresh thread; only what section a did not already report is of interest here
        let results: Vec<(u64, Option<(String, Value)>)> = hs.par_iter().map(|h| {
            let hist = expand(h);
            let mut steps = hist.clone();
            steps.extend(probes.iter().cloned());
            let outcomes = run_steps(steps.clone());
            let failing: Vec<usize> = outcomes.iter().enumerate().filter(|(i, o)| o.is_err() && !fails_alone.contains(&steps[*i])).map(|(i, _)| i).collect();
            let Some(&i) = failing.first() else { return (outcomes.len() as u64, None) };
            let (obligation, detail) = outcomes[i].clone().err().unwrap();
            let culprit = steps[i];
            // the smaller of two candidate histories that still makes the step fail: the history alone, everything decoded before the step
            let short: Vec<Item> = hist[..i.min(hist.len())].to_vec();
            let mut with_short = short.clone(); with_short.push(culprit);
            let before: Vec<Item> = if last_outcome(with_short).is_err() { short } else { steps[..i].to_vec() };
            let before_c = compress(&before);
            let d = format!("[{} of {} steps on this thread fail although they pass on a fresh thread] ({}) {} -- the same content round-trips on a fresh thread, but not on a thread that first decoded {}",
                failing.len(), outcomes.len(), obligation, detail, describe_history(&before_c, &outcomes[..before.len()]));
            (outcomes.len() as u64, Some((d, history_json(&before_c, &culprit))))
        }).collect();
        for (n, f) in results {
            rep.evaluations += n; rep.nontrivial += n;
            if let Some((d, i)) = f { rep.fail("decode-independent-of-thread-history", d.clone(), i, d); }
        }
    });
}

fn replay_history(v: &Value) -> Result<(), String> {
    let mut steps: Vec<Item> = vec![];
    for e in v["history"].as_array().cloned().unwrap_or_default() {
        let it = Item::from_json(&e).ok_or("bad history entry")?;
        for _ in 0..e["times"].as_u64().unwrap_or(1) { steps.push(it); }
    }
    steps.push(Item::from_json(&v["probe"]).ok_or("bad probe")?);
    last_outcome(steps).map(|_| ()).map_err(|e| format!("{}: {}", e.0, e.1))
}

// ---------------------------------------------------------------------------------------------------------------
// Sizes.
//
// The property bounds neither the number of bytes of a name or string ("arbitrary bytes in names and strings") nor the
// number of operands, elements, entries or operations ("0..n operands ... nested arbitrarily"), and the writer accepts
// every size. So size is a dimension of the family of its own: every size in a dense range and around the powers of two
// up to 2^16 + 1, for every kind of token or list, every filling and every place an operand can stand in. The oracle is
// the property itself: decode(encode(ops)) == ops.
const TOKENS: &[&str] = &["name", "literal-string", "hex-string"];
const LISTS: &[&str] = &["operator", "operand-list", "array", "dictionary", "operation-run"];
const FILLS: &[&str] = &["letters", "high-bytes", "delimiters", "digits"];
const PLACES: &[&str] = &["only-operand", "first-of-two-operands", "array-element", "dictionary-value", "dictionary-key"];

#[derive(Clone, Copy, PartialEq, Eq, Debug)]
struct SizedCase { what: &'static str, place: &'static str, fill: &'static str, len: usize }

fn fill_bytes(fill: &str, len: usize) -> Vec<u8> {
    const LETTERS: &[u8] = b"abcdefghijklmnopqrstuvwxyzABCDEFGHIJKLMNOPQRSTUVWXYZ";
    const DELIMS: &[u8] = b"()<>[]{}/%# \t\r\n\x0c\x00\\";
    (0..len).map(|i| match fill { "letters" => LETTERS[i % LETTERS.len()], "high-bytes" => 0x80 + (i % 128) as u8, "delimiters" => DELIMS[i % DELIMS.len()], _ => b'0' + (i % 10) as u8 }).collect()
}

impl SizedCase {
    fn ops(&self) -> Vec<Operation> {
        let n = self.len;
        let span = || name(b"Span");
        let mut v = vec![Operation::new("BT", vec![])];
        if TOKENS.contains(&self.what) {
            let b = fill_bytes(self.fill, n);
            let x = match self.what { "name" => Object::Name(b.clone()), "literal-string" => lit(&b), _ => hexs(&b) };
            v.push(match self.place {
                "only-operand" => Operation::new("gs", vec![x]),
                "first-of-two-operands" => Operation::new("Tf", vec![x, Object::Integer(12)]),
                "array-element" => Operation::new("TJ", vec![Object::Array(vec![Object::Integer(1), x, Object::Integer(2)])]),
                "dictionary-value" => Operation::new("BDC", vec![span(), Object::Dictionary(dict(vec![(b"MCID", Object::Integer(3)), (b"V", x), (b"Z", Object::Integer(1))]))]),
                _ => Operation::new("BDC", vec![span(), Object::Dictionary(dict(vec![(b"MCID", Object::Integer(3)), (&b[..], Object::Integer(1)), (b"Z", Object::Integer(2))]))]),
            });
        } else {
            match self.what {
                "operator" => v.push(Operation::new(&String::from_utf8(fill_bytes("letters", n)).unwrap(), vec![Object::Integer(1)])),
                "operand-list" => v.push(Operation::new("re", (0..n).map(|i| Object::Integer(i as i64)).collect())),
                "array" => v.push(Operation::new("TJ", vec![Object::Array((0..n).map(|i| Object::Integer(i as i64)).collect())])),
                "dictionary" => { let keys: Vec<Vec<u8>> = (0..n).map(|i| format!("K{}", i).into_bytes()).collect(); v.push(Operation::new("BDC", vec![span(), Object::Dictionary(dict(keys.iter().enumerate().map(|(i, k)| (&k[..], Object::Integer(i as i64))).collect()))])); }
                _ => for i in 0..n { v.push(Operation::new("Td", vec![Object::Integer(i as i64), Object::Integer(0)])); },
            }
        }
        v.push(Operation::new("ET", vec![]));
        v
    }
    fn describe(&self) -> String {
        if TOKENS.contains(&self.what) {
            format!("between BT and ET, a {} of {} bytes ({}) as {}", self.what, self.len, self.fill, match self.place {
                "only-operand" => "the only operand of gs", "first-of-two-operands" => "the first of the two operands of Tf", "array-element" => "the middle element of the array operand of TJ",
                "dictionary-value" => "a value in the dictionary operand of BDC", _ => "a key in the dictionary operand of BDC" })
        } else {
            match self.what {
                "operator" => format!("between BT and ET, an operator of {} letters with one operand", self.len), "operand-list" => format!("between BT and ET, re with {} integer operands", self.len),
                "array" => format!("between BT and ET, TJ with an array of {} integers", self.len), "dictionary" => format!("between BT and ET, BDC with a dictionary of {} entries", self.len),
                _ => format!("between BT and ET, a run of {} Td operations", self.len),
            }
        }
    }
    fn to_json(&self) -> Value { json!({"kind": "sized", "what": self.what, "place": self.place, "fill": self.fill, "len": self.len}) }
    fn from_json(v: &Value) -> Option<SizedCase> {
        let pick = |tab: &[&'static str], k: &str| -> Option<&'static str> { if v[k].as_str() == Some("-") { Some("-") } else { tab.iter().copied().find(|t| Some(*t) == v[k].as_str()) } };
        let what = TOKENS.iter().chain(LISTS).copied().find(|t| Some(*t) == v["what"].as_str())?;
        Some(SizedCase { what, place: pick(PLACES, "place")?, fill: pick(FILLS, "fill")?, len: v["len"].as_u64()? as usize })
    }
}

fn clip(s: &str) -> String { let n = s.chars().count(); if n <= 72 { s.to_string() } else { format!("{} ...[{} chars]... {}", s.chars().take(36).collect::<String>(), n - 60, s.chars().skip(n - 24).collect::<String>()) } }
fn short_obj(o: &Object) -> String {
    match o {
        Object::Name(b) => format!("name of {} bytes {}", b.len(), clip(&format!("{:?}", String::from_utf8_lossy(b)))),
        Object::String(b, f) => format!("{} string of {} bytes {}", if matches!(f, StringFormat::Literal) { "literal" } else { "hexadecimal" }, b.len(), clip(&format!("{:?}", String::from_utf8_lossy(b)))),
        Object::Array(a) => format!("array of {} elements {}", a.len(), clip(&format!("[{}]", a.iter().take(8).map(short_obj).collect::<Vec<_>>().join(", ")))),
        Object::Dictionary(d) => format!("dictionary of {} entries {}", d.len(), clip(&format!("<<{}>>", d.iter().take(8).map(|(k, v)| format!("/{} {}", String::from_utf8_lossy(k), short_obj(v))).collect::<Vec<_>>().join(", ")))),
        Object::Stream(s) => format!("stream of {} bytes with {}", s.content.len(), short_obj(&Object::Dictionary(s.dict.clone()))),
        other => clip(&format!("{:?}", other)),
    }
}
fn ops_summary(ops: &[Operation]) -> String {
    let mut parts: Vec<String> = ops.iter().take(6).map(|o| format!("{}/{}", clip(&o.operator), o.operands.len())).collect();
    if ops.len() > 6 { parts.push(format!("... {}/{}", clip(&ops[ops.len() - 1].operator), ops[ops.len() - 1].operands.len())); }
    format!("{} operations [{}]", ops.len(), parts.join(" "))
}
/// where the decoded operations first differ from the encoded ones (operator/operand-count listing plus the first differing operand)
fn first_difference(want: &[Operation], got: &[Operation]) -> String {
    for (i, (w, g)) in want.iter().zip(got).enumerate() {
        if w.operator != g.operator || w.operands.len() != g.operands.len() {
            return format!("operation {} is {} with {} operands [{}] where {} with {} operands was encoded", i, clip(&g.operator), g.operands.len(), g.operands.iter().take(3).map(short_obj).collect::<Vec<_>>().join("; "), clip(&w.operator), w.operands.len());
        }
        for (j, (p, q)) in w.operands.iter().zip(&g.operands).enumerate() {
            if !obj_eq(p, q) { return format!("operand {} of operation {} ({}) is {} where {} was encoded", j, i, clip(&w.operator), short_obj(q), short_obj(p)); }
        }
    }
    format!("the first {} operations agree", want.len().min(got.len()))
}

fn check_sized(s: &SizedCase) -> Result<(), (String, String)> {
    let ops = s.ops();
    let c = Content { operations: ops.clone() };
    let enc = match caught(|| c.encode()) { Ok(Ok(e)) => e, other => return Err(("encode".into(), format!("{}: {:?}", s.describe(), other.map(|r| r.map_err(|e| e.to_string()))))) };
    match caught(|| Content::decode(&enc)) {
        Err(p) => Err(("decode-no-panic".into(), format!("{}: decoding the {} encoded bytes: {}", s.describe(), enc.len(), p))),
        Ok(Err(e)) => Err(("decode-equals-encoded".into(), format!("{}: the {} encoded bytes fail to decode: {}", s.describe(), enc.len(), e))),
        Ok(Ok(d)) if ops_eq(&ops, &d.operations) => Ok(()),
        Ok(Ok(d)) => Err(("decode-equals-encoded".into(), format!("{}: the {} encoded bytes ({}) decode to {} where {} were encoded: {}", s.describe(), enc.len(), clip(&format!("{:?}", String::from_utf8_lossy(&enc))), ops_summary(&d.operations), ops_summary(&ops), first_difference(&ops, &d.operations)))),
    }
}

fn size_grid(thorough: bool) -> Vec<usize> {
    let (dense, top) = if thorough { (1100, 16) } else { (260, 13) };
    let mut v: Vec<usize> = (0..=dense).collect();
    for k in 9..=top { for n in [(1usize << k) - 1, 1 << k, (1 << k) + 1] { if n > dense { v.push(n); } } }
    v
}

fn sized_cases(thorough: bool) -> Vec<SizedCase> {
    let mut v = vec![];
    for &len in &size_grid(thorough) {
        for &what in TOKENS { for &place in PLACES { for &fill in FILLS { if place != "dictionary-key" || what == "name" { v.push(SizedCase { what, place, fill, len }); } } } }
        for &what in LISTS { if what != "operator" || len > 0 { v.push(SizedCase { what, place: "-", fill: "-", len }); } }
    }
    v
}

fn sizes_section(rep: &mut Report, thorough: bool) {
    let cases = sized_cases(thorough);
    rep.sample(format!("{:?}", cases[cases.len() / 2]));
    let results: Vec<Option<(String, String)>> = with_quiet_panics(|| {
        // the largest cases first and one case per task, so that the few long ones do not end up queued on one thread
        let mut order: Vec<usize> = (0..cases.len()).collect();
        order.sort_by_key(|i| std::cmp::Reverse(cases[*i].len));
        let mut done: Vec<(usize, Option<(String, String)>)> = order.par_iter().with_max_len(1).map(|i| (*i, check_sized(&cases[*i]).err())).collect();
        done.sort_by_key(|d| d.0);
        done.into_iter().map(|d| d.1).collect()
    });
    // one report per kind and place: the smallest failing size (the cases are in order of size), with the number and range of the others
    let mut groups: Vec<(&'static str, &'static str, String, Vec<usize>)> = vec![];
    for (i, (s, r)) in cases.iter().zip(&results).enumerate() {
        rep.case(s.len > 0);
        if let Some((o, _)) = r {
            match groups.iter_mut().find(|g| g.0 == s.what && g.1 == s.place && &g.2 == o) { Some(g) => g.3.push(i), None => groups.push((s.what, s.place, o.clone(), vec![i])) }
        }
    }
    for (what, place, obligation, idx) in groups {
        let all = cases.iter().filter(|c| c.what == what && c.place == place).count();
        let first = &cases[idx[0]];
        let lens: Vec<usize> = idx.iter().map(|i| cases[*i].len).collect();
        let passing_above = cases.iter().enumerate().filter(|(i, c)| c.what == what && c.place == place && c.len > first.len && !idx.contains(i)).count();
        let d = format!("[{} of the {} sizes and fillings of this kind and place fail: sizes {}..={}, {} larger ones pass] {}", idx.len(), all, lens.iter().min().unwrap(), lens.iter().max().unwrap(), passing_above, results[idx[0]].as_ref().unwrap().1);
        rep.fail(&obligation, d.clone(), first.to_json(), d);
    }
}

// ---------------------------------------------------------------------------------------------------------------
// Inline image dictionaries.
//
// "Valid inline images" are those of ISO 32000-2, 8.9.7: BI, the entries of table 91 in any order (an inline image
// dictionary is a dictionary: the order of its entries carries no meaning), ID, the data, EI. Section 4 above writes
// the four required entries in one fixed order only. Here the optional entries the decoder supports are added
// (every subset) and the entries are written in every order, under abbreviated and full keys. The expected result is
// built from what was written, not from the library: q, BI with a stream holding exactly these entries (plus the
// stream's own Length) and these data bytes, Q; and decode(encode(that)) must give the same operations again.
const IMAGE_KEYS: &[(&str, &str)] = &[("W", "Width"), ("H", "Height"), ("BPC", "BitsPerComponent"), ("CS", "ColorSpace"),
    ("D", "Decode"), ("IM", "ImageMask"), ("Intent", "Intent"), ("I", "Interpolate"), ("L", "Length")];
const REQUIRED_KEYS: usize = 4;
const COLOUR_SPACES: &[(&str, &str, usize)] = &[("G", "DeviceGray", 1), ("RGB", "DeviceRGB", 3), ("CMYK", "DeviceCMYK", 4)];

/// one entry of an inline image dictionary: the key (the bytes of the name) and the value, and how each is spelled in the content stream
#[derive(Clone, Debug)]
struct Entry { key: Vec<u8>, key_text: String, value: Object, value_text: String }

#[derive(Clone, Debug)]
struct ImageSpec { w: usize, h: usize, bpc: usize, cs: String, keys: Vec<String>, seed: u8, fixed: Option<Vec<u8>> }

impl ImageSpec {
    fn ncol(&self) -> Option<usize> { COLOUR_SPACES.iter().find(|c| c.0 == self.cs || c.1 == self.cs).map(|c| c.2) }
    fn data(&self) -> Vec<u8> {
        if let Some(d) = &self.fixed { return d.clone(); }
        let stride = (self.w * self.ncol().unwrap_or(1) * self.bpc + 7) / 8;
        (0..stride * self.h).map(|i| (i as u8).wrapping_mul(37).wrapping_add(self.seed)).collect()
    }
    /// the entries as written (spelled here, not by the library's writer)
    fn entries(&self) -> Vec<Entry> {
        let n = self.ncol().unwrap_or(1);
        self.keys.iter().map(|k| {
            let full = IMAGE_KEYS.iter().find(|p| p.0 == k || p.1 == k).map(|p| p.1).unwrap_or("");
            let (o, text) = match full {
                "Width" => (Object::Integer(self.w as i64), self.w.to_string()), "Height" => (Object::Integer(self.h as i64), self.h.to_string()),
                "BitsPerComponent" => (Object::Integer(self.bpc as i64), self.bpc.to_string()), "ColorSpace" => (name(self.cs.as_bytes()), format!("/{}", self.cs)),
                "Decode" => { let inv = self.seed % 2 == 1; let a: Vec<i64> = (0..2 * n).map(|i| if (i % 2 == 1) != inv { 1 } else { 0 }).collect();
                    (Object::Array(a.iter().map(|x| Object::Integer(*x)).collect()), format!("[{}]", a.iter().map(|x| x.to_string()).collect::<Vec<_>>().join(" "))) }
                "ImageMask" => (Object::Boolean(false), "false".into()), "Intent" => (name(b"Perceptual"), "/Perceptual".into()),
                "Interpolate" => (Object::Boolean(true), "true".into()), _ => { let l = self.data().len(); (Object::Integer(l as i64), l.to_string()) }
            };
            Entry { key: k.as_bytes().to_vec(), key_text: k.clone(), value: o, value_text: text }
        }).collect()
    }
    fn header_of(entries: &[Entry]) -> String { format!("BI {}ID", entries.iter().map(|e| format!("/{} {} ", e.key_text, e.value_text)).collect::<String>()) }
    fn header(&self) -> String { Self::header_of(&self.entries()) }
    fn bytes_of(header: &str, data: &[u8]) -> Vec<u8> { [&b"q\n"[..], header.as_bytes(), &b" "[..], data, &b" EI\nQ"[..]].concat() }
    fn bytes(&self) -> Vec<u8> { Self::bytes_of(&self.header(), &self.data()) }
    fn to_json(&self) -> Value { json!({"kind": "image", "w": self.w, "h": self.h, "bpc": self.bpc, "cs": self.cs, "keys": self.keys, "seed": self.seed, "data": self.fixed.as_ref().map(|d| hex(d)), "bytes": hex(&self.bytes())}) }
    fn from_json(v: &Value) -> Option<ImageSpec> {
        let s = ImageSpec { w: v["w"].as_u64()? as usize, h: v["h"].as_u64()? as usize, bpc: v["bpc"].as_u64()? as usize, cs: v["cs"].as_str()?.to_string(),
            keys: v["keys"].as_array()?.iter().filter_map(|k| k.as_str().map(String::from)).collect(), seed: v["seed"].as_u64()? as u8, fixed: v["data"].as_str().map(unhex) };
        let stride = (s.w * s.ncol()? * s.bpc + 7) / 8;
        if s.fixed.as_ref().map_or(false, |d| d.len() != stride * s.h) { return None; }
        if s.keys.iter().all(|k| IMAGE_KEYS.iter().any(|p| p.0 == k || p.1 == k)) { Some(s) } else { None }
    }
}

/// the single BI stream of `q BI Q`, or what is wrong with the operations
fn the_image(ops: &[Operation]) -> Result<&lopdf::Stream, String> {
    let shape = || ops.iter().map(|o| format!("{}/{}", clip(&o.operator), o.operands.len())).collect::<Vec<_>>().join(" ");
    if ops.len() != 3 || ops[0].operator != "q" || ops[1].operator != "BI" || ops[2].operator != "Q" || !ops[0].operands.is_empty() || !ops[2].operands.is_empty() { return Err(format!("{} operations [{}] instead of q/0 BI/1 Q/0", ops.len(), shape())); }
    match ops[1].operands.as_slice() { [Object::Stream(s)] => Ok(s), other => Err(format!("BI has the operands [{}] instead of one stream", other.iter().map(short_obj).collect::<Vec<_>>().join("; "))) }
}
/// the bytes of a key, those outside the printable ASCII range as \xNN
fn show_key(k: &[u8]) -> String { k.escape_ascii().to_string() }
fn entries_text(d: &lopdf::Dictionary) -> String { d.iter().map(|(k, v)| format!("/{} {}", show_key(k), match v { Object::Name(n) => format!("/{}", String::from_utf8_lossy(n)), Object::Integer(i) => i.to_string(), Object::Boolean(b) => b.to_string(), o => short_obj(o) })).collect::<Vec<_>>().join(" ") }

fn check_image(s: &ImageSpec) -> Result<(), (String, String)> { check_image_entries(&s.entries(), &s.data()) }

/// q, BI with these entries and data, Q: decodes to exactly what was written, and decode(encode(decoded)) gives the same operations again
fn check_image_entries(entries: &[Entry], data: &[u8]) -> Result<(), (String, String)> {
    let header = ImageSpec::header_of(entries);
    let bytes = ImageSpec::bytes_of(&header, &data);
    let shown = format!("q {} <{} data bytes> EI Q", header, data.len());
    let d1 = match caught(|| Content::decode(&bytes)) { Ok(Ok(d)) => d, Ok(Err(e)) => return Err(("inline-decodes".into(), format!("{} fails to decode: {}", shown, e))), Err(p) => return Err(("decode-no-panic".into(), format!("{}: {}", shown, p))) };
    // what was written is what is decoded
    let img = the_image(&d1.operations).map_err(|e| ("inline-decodes".to_string(), format!("{} decodes to {}", shown, e)))?;
    if img.content != *data { return Err(("inline-decodes".into(), format!("{} decodes to an image with {} data bytes {} instead of the {} written {}", shown, img.content.len(), clip(&hex(&img.content)), data.len(), clip(&hex(&data))))); }
    for e in entries {
        match img.dict.get(&e.key) { Ok(got) if obj_eq(&e.value, got) => {}, got => return Err(("inline-decodes".into(), format!("{} decodes to an image whose entry /{} is {} instead of {} (decoded entries: {})", shown, e.key_text, got.map(short_obj).unwrap_or("absent".into()), e.value_text, entries_text(&img.dict)))) }
    }
    if let Some((k, _)) = img.dict.iter().find(|(k, _)| k.as_slice() != b"Length" && !entries.iter().any(|e| e.key == **k)) { return Err(("inline-decodes".into(), format!("{} decodes to an image with the entry /{} that was not written (decoded entries: {})", shown, show_key(k), entries_text(&img.dict)))); }
    // encode and decode again
    let enc = match caught(|| d1.encode()) { Ok(Ok(e)) => e, other => return Err(("inline-reencode".into(), format!("{}: encoding the decoded operations: {:?}", shown, other.map(|r| r.map_err(|e| e.to_string()))))) };
    let enc_head = { let cut = enc.windows(4).position(|w| w == b" ID ").map(|p| p + 3).unwrap_or(enc.len().min(120)); String::from_utf8_lossy(&enc[..cut]).replace('\n', " ") };
    match caught(|| Content::decode(&enc)) {
        Err(p) => Err(("decode-no-panic".into(), format!("{}: decoding the re-encoded bytes {:?}: {}", shown, enc_head, p))),
        Ok(Err(e)) => Err(("inline-reencode".into(), format!("{} decodes (entries: {}), but the decoded operations are encoded as {:?} ... ({} bytes), which fail to decode: {}", shown, entries_text(&img.dict), enc_head, enc.len(), e))),
        Ok(Ok(d2)) if ops_eq(&d1.operations, &d2.operations) => Ok(()),
        Ok(Ok(d2)) => {
            let what = match the_image(&d2.operations) {
                Err(e) => e,
                Ok(img2) => {
                    let mut diffs: Vec<String> = vec![];
                    for (k, v) in img.dict.iter() { match img2.dict.get(k) { Err(_) => diffs.push(format!("the entry /{} {} is lost", show_key(k), short_obj(v))), Ok(v2) if !obj_eq(v, v2) => diffs.push(format!("the entry /{} changes from {} to {}", show_key(k), short_obj(v), short_obj(v2))), _ => {} } }
                    for (k, v) in img2.dict.iter() { if !img.dict.has(k) { diffs.push(format!("the entry /{} {} appears", show_key(k), short_obj(v))); } }
                    if img.content != img2.content { diffs.push(format!("the data change from {} to {} bytes", img.content.len(), img2.content.len())); }
                    diffs.join(", ")
                }
            };
            Err(("inline-reencode".into(), format!("{} decodes (entries: {}), but decode -> encode -> decode changes the operations: encoded as {:?} ... ({} bytes), decoded again: {}", shown, entries_text(&img.dict), enc_head, enc.len(), what)))
        }
    }
}

fn permutations(items: &[u8]) -> Vec<Vec<u8>> {
    fn rec(rest: &mut Vec<u8>, cur: &mut Vec<u8>, out: &mut Vec<Vec<u8>>) {
        if rest.is_empty() { out.push(cur.clone()); return; }
        for i in 0..rest.len() { let x = rest.remove(i); cur.push(x); rec(rest, cur, out); cur.pop(); rest.insert(i, x); }
    }
    let mut out = vec![];
    rec(&mut items.to_vec(), &mut vec![], &mut out);
    out
}

/// every order of the required entries plus each subset of the optional ones (smaller subsets first)
fn image_orders(thorough: bool) -> Vec<Vec<u8>> {
    let optional = IMAGE_KEYS.len() - REQUIRED_KEYS;
    let mut masks: Vec<u32> = (0..1u32 << optional).filter(|m| thorough || m.count_ones() <= 2).collect();
    masks.sort_by_key(|m| m.count_ones());
    let mut v = vec![];
    for m in masks {
        let mut items: Vec<u8> = (0..REQUIRED_KEYS as u8).collect();
        for b in 0..optional { if m >> b & 1 == 1 { items.push((REQUIRED_KEYS + b) as u8); } }
        v.extend(permutations(&items));
    }
    v
}
const IMAGE_VARIANTS: usize = 9; // 3 key spellings x 3 colour spaces
/// orders with at most 2 optional entries come first and are written in all 9 variants, the others in one variant each (rotating with the order's number)
fn image_case_count(orders: &[Vec<u8>]) -> usize { let small = orders.iter().filter(|o| o.len() <= REQUIRED_KEYS + 2).count(); small * IMAGE_VARIANTS + (orders.len() - small) }
fn image_spec(orders: &[Vec<u8>], small: usize, case: usize) -> ImageSpec {
    let (n, variant) = if case < small * IMAGE_VARIANTS { (case / IMAGE_VARIANTS, case % IMAGE_VARIANTS) } else { let n = small + case - small * IMAGE_VARIANTS; (n, n % IMAGE_VARIANTS) };
    let (style, cs) = (variant / 3, variant % 3);
    let abbreviated = |pos: usize| match style { 0 => true, 1 => false, _ => pos % 2 == 0 };
    let keys: Vec<String> = orders[n].iter().enumerate().map(|(pos, k)| { let p = IMAGE_KEYS[*k as usize]; if abbreviated(pos) { p.0 } else { p.1 }.to_string() }).collect();
    let cs_pos = orders[n].iter().position(|k| IMAGE_KEYS[*k as usize].1 == "ColorSpace").unwrap_or(0);
    let c = COLOUR_SPACES[cs];
    ImageSpec { w: 1 + n % 3, h: 1 + n / 3 % 3, bpc: [8, 1, 2, 4][n / 9 % 4], cs: if abbreviated(cs_pos) { c.0 } else { c.1 }.to_string(), keys, seed: 0x21 + (n % 7) as u8 * 31, fixed: None }
}

fn image_dict_section(rep: &mut Report, thorough: bool) {
    let orders = image_orders(thorough);
    let total = image_case_count(&orders);
    let small = orders.iter().filter(|o| o.len() <= REQUIRED_KEYS + 2).count();
    rep.sample(format!("{:?}", String::from_utf8_lossy(&image_spec(&orders, small, total / 2).bytes())));
    const OBLIGATIONS: &[&str] = &["inline-decodes", "inline-reencode", "decode-no-panic"];
    // only the number and the obligation of every failing case are kept; the details of the first ones are computed again below
    let failing: Vec<(usize, usize)> = with_quiet_panics(|| (0..total).into_par_iter().filter_map(|case| {
        check_image(&image_spec(&orders, small, case)).err().map(|(o, _)| (case, OBLIGATIONS.iter().position(|x| *x == o).unwrap_or(0)))
    }).collect());
    rep.evaluations += total as u64; rep.nontrivial += total as u64;
    for (code, obligation) in OBLIGATIONS.iter().enumerate() {
        let of: Vec<usize> = failing.iter().filter(|f| f.1 == code).map(|f| f.0).collect();
        for case in of.iter().take(3) {
            let s = image_spec(&orders, small, *case);
            let detail = with_quiet_panics(|| check_image(&s)).err().map(|e| e.1).unwrap_or_else(|| "(passed when run again)".into());
            let d = format!("[{} of the {} inline images fail this way; this one has {} entries] {}", of.len(), total, s.keys.len(), detail);
            rep.fail(obligation, d.clone(), s.to_json(), d);
        }
    }
}

/// the sample data of an inline image are arbitrary bytes: every single byte (1x1, 8-bit gray) and every pair of bytes (2x1)
fn image_data_spec(case: usize) -> ImageSpec {
    let fixed = if case < 256 { vec![case as u8] } else { vec![((case - 256) >> 8) as u8, (case - 256) as u8] };
    ImageSpec { w: fixed.len(), h: 1, bpc: 8, cs: "G".into(), keys: ["W", "H", "BPC", "CS"].iter().map(|k| k.to_string()).collect(), seed: 0, fixed: Some(fixed) }
}
fn image_data_section(rep: &mut Report) {
    let total = 256 + 65536;
    let failing: Vec<(usize, String)> = with_quiet_panics(|| (0..total).into_par_iter().filter_map(|case| check_image(&image_data_spec(case)).err().map(|(o, _)| (case, o))).collect());
    rep.evaluations += total as u64; rep.nontrivial += total as u64;
    let mut obligations: Vec<&String> = failing.iter().map(|f| &f.1).collect();
    obligations.sort(); obligations.dedup();
    for obligation in obligations {
        let of: Vec<usize> = failing.iter().filter(|f| &f.1 == obligation).map(|f| f.0).collect();
        let mut firsts: Vec<u8> = of.iter().map(|c| image_data_spec(*c).data()[0]).collect();
        firsts.sort(); firsts.dedup();
        let mut lasts: Vec<u8> = of.iter().map(|c| *image_data_spec(*c).data().last().unwrap()).collect();
        lasts.sort(); lasts.dedup();
        let set = |v: &[u8]| if v.len() > 16 { format!("{} different values", v.len()) } else { v.iter().map(|b| format!("{:02x}", b)).collect::<Vec<_>>().join(" ") };
        for case in of.iter().take(3) {
            let s = image_data_spec(*case);
            let detail = with_quiet_panics(|| check_image(&s)).err().map(|e| e.1).unwrap_or_else(|| "(passed when run again)".into());
            let d = format!("[{} of the {} one- and two-byte sample data fail this way; first data byte of the failing ones: {}; last data byte: {}] data bytes {}: {}", of.len(), total, set(&firsts), set(&lasts), hex(&s.data()), detail);
            rep.fail(obligation, d.clone(), s.to_json(), d);
        }
    }
}

// ---------------------------------------------------------------------------------------------------------------
// Names and strings inside inline image dictionaries.
//
// "Arbitrary bytes in names and strings; all byte pairs as string and name content (exhaustive)": section 3 puts every
// byte pair where an operand stands. The entries of an inline image are the other place of a content stream where
// names and strings stand, and they are read and written by code of their own (BI <key value ...> ID, not << >>). An
// inline image dictionary is a dictionary: a key is a name like any other (ISO 32000-2, 7.3.5: any bytes, spelled with
// #xx where needed), an entry the reader does not know is kept, and the value of Intent is a name the standard does
// not restrict. So every byte string of 0, 1 and 2 bytes stands once in each of these places of a 1x1 gray image:
//   key                  an additional entry /<bytes> 7
//   name-value           /Intent /<bytes>
//   literal-string-value an additional entry /Note (<bytes>)
//   hex-string-value     an additional entry /Note <bytes in hexadecimal>
// in two spellings each (only the bytes that must be escaped are / every byte is written as an escape sequence; upper
// / lower case hexadecimal digits), the entry standing before, between or after the four required ones (rotating).
// The spelling is done here, not by the library. Expected: what check_image_entries expects of every inline image.
const NAME_PLACES: &[&str] = &["key", "name-value", "literal-string-value", "hex-string-value"];

fn spell_name(b: &[u8], all_escaped: bool) -> String {
    b.iter().map(|c| if !all_escaped && (0x21..=0x7e).contains(c) && !b"()<>[]{}/%#".contains(c) { (*c as char).to_string() } else if all_escaped { format!("#{:02x}", c) } else { format!("#{:02X}", c) }).collect()
}
fn spell_literal(b: &[u8], all_escaped: bool) -> String {
    format!("({})", b.iter().map(|c| match c { _ if all_escaped => format!("\\{:03o}", c), b'(' => "\\(".into(), b')' => "\\)".into(), b'\\' => "\\\\".into(), b'\r' => "\\r".into(), b'\n' => "\\n".into(),
        0x20..=0x7e => (*c as char).to_string(), _ => format!("\\{:03o}", c) }).collect::<String>())
}

#[derive(Clone, Debug, PartialEq, Eq)]
struct ImageNameCase { bytes: Vec<u8>, place: usize, all_escaped: bool, position: usize }

impl ImageNameCase {
    /// keys of ISO 32000-2 table 91 cannot be the additional key
    fn applicable(&self) -> bool { self.place != 0 || !IMAGE_KEYS.iter().any(|k| k.0.as_bytes() == self.bytes || k.1.as_bytes() == self.bytes) && ![&b"F"[..], b"Filter", b"DP", b"DecodeParms"].contains(&&self.bytes[..]) }
    fn entries(&self) -> Vec<Entry> {
        let int = |k: &str, v: i64| Entry { key: k.as_bytes().to_vec(), key_text: k.into(), value: Object::Integer(v), value_text: v.to_string() };
        let mut v = vec![int("W", 1), int("H", 1), int("BPC", 8), Entry { key: b"CS".to_vec(), key_text: "CS".into(), value: name(b"G"), value_text: "/G".into() }];
        let b = &self.bytes;
        let extra = match NAME_PLACES[self.place] {
            "key" => Entry { key: b.clone(), key_text: spell_name(b, self.all_escaped), value: Object::Integer(7), value_text: "7".into() },
            "name-value" => Entry { key: b"Intent".to_vec(), key_text: "Intent".into(), value: Object::Name(b.clone()), value_text: format!("/{}", spell_name(b, self.all_escaped)) },
            "literal-string-value" => Entry { key: b"Note".to_vec(), key_text: "Note".into(), value: lit(b), value_text: spell_literal(b, self.all_escaped) },
            _ => Entry { key: b"Note".to_vec(), key_text: "Note".into(), value: hexs(b), value_text: format!("<{}>", if self.all_escaped { hex(b) } else { hex(b).to_uppercase() }) },
        };
        v.insert(self.position.min(4), extra);
        v
    }
    fn data(&self) -> Vec<u8> { vec![0x5a] }
    fn describe(&self) -> String { format!("the byte string <{}> ({} bytes) as {} of an inline image, {}", hex(&self.bytes), self.bytes.len(), NAME_PLACES[self.place], match (self.place == 3, self.all_escaped) { (true, true) => "in lower case hexadecimal digits", (true, false) => "in upper case hexadecimal digits", (false, true) => "every byte spelled as an escape sequence", (false, false) => "only the bytes that must be escaped spelled as escape sequences" }) }
    fn check(&self) -> Result<(), (String, String)> { check_image_entries(&self.entries(), &self.data()).map_err(|(o, d)| (o, format!("{}: {}", self.describe(), d))) }
    fn to_json(&self) -> Value { json!({"kind": "image-name", "bytes": hex(&self.bytes), "place": NAME_PLACES[self.place], "all_escaped": self.all_escaped, "position": self.position, "content": hex(&ImageSpec::bytes_of(&ImageSpec::header_of(&self.entries()), &self.data()))}) }
    fn from_json(v: &Value) -> Option<ImageNameCase> {
        Some(ImageNameCase { bytes: unhex(v["bytes"].as_str()?), place: NAME_PLACES.iter().position(|p| Some(*p) == v["place"].as_str())?, all_escaped: v["all_escaped"].as_bool()?, position: v["position"].as_u64()? as usize })
    }
}

fn image_name_case(n: usize) -> ImageNameCase {
    let (string, variant) = (n / 8, n % 8);
    let bytes = match string { 0 => vec![], 1..=256 => vec![(string - 1) as u8], _ => vec![((string - 257) >> 8) as u8, (string - 257) as u8] };
    ImageNameCase { bytes, place: variant / 2, all_escaped: variant % 2 == 1, position: (string + variant) % 5 }
}

fn image_names_section(rep: &mut Report) {
    let total = (1 + 256 + 65536) * 8;
    let failing: Vec<(usize, String)> = with_quiet_panics(|| (0..total).into_par_iter().filter_map(|n| { let c = image_name_case(n); if c.applicable() { c.check().err().map(|(o, _)| (n, o)) } else { None } }).collect());
    let cases = (0..total).filter(|n| n % 8 >= 2 || image_name_case(*n).applicable()).count() as u64;
    rep.evaluations += cases; rep.nontrivial += cases;
    rep.sample(format!("{:?}", String::from_utf8_lossy(&ImageSpec::bytes_of(&ImageSpec::header_of(&image_name_case(8 * (257 + 0x2041) + 1).entries()), &[0x5a]))));
    let mut groups: Vec<(String, usize)> = failing.iter().map(|f| (f.1.clone(), image_name_case(f.0).place)).collect();
    groups.sort(); groups.dedup();
    for (obligation, place) in groups {
        let of: Vec<ImageNameCase> = failing.iter().filter(|f| f.1 == obligation).map(|f| image_name_case(f.0)).filter(|c| c.place == place).collect();
        let in_place = (0..total).filter(|n| n % 8 / 2 == place).count();
        let mut strings: Vec<&Vec<u8>> = of.iter().map(|c| &c.bytes).collect();
        strings.sort(); strings.dedup();
        let mut bytes_in: Vec<u8> = vec![];
        // the bytes that occur in every failing string of two bytes together with EVERY other byte: the ones that matter
        for b in 0..=255u8 { if (0..=255u8).all(|o| strings.binary_search(&&vec![b, o]).is_ok() && strings.binary_search(&&vec![o, b]).is_ok()) { bytes_in.push(b); } }
        let culprits = if bytes_in.is_empty() { String::new() } else { format!("; every string that contains one of the bytes {} fails", bytes_in.iter().map(|b| format!("{:02x}", b)).collect::<Vec<_>>().join(" ")) };
        for c in of.iter().take(3) {
            let detail = with_quiet_panics(|| c.check()).err().map(|e| e.1).unwrap_or_else(|| "(passed when run again)".into());
            let d = format!("[{} of the {} cases with the bytes as {} fail this way ({} different byte strings{})] {}", of.len(), in_place, NAME_PLACES[place], strings.len(), culprits, detail);
            rep.fail(&obligation, d.clone(), c.to_json(), d);
        }
    }
}

// ---------------------------------------------------------------------------------------------------------------
// Real operand values.
//
// "Operands of every direct kind": a Real operand holds an f32, and the property promises that it comes back equal
// (as an integer of the same value if it is integral) WHATEVER its value is. The sections above carry a handful of
// real values only. The value of a real is a dimension of the family like the bytes of a name: the encoder spells the
// value in decimal and the decoder converts the decimal digits back, and whether that conversion returns the value
// written depends on every bit of it (decimal -> binary rounding has isolated hard cases), so no sample of values
// stands for the others. The family is therefore every positive finite f32 bit pattern and an eighth of the negative ones (thorough), in the two places a number
// can stand in (operand of an operator; element of an array operand). CONSECUTIVE bit patterns share one content
// stream (REAL_BLOCK values: `v v v v v v cm` / `[v v v v v v v v] 0 d` alternately), which is itself part of the
// property (a sequence of operations decodes to the same operations in the same order) and makes the 2^31 affordable.
// The oracle is the property: operand i of operation j of decode(encode(ops)) equals the f32 that was put there.
const REAL_BLOCK: u32 = 1 << 12;
const REAL_PLACES: &[&str] = &["operand-of-cm", "element-of-the-array-operand-of-d"];

fn is_finite_bits(bits: u32) -> bool { bits & 0x7f80_0000 != 0x7f80_0000 }
fn real_of(bits: u32) -> Object { Object::Real(f32::from_bits(bits)) }

/// the operations carrying `vals` in order: six as the operands of cm, the next eight as the array operand of d, and so on; with the place of every value
fn real_ops(vals: &[u32]) -> (Vec<Operation>, Vec<usize>) {
    let mut ops = Vec::with_capacity(vals.len() / 7 + 2);
    let mut places = Vec::with_capacity(vals.len());
    let mut rest = vals;
    let mut array = false;
    while !rest.is_empty() {
        let n = rest.len().min(if array { 8 } else { 6 });
        let (now, later) = rest.split_at(n);
        let reals: Vec<Object> = now.iter().map(|b| real_of(*b)).collect();
        ops.push(if array { Operation::new("d", vec![Object::Array(reals), Object::Integer(0)]) } else { Operation::new("cm", reals) });
        places.extend(std::iter::repeat(array as usize).take(n));
        rest = later;
        array = !array;
    }
    (ops, places)
}
/// the reals of the operations of `real_ops`, in order (None where the shape is not the encoded one)
fn reals_back<'a>(want: &[Operation], got: &'a [Operation]) -> Option<Vec<&'a Object>> {
    if want.len() != got.len() { return None; }
    let mut v = vec![];
    for (w, g) in want.iter().zip(got) {
        if w.operator != g.operator || w.operands.len() != g.operands.len() { return None; }
        match (w.operands.first(), g.operands.as_slice()) {
            (Some(Object::Array(a)), [Object::Array(b), Object::Integer(0)]) if a.len() == b.len() => v.extend(b.iter()),
            (Some(Object::Array(_)), _) => return None,
            _ => v.extend(g.operands.iter()),
        }
    }
    Some(v)
}
fn real_single_ops(bits: u32, place: usize) -> Vec<Operation> {
    if place == 1 { vec![Operation::new("d", vec![Object::Array(vec![real_of(bits), Object::Integer(3)]), Object::Integer(0)])] }
    else { vec![Operation::new("cm", vec![real_of(bits), Object::Integer(0), Object::Integer(0), Object::Integer(1), Object::Integer(10), Object::Integer(20)])] }
}
fn describe_real(bits: u32) -> String { format!("the real {:e} (f32 bit pattern {:#010x})", f32::from_bits(bits), bits) }
fn ulps_between(a: f32, b: f32) -> String {
    let key = |x: f32| { let b = x.to_bits() as i64; if b & 0x8000_0000 != 0 { -(b & 0x7fff_ffff) } else { b } };
    format!("{} f32 steps away from the value written", (key(a) - key(b)).abs())
}
/// one real value alone in a content stream, in the given place
fn check_real(bits: u32, place: usize) -> Result<(), (String, String)> {
    let ops = real_single_ops(bits, place);
    let what = format!("{} as {}", describe_real(bits), REAL_PLACES[place.min(1)]);
    let enc = match caught(|| Content { operations: ops.as_slice() }.encode()) { Ok(Ok(e)) => e, other => return Err(("encode".into(), format!("{}: {:?}", what, other.map(|r| r.map_err(|e| e.to_string()))))) };
    let text = clip(&String::from_utf8_lossy(&enc));
    match caught(|| Content::decode(&enc)) {
        Err(p) => Err(("decode-no-panic".into(), format!("{}, encoded as {:?}: {}", what, text, p))),
        Ok(Err(e)) => Err(("real-value-survives".into(), format!("{}: the encoded bytes {:?} fail to decode: {}", what, text, e))),
        Ok(Ok(d)) => match reals_back(&ops, &d.operations).and_then(|v| v.first().map(|o| (*o).clone())) {
            Some(o) if obj_eq(&real_of(bits), &o) && ops_eq(&ops, &d.operations) => Ok(()),
            Some(Object::Real(y)) => Err(("real-value-survives".into(), format!("{} is encoded as {:?} and decoded as the real {:e} (bit pattern {:#010x}), {}", what, text, y, y.to_bits(), ulps_between(f32::from_bits(bits), y)))),
            Some(o) if ops_eq(&ops, &d.operations) => Err(("real-value-survives".into(), format!("{} is encoded as {:?} and decoded as {}", what, text, short_obj(&o)))),
            _ => Err(("real-value-survives".into(), format!("{} is encoded as {:?}, which decodes to {}: {}", what, text, ops_summary(&d.operations), first_difference(&ops, &d.operations)))),
        },
    }
}
/// REAL_BLOCK consecutive bit patterns in one content stream; returns (bit pattern, place, fails when alone as well) of every value that does not come back
fn check_real_block(block: u32) -> Vec<(u32, usize, bool)> {
    let vals: Vec<u32> = (0..REAL_BLOCK).map(|i| block * REAL_BLOCK + i).filter(|b| is_finite_bits(*b)).collect();
    if vals.is_empty() { return vec![]; }
    let (ops, places) = real_ops(&vals);
    let decoded = (|| { let enc = caught(|| Content { operations: ops.as_slice() }.encode()).ok()?.ok()?; caught(|| Content::decode(&enc)).ok()?.ok() })();
    match decoded.as_ref().and_then(|d| reals_back(&ops, &d.operations)) {
        Some(back) if back.len() == vals.len() => {
            let bad: Vec<usize> = (0..vals.len()).filter(|i| !obj_eq(&real_of(vals[*i]), back[*i])).collect();
            bad.into_iter().map(|i| (vals[i], places[i], check_real(vals[i], places[i]).is_err())).collect()
        }
        _ => {
            // the content as a whole is refused or has another shape: which of its values are refused alone?
            let alone: Vec<(u32, usize, bool)> = (0..vals.len()).filter(|i| check_real(vals[*i], places[*i]).is_err()).map(|i| (vals[i], places[i], true)).collect();
            if alone.is_empty() { vec![(vals[0], places[0], false)] } else { alone }
        }
    }
}
/// a value that comes back when alone, but not among its REAL_BLOCK neighbours
fn check_real_in_block(bits: u32) -> Result<(), (String, String)> {
    match check_real_block(bits / REAL_BLOCK).into_iter().find(|f| f.0 == bits || !f.2) {
        None => Ok(()),
        Some((b, p, _)) => Err(("real-value-survives".into(), format!("{} as {} comes back when it stands alone in a content stream, but not in the content stream that carries the {} consecutive finite bit patterns from {:#010x} (six per cm, eight per array operand of d, alternately): encode -> decode does not return these operations",
            describe_real(b), REAL_PLACES[p], REAL_BLOCK, bits / REAL_BLOCK * REAL_BLOCK))),
    }
}

/// the blocks of the tier: 17 of the 2048 blocks of every sign and exponent (every 128th, and the last one); thorough: all blocks of the positive values and 257 of
/// the 2048 blocks of every exponent of the negative ones (every 8th, and the last one) -- c01-reals (thorough) takes every bit pattern of both signs through the same two functions
fn real_blocks(thorough: bool) -> Vec<u32> {
    let all = ((1u64 << 32) / REAL_BLOCK as u64) as u32;
    let per_exponent = (1u32 << 23) / REAL_BLOCK;
    (0..all).filter(|b| { let last = b % per_exponent == per_exponent - 1; b % 128 == 0 || last || (thorough && (*b < all / 2 || b % 8 == 0)) }).collect()
}

// Boundary values of the real dimension (both tiers; the quick tier cannot afford every bit pattern).
//
// The encoder spells a real as a decimal number d * 10^e and the decoder has to find the f32 nearest to it. That is
// hardest exactly where a decimal lies next to the MIDPOINT of two adjacent f32 values (the boundary where the result
// of the conversion changes), the way a length is hardest around a power of two. So, independently of the library, in
// exact fixed-point arithmetic: for every binary exponent E (f32 values m * 2^q, q = E - 150, 2^23 <= m < 2^24; from
// m = 0 for the subnormal range) and every power of ten 10^e that is at least half a unit in the last place 2^q (a
// decimal on a finer grid is never the shortest spelling next to a midpoint: there is a nearer one of the same
// length), every multiple d * 10^e in the range is placed on the f32 scale, t = d * 10^e / 2^q; if t is within
// 2^-REAL_NEAR of m + 1/2 for an integer m, the two f32 values m * 2^q and (m + 1) * 2^q, with both signs, are members.
// Each member is encoded and decoded alone in a content stream, in both places; the oracle is the property.
const REAL_NEAR: u32 = 16;
const REAL_TIES: usize = 4096;

/// 10^e as mantissa * 2^exponent with 2^127 <= mantissa < 2^128 (exact for 0 <= e <= 38, relative error below 2^-120 otherwise)
fn pow10(e: i32) -> (u128, i32) {
    if e >= 0 { let v = 10u128.pow(e as u32); let lz = v.leading_zeros(); return (v << lz, -(lz as i32)); }
    let (mut m, mut s) = (1u128 << 127, -127i32);
    for _ in 0..-e {
        let (q, r) = (m / 10, m % 10);
        let lz = q.leading_zeros();
        m = (q << lz) + ((r << lz) / 10);
        s -= lz as i32;
    }
    (m, s)
}
/// the positive f32 bit patterns next to which a decimal of the grid 10^e lies within 2^-REAL_NEAR units in the last place of a midpoint, for the biased exponent `exp` (1..=254)
fn near_midpoints(exp: u32, e: i32) -> (u64, Vec<u32>) {
    let q = exp as i32 - 150;
    let (mant, s) = pow10(e);
    let shift = q - s - 64; // 10^e / 2^q with 64 fractional bits = mant >> shift
    if !(0..128).contains(&shift) { return (0, vec![]); }
    let r = mant >> shift;
    if r < 1u128 << 63 || r >= 1u128 << 88 { return (0, vec![]); } // finer than half a unit in the last place / no multiple in the range
    let m_lo: u128 = if exp == 1 { 0 } else { 1 << 23 };
    let (start, end) = (m_lo << 64, 1u128 << (24 + 64));
    let mut t = (start + r - 1) / r * r;
    if t == 0 { t = r; }
    let (low, width) = ((1u64 << 63) - (1u64 << (63 - REAL_NEAR)), 1u64 << (64 - REAL_NEAR));
    let base = (exp - 1) << 23; // bit pattern = base + m (m carries the implicit bit; exponent 1 and the subnormals share q)
    let (mut steps, mut below) = (0u64, vec![]);
    while t < end {
        if (t as u64).wrapping_sub(low) < width { below.push(base + (t >> 64) as u32); }
        t += r;
        steps += 1;
    }
    // on a few grids every second or fourth decimal IS a midpoint (10^e an odd multiple of 2^(q-1) or 2^(q-2)): at most REAL_TIES evenly spaced ones of them
    let keep = (below.len() + REAL_TIES - 1) / REAL_TIES;
    (steps, below.iter().step_by(keep.max(1)).flat_map(|b| [*b, *b + 1]).collect())
}
/// (decimals placed, members of the family: positive bit patterns, sorted)
fn real_boundary_values() -> (u64, Vec<u32>) {
    let jobs: Vec<(u32, i32)> = (1..=254u32).flat_map(|exp| (-60..=38).map(move |e| (exp, e))).collect();
    let found: Vec<(u64, Vec<u32>)> = jobs.par_iter().map(|(exp, e)| near_midpoints(*exp, *e)).collect();
    let steps = found.iter().map(|f| f.0).sum();
    let mut v: Vec<u32> = found.into_iter().flat_map(|f| f.1).filter(|b| is_finite_bits(*b)).collect();
    v.sort(); v.dedup();
    (steps, v)
}

fn report_real_failures(rep: &mut Report, mut fails: Vec<(u32, usize, bool)>, total: u64, family: &str) {
    fails.sort();
    for alone in [true, false] {
        let of: Vec<&(u32, usize, bool)> = fails.iter().filter(|f| f.2 == alone).collect();
        for (bits, place, _) in of.iter().take(3).map(|f| **f) {
            let (obligation, detail) = with_quiet_panics(|| if alone { check_real(bits, place) } else { check_real_in_block(bits) }).err().unwrap_or_else(|| ("real-value-survives".into(), format!("{} (passed when run again)", describe_real(bits))));
            let d = format!("[{} of the {} {} fail this way: bit patterns {:#010x}..={:#010x}] {}", of.len(), total, family, of[0].0, of[of.len() - 1].0, detail);
            rep.fail(&obligation, d.clone(), json!({"kind": "real", "bits": bits, "place": place, "alone": alone}), d);
        }
    }
}

fn reals_section(rep: &mut Report, thorough: bool) {
    // a. boundary values, each alone, in both places
    let (_decimals_placed, members) = real_boundary_values();
    let cases: u64 = members.len() as u64 * 4;
    let fails: Vec<(u32, usize, bool)> = with_quiet_panics(|| members.par_iter().flat_map_iter(|b| [(*b, 0), (*b, 1), (*b | 0x8000_0000, 0), (*b | 0x8000_0000, 1)]).filter(|(b, p)| check_real(*b, *p).is_err()).map(|(b, p)| (b, p, true)).collect());
    rep.evaluations += cases; rep.nontrivial += cases;
    if let Some(b) = members.get(members.len() / 2) { rep.sample(format!("{:?}", real_single_ops(*b, 1))); }
    report_real_failures(rep, fails, cases, "real values next to a rounding boundary (each in 2 places)");
    // b. consecutive bit patterns
    let blocks = real_blocks(thorough);
    let fails: Vec<(u32, usize, bool)> = with_quiet_panics(|| blocks.par_iter().flat_map_iter(|b| check_real_block(*b)).collect());
    // a block lies within one exponent (2^23 is a multiple of REAL_BLOCK): all of its values are finite or none is
    let total: u64 = blocks.iter().filter(|b| is_finite_bits(**b * REAL_BLOCK)).count() as u64 * REAL_BLOCK as u64;
    rep.evaluations += total; rep.nontrivial += total;
    report_real_failures(rep, fails, total, "real values in blocks of consecutive bit patterns");
}
