//! C14: content streams survive encode and decode (bounded stand-in for the nom operator/operand parsers).
#![allow(dead_code)]
use crate::c03::{obj_from_json, obj_json};
use crate::common::*;
use crate::gen::*;
use lopdf::content::{Content, Operation};
use lopdf::{Object, StringFormat};
use rayon::prelude::*;
use serde_json::{json, Value};

fn direct_alphabet() -> Vec<Object> {
    let mut v: Vec<Object> = leaves().into_iter().filter(|o| !matches!(o, Object::Reference(_))).collect();
    v.extend(containers().into_iter().filter(|o| !has_ref_or_stream(o)));
    v
}
fn has_ref_or_stream(o: &Object) -> bool {
    match o {
        Object::Reference(_) | Object::Stream(_) => true,
        Object::Array(a) => a.iter().any(has_ref_or_stream),
        Object::Dictionary(d) => d.iter().any(|(_, v)| has_ref_or_stream(v)),
        _ => false,
    }
}
const OPERATORS: &[&str] = &["Tj", "T*", "'", "\"", "re", "BT", "q", "W*", "Do", "n", "TJ", "f*"];

fn ops_eq(a: &[Operation], b: &[Operation]) -> bool {
    a.len() == b.len() && a.iter().zip(b).all(|(x, y)| x.operator == y.operator && x.operands.len() == y.operands.len() && x.operands.iter().zip(&y.operands).all(|(p, q)| obj_eq(p, q)))
}

pub fn check_ops(ops: &[Operation]) -> Result<(), (String, String)> {
    let c = Content { operations: ops.to_vec() };
    let enc = match guarded(std::panic::AssertUnwindSafe(|| c.encode())) { Ok(Ok(e)) => e, other => return Err(("encode".into(), format!("{:?}", other.map(|r| r.map_err(|e| e.to_string()))))) };
    match guarded(|| Content::decode(&enc)) {
        Err(p) => Err(("decode-no-panic".into(), p)),
        Ok(Err(e)) => Err(("decode-equals-encoded".into(), format!("encoded {:?} fails to decode: {}", String::from_utf8_lossy(&enc), e))),
        Ok(Ok(d)) => if ops_eq(ops, &d.operations) { Ok(()) } else { Err(("decode-equals-encoded".into(), format!("{:?} encoded as {:?} decodes to {:?}", ops, String::from_utf8_lossy(&enc), d.operations))) },
    }
}

fn ops_json(ops: &[Operation]) -> Value { json!({"kind": "ops", "ops": ops.iter().map(|o| json!({"op": o.operator, "args": o.operands.iter().map(obj_json).collect::<Vec<_>>()})).collect::<Vec<_>>()}) }
fn ops_from_json(v: &Value) -> Vec<Operation> { v["ops"].as_array().cloned().unwrap_or_default().iter().map(|o| Operation::new(o["op"].as_str().unwrap_or("x"), o["args"].as_array().cloned().unwrap_or_default().iter().map(obj_from_json).collect())).collect() }

fn inline_image_bytes(w: usize, h: usize, cs: &str, ncol: usize, bpc: usize, abbreviated: bool, seed: u8) -> Vec<u8> {
    let stride = (w * ncol * bpc + 7) / 8;
    let data: Vec<u8> = (0..stride * h).map(|i| (i as u8).wrapping_mul(37).wrapping_add(seed)).collect();
    let mut b = Vec::new();
    b.extend_from_slice(b"q\nBI ");
    if abbreviated { b.extend_from_slice(format!("/W {} /H {} /BPC {} /CS /{} ", w, h, bpc, cs).as_bytes()); }
    else { b.extend_from_slice(format!("/Width {} /Height {} /BitsPerComponent {} /ColorSpace /{} ", w, h, bpc, cs).as_bytes()); }
    b.extend_from_slice(b"ID ");
    b.extend_from_slice(&data);
    b.extend_from_slice(b" EI\nQ");
    b
}

pub fn check_inline(bytes: &[u8]) -> Result<bool, (String, String)> {
    let d1 = match guarded(|| Content::decode(bytes)) { Ok(Ok(d)) => d, Ok(Err(e)) => return Err(("inline-decodes".into(), format!("{}", e))), Err(p) => return Err(("decode-no-panic".into(), p)) };
    if !d1.operations.iter().any(|o| o.operator == "BI") { return Err(("inline-decodes".into(), format!("no BI operation decoded from {:?}", String::from_utf8_lossy(bytes)))); }
    let enc = match guarded(std::panic::AssertUnwindSafe(|| d1.encode())) { Ok(Ok(e)) => e, other => return Err(("inline-reencode".into(), format!("{:?}", other.map(|r| r.map_err(|e| e.to_string()))))) };
    match guarded(|| Content::decode(&enc)) {
        Ok(Ok(d2)) if ops_eq(&d1.operations, &d2.operations) => Ok(true),
        Ok(Ok(d2)) => Err(("inline-reencode".into(), format!("decode -> encode -> decode changed the operations: {} operations became {} (re-encoded bytes start {:?})", d1.operations.len(), d2.operations.len(), String::from_utf8_lossy(&enc[..enc.len().min(60)])))),
        Ok(Err(e)) => Err(("inline-reencode".into(), format!("re-encoded content fails to decode: {}", e))),
        Err(p) => Err(("decode-no-panic".into(), p)),
    }
}

pub fn run(thorough: bool) -> Report {
    let mut rep = Report::new("single operations: 12 operators x 0..2 operands over the direct-object alphabet (all combinations); sequences of 2 and 3 operations over a 9-operation set (all); all 65 536 byte pairs as name / literal / hex string operands; inline images: W,H in 1..3 x {G,RGB,CMYK and long names} x BPC {1,8} x abbreviated/long keys; nesting depth: a TJ operand that is an array / a dictionary / alternating arrays and dictionaries (every level with leaf siblings before and after the nested child) / a literal string of balanced parentheses, nested 1..L-1 deep (every depth; L = 32 for arrays and dictionaries, 100 for parentheses: the parser's nesting limits) must round-trip, nested L, L+1, L+2, 99, 100, 101, 150, 200 deep must round-trip or be rejected with an error; thread history: these nesting probes plus an ordinary text sequence, a bare operator and an inline image are checked in turn on a fresh thread, and again on a fresh thread that first decoded each history over a 27-item alphabet of earlier Content::decode inputs (well-formed content nested L-1 / L / L+1 / 200 deep in each shape, truncated content with 50 / 100 / 101 / 150 / 200 unclosed openers, stray closers, an inline image with missing data, an ordinary sequence, a valid inline image): every single item repeated {1, 3, 33, 100} times (thorough: {1, 2, 3, 31, 32, 33, 100, 250}), every ordered pair over a 12-item sub-alphabet (thorough: every ordered pair of all 27 items and every ordered triple over the 12-item sub-alphabet); each of the 431 distinct items is also decoded on a fresh thread of its own; what a thread decoded before, accepted or rejected, must not change any result", true);
    let alpha = direct_alphabet();
    // 1. single operations
    let mut cases: Vec<Vec<Operation>> = vec![];
    for op in OPERATORS {
        cases.push(vec![Operation::new(op, vec![])]);
        for a in &alpha { cases.push(vec![Operation::new(op, vec![a.clone()])]); }
    }
    let step = if thorough { 1 } else { 3 };
    for (i, a) in alpha.iter().enumerate() { for (j, b) in alpha.iter().enumerate() { if (i + j) % step == 0 { cases.push(vec![Operation::new(OPERATORS[(i + j) % OPERATORS.len()], vec![a.clone(), b.clone()])]); } } }
    // 2. sequences
    let small: Vec<Operation> = vec![
        Operation::new("BT", vec![]), Operation::new("Tf", vec![name(b"F1"), Object::Integer(12)]), Operation::new("Tj", vec![lit(b"a(b\\c")]),
        Operation::new("'", vec![lit(b"x")]), Operation::new("\"", vec![Object::Integer(1), Object::Real(0.5), lit(b")")]), Operation::new("TJ", vec![Object::Array(vec![lit(b"A"), Object::Integer(-120), hexs(b"\x00\xff")])]),
        Operation::new("ET", vec![]), Operation::new("re", vec![Object::Integer(i64::MIN), Object::Integer(i64::MAX), Object::Real(-0.001), Object::Null]), Operation::new("BDC", vec![name(b"Span"), Object::Dictionary(dict(vec![(b"MCID", Object::Integer(0))]))]),
    ];
    for a in &small { for b in &small { cases.push(vec![a.clone(), b.clone()]); for c in &small { cases.push(vec![a.clone(), b.clone(), c.clone()]); } } }
    for ops in &cases {
        rep.case(!ops[0].operands.is_empty());
        if let Err((o, d)) = check_ops(ops) { rep.fail(&o, d.clone(), ops_json(ops), d); }
    }
    rep.sample(format!("{:?}", cases[17]));
    // 3. byte pairs
    let fails: Vec<(String, String, Value)> = (0u32..65536).into_par_iter().filter_map(|v| {
        let bytes = vec![(v >> 8) as u8, v as u8];
        for o in [Object::Name(bytes.clone()), Object::String(bytes.clone(), StringFormat::Literal), Object::String(bytes.clone(), StringFormat::Hexadecimal)] {
            let ops = vec![Operation::new("Tj", vec![o.clone(), Object::Integer(1), o])];
            if let Err((ob, d)) = check_ops(&ops) { return Some((ob, d, ops_json(&ops))); }
        }
        None
    }).collect();
    rep.evaluations += 3 * 65536; rep.nontrivial += 3 * 65536;
    for (o, d, i) in fails { rep.fail(&o, d.clone(), i, d); }
    // 4. inline images
    for w in 1..=3 { for h in 1..=3 { for (cs, n) in [("G", 1), ("RGB", 3), ("CMYK", 4), ("DeviceGray", 1), ("DeviceRGB", 3), ("DeviceCMYK", 4)] { for bpc in [1, 8] { for abbr in [true, false] { for seed in [0u8, 0x45] {
        let b = inline_image_bytes(w, h, cs, n, bpc, abbr, seed);
        rep.case(true);
        if let Err((o, d)) = check_inline(&b) { rep.fail(&o, d.clone(), json!({"kind": "inline", "bytes": hex(&b)}), d); }
    } } } } } }
    // 5. nesting depth x thread history
    histories_section(&mut rep, thorough);
    rep
}

pub fn replay(v: &Value) -> Result<(), String> {
    match v["kind"].as_str() {
        Some("ops") => check_ops(&ops_from_json(v)).map_err(|e| format!("{}: {}", e.0, e.1)),
        Some("history") => replay_history(v),
        Some("inline") => check_inline(&unhex(v["bytes"].as_str().unwrap_or(""))).map(|_| ()).map_err(|e| format!("{}: {}", e.0, e.1)),
        _ => Err("unknown replay kind".into()),
    }
}

// ---------------------------------------------------------------------------------------------------------------
// Nesting depth and thread history.
//
// The property quantifies over operands "nested arbitrarily" and over every call of decode, whatever the calling
// thread decoded before. The parser documents one limit: arrays, dictionaries and the parentheses of a literal
// string may nest at most MAX_BRACKET deep, deeper input is rejected. So an `Item` below is one piece of content,
// a case is a sequence of items decoded one after the other on ONE fresh thread (the history, then the probes), and
// the expected result of every step is a function of that step's item alone:
//   well-formed, nested at most deepest(shape) deep : decode(encode(ops)) == ops
//   well-formed, nested deeper               : decode(encode(ops)) == ops, or decode returns an error
//   malformed (truncated, stray closers)     : anything but a panic
const PLIMIT: usize = 100; // parentheses of a literal string: lopdf::reader::MAX_BRACKET
const CLIMIT: usize = 32; // arrays and dictionaries: MAX_CONTAINER_DEPTH in src/parser/mod.rs (private; /repo repair of the 2 MiB stack overflow)
fn limit(shape: Shape) -> usize { if matches!(shape, Shape::Parens | Shape::Stray) { PLIMIT } else { CLIMIT } }
/// every nesting up to here must be accepted
fn deepest(shape: Shape) -> usize { limit(shape) - 1 }

#[derive(Clone, Copy, PartialEq, Eq, Debug)]
enum Shape { Ordinary, Bare, Inline, BadInline, Array, Dict, Mixed, Parens, Stray }
const SHAPES: &[(Shape, &str)] = &[(Shape::Ordinary, "ordinary"), (Shape::Bare, "bare"), (Shape::Inline, "inline"), (Shape::BadInline, "bad-inline"), (Shape::Array, "array"),
    (Shape::Dict, "dict"), (Shape::Mixed, "mixed"), (Shape::Parens, "parens"), (Shape::Stray, "stray")];

/// one piece of content: `closed` = well-formed (built as operations and encoded by the library), otherwise only the `depth` openers (raw bytes)
#[derive(Clone, Copy, PartialEq, Eq, Debug)]
struct Item { shape: Shape, depth: usize, closed: bool }
fn item(shape: Shape, depth: usize, closed: bool) -> Item { Item { shape, depth, closed } }

enum Payload { Ops(Vec<Operation>), Inline(Vec<u8>), Raw(Vec<u8>) }

fn nested(shape: Shape, depth: usize) -> Object {
    // level 1 is the innermost container; the outermost (level `depth`) of Mixed is an array
    let is_array = |level: usize| match shape { Shape::Array => true, Shape::Dict => false, _ => (depth - level) % 2 == 0 };
    let mut o = if is_array(1) { Object::Array(vec![Object::Integer(7), name(b"Leaf")]) } else { Object::Dictionary(dict(vec![(b"A", Object::Integer(7)), (b"B", name(b"Leaf"))])) };
    for level in 2..=depth {
        o = if is_array(level) { Object::Array(vec![Object::Integer(1), o, lit(b"x")]) } else { Object::Dictionary(dict(vec![(b"A", Object::Integer(1)), (b"K", o), (b"Z", lit(b"x"))])) };
    }
    o
}

impl Item {
    fn nesting(&self) -> bool { matches!(self.shape, Shape::Array | Shape::Dict | Shape::Mixed | Shape::Parens) }
    fn payload(&self) -> Payload {
        let d = self.depth;
        match (self.shape, self.closed) {
            (Shape::Ordinary, _) => Payload::Ops(vec![
                Operation::new("BT", vec![]), Operation::new("Tf", vec![name(b"F1"), Object::Integer(12)]), Operation::new("Td", vec![Object::Integer(100), Object::Integer(600)]),
                Operation::new("TJ", vec![Object::Array(vec![lit(b"Hello"), Object::Integer(-120), lit(b"World")])]), Operation::new("ET", vec![])]),
            (Shape::Bare, _) => Payload::Ops(vec![Operation::new("q", vec![])]),
            (Shape::Inline, _) => Payload::Inline(inline_image_bytes(2, 2, "RGB", 3, 8, true, 0x45)),
            (Shape::BadInline, _) => Payload::Raw(b"q\nBI /W 4 /H 4 /BPC 8 /CS /RGB ID abc EI\nQ".to_vec()),
            (Shape::Stray, _) => Payload::Raw([&b"q\n"[..], &b"] >> ) ".repeat(d), &b"Q"[..]].concat()),
            (Shape::Parens, true) => Payload::Ops(vec![Operation::new("q", vec![]), Operation::new("Tj", vec![lit(&[b"(".repeat(d), b"x".to_vec(), b")".repeat(d)].concat()), Object::Integer(d as i64)]), Operation::new("Q", vec![])]),
            (_, true) => Payload::Ops(vec![Operation::new("q", vec![]), Operation::new("TJ", vec![nested(self.shape, d), Object::Integer(d as i64)]), Operation::new("Q", vec![])]),
            (Shape::Parens, false) => Payload::Raw([&b"q\n"[..], &b"(".repeat(d + 1), &b"x Tj\nQ"[..]].concat()), // d + 1: a string's own parentheses are not nesting
            (shape, false) => {
                let mut b = b"q\n".to_vec();
                for i in 0..d { if shape == Shape::Array || (shape == Shape::Mixed && i % 2 == 0) { b.extend_from_slice(b"[1 "); } else { b.extend_from_slice(b"<</A 1/K "); } }
                b.extend_from_slice(b"7 TJ\nQ");
                Payload::Raw(b)
            }
        }
    }
    fn describe(&self) -> String {
        let what = match self.shape {
            Shape::Ordinary => return "an ordinary text sequence (BT Tf Td TJ ET)".into(), Shape::Bare => return "the bare operator q".into(), Shape::Inline => return "a valid 2x2 RGB inline image".into(),
            Shape::BadInline => return "an inline image with too little data".into(), Shape::Stray => return format!("{} stray closers '] >> )'", self.depth),
            Shape::Array => "an array", Shape::Dict => "a dictionary", Shape::Mixed => "alternating arrays and dictionaries", _ => "a literal string of balanced parentheses",
        };
        if self.closed { format!("q / TJ / Q whose operand is {} nested {} deep", what, self.depth) } else { format!("truncated content: {} unclosed openers of {}", self.depth, what) }
    }
    fn to_json(&self) -> Value { json!({"shape": SHAPES.iter().find(|s| s.0 == self.shape).unwrap().1, "depth": self.depth, "closed": self.closed}) }
    fn from_json(v: &Value) -> Option<Item> {
        let shape = SHAPES.iter().find(|s| Some(s.1) == v["shape"].as_str())?.0;
        Some(Item { shape, depth: v["depth"].as_u64()? as usize, closed: v["closed"].as_bool()? })
    }
}

type Outcome = Result<&'static str, (String, String)>;

/// like common::guarded, without exchanging the process-wide panic hook twice per call (340 000 steps on 16 threads would queue on its lock);
/// `histories_section` installs a quiet hook that records the location once for all its threads
static PANIC_AT: std::sync::Mutex<String> = std::sync::Mutex::new(String::new());
fn caught<T>(f: impl FnOnce() -> T) -> Result<T, String> {
    std::panic::catch_unwind(std::panic::AssertUnwindSafe(f)).map_err(|e| {
        let msg = if let Some(s) = e.downcast_ref::<String>() { s.clone() } else if let Some(s) = e.downcast_ref::<&str>() { s.to_string() } else { "panic".to_string() };
        format!("panic: {} at {}", msg, PANIC_AT.lock().map(|g| g.clone()).unwrap_or_default())
    })
}
fn with_quiet_panics<T>(f: impl FnOnce() -> T) -> T {
    let prev = std::panic::take_hook();
    std::panic::set_hook(Box::new(|info| { if let (Some(l), Ok(mut g)) = (info.location(), PANIC_AT.lock()) { *g = format!("{}:{}", l.file(), l.line()); } }));
    let r = f();
    std::panic::set_hook(prev);
    r
}

/// decode one item on the current thread: Ok(what happened) or Err((obligation, detail)); the verdict depends on the item only
fn run_step(it: &Item) -> Outcome {
    match it.payload() {
        Payload::Raw(bytes) => match caught(|| Content::decode(&bytes)) { Ok(Ok(_)) => Ok("decoded"), Ok(Err(_)) => Ok("rejected"), Err(p) => Err(("decode-no-panic".into(), format!("{}: {}", it.describe(), p))) },
        Payload::Inline(bytes) => check_inline(&bytes).map(|_| "round-trips").map_err(|(o, d)| (o, format!("{}: {}", it.describe(), d))),
        Payload::Ops(ops) => {
            let c = Content { operations: ops.clone() };
            let enc = match caught(|| c.encode()) { Ok(Ok(e)) => e, other => return Err(("encode".into(), format!("{}: {:?}", it.describe(), other.map(|r| r.map_err(|e| e.to_string()))))) };
            let must_accept = !it.nesting() || it.depth <= deepest(it.shape);
            let shown = if enc.len() <= 80 { String::from_utf8_lossy(&enc).to_string() } else { format!("{} ... {}", String::from_utf8_lossy(&enc[..40]), String::from_utf8_lossy(&enc[enc.len() - 30..])) };
            match caught(|| Content::decode(&enc)) {
                Err(p) => Err(("decode-no-panic".into(), format!("{}: {}", it.describe(), p))),
                Ok(Err(_)) if !must_accept => Ok("rejected"),
                Ok(Err(e)) => Err(("decode-equals-encoded".into(), format!("{}{}: the {} encoded bytes {:?} fail to decode: {}", it.describe(), if it.nesting() { format!(" (within the nesting limit of {})", limit(it.shape)) } else { String::new() }, enc.len(), shown, e))),
                Ok(Ok(d)) if ops_eq(&ops, &d.operations) => Ok("round-trips"),
                Ok(Ok(d)) => Err(("decode-equals-encoded".into(), format!("{}: the {} encoded bytes {:?} are neither rejected nor decoded to the {} encoded operations: decode returns Ok with {} operations [{}]",
                    it.describe(), enc.len(), shown, ops.len(), d.operations.len(), d.operations.iter().map(|o| format!("{}/{}", o.operator, o.operands.len())).collect::<Vec<_>>().join(" ")))),
            }
        }
    }
}

/// own thread (fresh thread-local parser state) with a roomy stack: the parser recurses once per nesting level
fn on_fresh_thread<T: Send + 'static>(f: impl FnOnce() -> T + Send + 'static) -> T {
    std::thread::Builder::new().stack_size(64 << 20).spawn(f).expect("spawn").join().expect("the steps catch their panics")
}

/// decode the steps one after the other on one fresh thread; returns the outcome of every step
fn run_steps(steps: Vec<Item>) -> Vec<Outcome> { on_fresh_thread(move || steps.iter().map(run_step).collect()) }
/// the result of the last step of `steps`, decoded on one fresh thread after all the others
fn last_outcome(steps: Vec<Item>) -> Outcome { run_steps(steps).pop().expect("at least one step") }

fn probes() -> Vec<Item> {
    let mut v = vec![item(Shape::Ordinary, 0, true), item(Shape::Bare, 0, true), item(Shape::Inline, 0, true)];
    for shape in [Shape::Array, Shape::Dict, Shape::Mixed, Shape::Parens] {
        for d in 1..=deepest(shape) { v.push(item(shape, d, true)); }
        for d in [limit(shape), limit(shape) + 1, limit(shape) + 2, 99, 100, 101, 150, 200] { v.push(item(shape, d, true)); }
    }
    v
}

/// what a thread may have decoded earlier; the first TRIPLE_ALPHABET items are the sub-alphabet of the triples (and of the quick tier's pairs)
const TRIPLE_ALPHABET: usize = 12;
fn history_alphabet() -> Vec<Item> {
    use Shape::*;
    vec![
        // well-formed, at and beyond the limit
        item(Array, CLIMIT, true), item(Array, CLIMIT + 1, true), item(Dict, CLIMIT + 1, true), item(Mixed, CLIMIT + 1, true), item(Parens, PLIMIT + 1, true),
        // truncated
        item(Array, CLIMIT + 1, false), item(Dict, CLIMIT + 1, false), item(Array, 50, false), item(Parens, 150, false),
        // accepted
        item(Array, (CLIMIT - 1), true), item(Ordinary, 0, true), item(Inline, 0, true),
        // (single repetitions and the thorough tier's pairs only)
        item(Array, 200, true), item(Dict, CLIMIT, true), item(Dict, 200, true), item(Mixed, 200, true), item(Parens, 200, true),
        item(Array, CLIMIT, false), item(Array, 200, false), item(Dict, 50, false), item(Mixed, CLIMIT + 1, false), item(Parens, 50, false),
        item(Stray, 1, false), item(Stray, PLIMIT + 1, false), item(BadInline, 0, false),
        item(Dict, (CLIMIT - 1), true), item(Mixed, (CLIMIT - 1), true),
    ]
}

fn histories(thorough: bool) -> Vec<Vec<(Item, usize)>> {
    let alpha = history_alphabet();
    let mut v: Vec<Vec<(Item, usize)>> = vec![vec![]];
    let reps: &[usize] = if thorough { &[1, 2, 3, CLIMIT - 1, CLIMIT, CLIMIT + 1, PLIMIT, 250] } else { &[1, 3, CLIMIT + 1, PLIMIT] };
    for a in &alpha { for &r in reps { v.push(vec![(*a, r)]); } }
    let pairs = if thorough { &alpha[..] } else { &alpha[..TRIPLE_ALPHABET] };
    for a in pairs { for b in pairs { v.push(vec![(*a, 1), (*b, 1)]); } }
    if thorough { let t = &alpha[..TRIPLE_ALPHABET]; for a in t { for b in t { for c in t { v.push(vec![(*a, 1), (*b, 1), (*c, 1)]); } } } }
    v
}

fn expand(h: &[(Item, usize)]) -> Vec<Item> { h.iter().flat_map(|(it, n)| std::iter::repeat(*it).take(*n)).collect() }
fn compress(steps: &[Item]) -> Vec<(Item, usize)> {
    let mut v: Vec<(Item, usize)> = vec![];
    for s in steps { match v.last_mut() { Some((it, n)) if it == s => *n += 1, _ => v.push((*s, 1)) } }
    v
}
fn history_json(h: &[(Item, usize)], probe: &Item) -> Value {
    json!({"kind": "history", "history": h.iter().map(|(it, n)| { let mut j = it.to_json(); j["times"] = json!(n); j }).collect::<Vec<_>>(), "probe": probe.to_json()})
}
fn describe_history(h: &[(Item, usize)], outcomes: &[Outcome]) -> String {
    let mut at = 0;
    let mut parts = vec![];
    for (it, n) in h {
        let mut seen: Vec<&str> = vec![];
        for o in &outcomes[at..at + n] { let l = match o { Ok(l) => *l, Err(_) => "FAILED" }; if !seen.contains(&l) { seen.push(l); } }
        at += n;
        if parts.len() < 6 { parts.push(format!("{} x {} [{}]", n, it.describe(), seen.join(", "))); }
    }
    if h.len() > 6 { parts.push(format!("... ({} more entries, see the recorded input)", h.len() - 6)); }
    parts.join("; then ")
}

fn histories_section(rep: &mut Report, thorough: bool) {
    let probes = probes();
    let hs = histories(thorough);
    rep.sample(format!("history {:?} then {} probes", hs[40], probes.len()));
    with_quiet_panics(|| {
        // a. every item on a fresh thread of its own (no history at all)
        let mut singles = probes.clone();
        for it in history_alphabet() { if !singles.contains(&it) { singles.push(it); } }
        let alone: Vec<Outcome> = singles.par_iter().map(|it| last_outcome(vec![*it])).collect();
        let mut fails_alone: Vec<Item> = vec![];
        for (it, o) in singles.iter().zip(alone) {
            rep.case(true);
            if let Err((obligation, detail)) = o { fails_alone.push(*it); let d = format!("{} (on a fresh thread, nothing decoded before)", detail); rep.fail(&obligation, d.clone(), history_json(&[], it), d); }
        }
        // b. every history, then all the probes in turn, on one fresh thread; only what section a did not already report is of interest here
        let results: Vec<(u64, Option<(String, Value)>)> = hs.par_iter().map(|h| {
            let hist = expand(h);
            let mut steps = hist.clone();
            steps.extend(probes.iter().cloned());
            let outcomes = run_steps(steps.clone());
            let failing: Vec<usize> = outcomes.iter().enumerate().filter(|(i, o)| o.is_err() && !fails_alone.contains(&steps[*i])).map(|(i, _)| i).collect();
            let Some(&i) = failing.first() else { return (outcomes.len() as u64, None) };
            let (obligation, detail) = outcomes[i].clone().err().unwrap();
            let culprit = steps[i];
            // the smaller of two candidate histories that still makes the step fail: the history alone, everything decoded before the step
            let short: Vec<Item> = hist[..i.min(hist.len())].to_vec();
            let mut with_short = short.clone(); with_short.push(culprit);
            let before: Vec<Item> = if last_outcome(with_short).is_err() { short } else { steps[..i].to_vec() };
            let before_c = compress(&before);
            let d = format!("[{} of {} steps on this thread fail although they pass on a fresh thread] ({}) {} -- the same content round-trips on a fresh thread, but not on a thread that first decoded {}",
                failing.len(), outcomes.len(), obligation, detail, describe_history(&before_c, &outcomes[..before.len()]));
            (outcomes.len() as u64, Some((d, history_json(&before_c, &culprit))))
        }).collect();
        for (n, f) in results {
            rep.evaluations += n; rep.nontrivial += n;
            if let Some((d, i)) = f { rep.fail("decode-independent-of-thread-history", d.clone(), i, d); }
        }
    });
}

fn replay_history(v: &Value) -> Result<(), String> {
    let mut steps: Vec<Item> = vec![];
    for e in v["history"].as_array().cloned().unwrap_or_default() {
        let it = Item::from_json(&e).ok_or("bad history entry")?;
        for _ in 0..e["times"].as_u64().unwrap_or(1) { steps.push(it); }
    }
    steps.push(Item::from_json(&v["probe"]).ok_or("bad probe")?);
    last_outcome(steps).map(|_| ()).map_err(|e| format!("{}: {}", e.0, e.1))
}
