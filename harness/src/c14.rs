//! C14: content streams survive encode and decode (bounded stand-in for the nom operator/operand parsers).
#![allow(dead_code)]
use crate::c03::{obj_from_json, obj_json};
use crate::common::*;
use crate::gen::*;
use lopdf::content::{Content, Operation};
use lopdf::{Object, StringFormat};
use rayon::prelude::*;
use serde_json::{json, Value};

fn direct_alphabet() -> Vec<Object> {
    let mut v: Vec<Object> = leaves().into_iter().filter(|o| !matches!(o, Object::Reference(_))).collect();
    v.extend(containers().into_iter().filter(|o| !has_ref_or_stream(o)));
    v
}
fn has_ref_or_stream(o: &Object) -> bool {
    match o {
        Object::Reference(_) | Object::Stream(_) => true,
        Object::Array(a) => a.iter().any(has_ref_or_stream),
        Object::Dictionary(d) => d.iter().any(|(_, v)| has_ref_or_stream(v)),
        _ => false,
    }
}
const OPERATORS: &[&str] = &["Tj", "T*", "'", "\"", "re", "BT", "q", "W*", "Do", "n", "TJ", "f*"];

fn ops_eq(a: &[Operation], b: &[Operation]) -> bool {
    a.len() == b.len() && a.iter().zip(b).all(|(x, y)| x.operator == y.operator && x.operands.len() == y.operands.len() && x.operands.iter().zip(&y.operands).all(|(p, q)| obj_eq(p, q)))
}

pub fn check_ops(ops: &[Operation]) -> Result<(), (String, String)> {
    let c = Content { operations: ops.to_vec() };
    let enc = match guarded(std::panic::AssertUnwindSafe(|| c.encode())) { Ok(Ok(e)) => e, other => return Err(("encode".into(), format!("{:?}", other.map(|r| r.map_err(|e| e.to_string()))))) };
    match guarded(|| Content::decode(&enc)) {
        Err(p) => Err(("decode-no-panic".into(), p)),
        Ok(Err(e)) => Err(("decode-equals-encoded".into(), format!("encoded {:?} fails to decode: {}", String::from_utf8_lossy(&enc), e))),
        Ok(Ok(d)) => if ops_eq(ops, &d.operations) { Ok(()) } else { Err(("decode-equals-encoded".into(), format!("{:?} encoded as {:?} decodes to {:?}", ops, String::from_utf8_lossy(&enc), d.operations))) },
    }
}

fn ops_json(ops: &[Operation]) -> Value { json!({"kind": "ops", "ops": ops.iter().map(|o| json!({"op": o.operator, "args": o.operands.iter().map(obj_json).collect::<Vec<_>>()})).collect::<Vec<_>>()}) }
fn ops_from_json(v: &Value) -> Vec<Operation> { v["ops"].as_array().cloned().unwrap_or_default().iter().map(|o| Operation::new(o["op"].as_str().unwrap_or("x"), o["args"].as_array().cloned().unwrap_or_default().iter().map(obj_from_json).collect())).collect() }

fn inline_image_bytes(w: usize, h: usize, cs: &str, ncol: usize, bpc: usize, abbreviated: bool, seed: u8) -> Vec<u8> {
    let stride = (w * ncol * bpc + 7) / 8;
    let data: Vec<u8> = (0..stride * h).map(|i| (i as u8).wrapping_mul(37).wrapping_add(seed)).collect();
    let mut b = Vec::new();
    b.extend_from_slice(b"q\nBI ");
    if abbreviated { b.extend_from_slice(format!("/W {} /H {} /BPC {} /CS /{} ", w, h, bpc, cs).as_bytes()); }
    else { b.extend_from_slice(format!("/Width {} /Height {} /BitsPerComponent {} /ColorSpace /{} ", w, h, bpc, cs).as_bytes()); }
    b.extend_from_slice(b"ID ");
    b.extend_from_slice(&data);
    b.extend_from_slice(b" EI\nQ");
    b
}

pub fn check_inline(bytes: &[u8]) -> Result<bool, (String, String)> {
    let d1 = match guarded(|| Content::decode(bytes)) { Ok(Ok(d)) => d, Ok(Err(e)) => return Err(("inline-decodes".into(), format!("{}", e))), Err(p) => return Err(("decode-no-panic".into(), p)) };
    if !d1.operations.iter().any(|o| o.operator == "BI") { return Err(("inline-decodes".into(), format!("no BI operation decoded from {:?}", String::from_utf8_lossy(bytes)))); }
    let enc = match guarded(std::panic::AssertUnwindSafe(|| d1.encode())) { Ok(Ok(e)) => e, other => return Err(("inline-reencode".into(), format!("{:?}", other.map(|r| r.map_err(|e| e.to_string()))))) };
    match guarded(|| Content::decode(&enc)) {
        Ok(Ok(d2)) if ops_eq(&d1.operations, &d2.operations) => Ok(true),
        Ok(Ok(d2)) => Err(("inline-reencode".into(), format!("decode -> encode -> decode changed the operations: {} operations became {} (re-encoded bytes start {:?})", d1.operations.len(), d2.operations.len(), String::from_utf8_lossy(&enc[..enc.len().min(60)])))),
        Ok(Err(e)) => Err(("inline-reencode".into(), format!("re-encoded content fails to decode: {}", e))),
        Err(p) => Err(("decode-no-panic".into(), p)),
    }
}

pub fn run(thorough: bool) -> Report {
    let mut rep = Report::new("single operations: 12 operators x 0..2 operands over the direct-object alphabet (all combinations); sequences of 2 and 3 operations over a 9-operation set (all); all 65 536 byte pairs as name / literal / hex string operands; inline images: W,H in 1..3 x {G,RGB,CMYK and long names} x BPC {1,8} x abbreviated/long keys", true);
    let alpha = direct_alphabet();
    // 1. single operations
    let mut cases: Vec<Vec<Operation>> = vec![];
    for op in OPERATORS {
        cases.push(vec![Operation::new(op, vec![])]);
        for a in &alpha { cases.push(vec![Operation::new(op, vec![a.clone()])]); }
    }
    let step = if thorough { 1 } else { 3 };
    for (i, a) in alpha.iter().enumerate() { for (j, b) in alpha.iter().enumerate() { if (i + j) % step == 0 { cases.push(vec![Operation::new(OPERATORS[(i + j) % OPERATORS.len()], vec![a.clone(), b.clone()])]); } } }
    // 2. sequences
    let small: Vec<Operation> = vec![
        Operation::new("BT", vec![]), Operation::new("Tf", vec![name(b"F1"), Object::Integer(12)]), Operation::new("Tj", vec![lit(b"a(b\\c")]),
        Operation::new("'", vec![lit(b"x")]), Operation::new("\"", vec![Object::Integer(1), Object::Real(0.5), lit(b")")]), Operation::new("TJ", vec![Object::Array(vec![lit(b"A"), Object::Integer(-120), hexs(b"\x00\xff")])]),
        Operation::new("ET", vec![]), Operation::new("re", vec![Object::Integer(i64::MIN), Object::Integer(i64::MAX), Object::Real(-0.001), Object::Null]), Operation::new("BDC", vec![name(b"Span"), Object::Dictionary(dict(vec![(b"MCID", Object::Integer(0))]))]),
    ];
    for a in &small { for b in &small { cases.push(vec![a.clone(), b.clone()]); for c in &small { cases.push(vec![a.clone(), b.clone(), c.clone()]); } } }
    for ops in &cases {
        rep.case(!ops[0].operands.is_empty());
        if let Err((o, d)) = check_ops(ops) { rep.fail(&o, d.clone(), ops_json(ops), d); }
    }
    rep.sample(format!("{:?}", cases[17]));
    // 3. byte pairs
    let fails: Vec<(String, String, Value)> = (0u32..65536).into_par_iter().filter_map(|v| {
        let bytes = vec![(v >> 8) as u8, v as u8];
        for o in [Object::Name(bytes.clone()), Object::String(bytes.clone(), StringFormat::Literal), Object::String(bytes.clone(), StringFormat::Hexadecimal)] {
            let ops = vec![Operation::new("Tj", vec![o.clone(), Object::Integer(1), o])];
            if let Err((ob, d)) = check_ops(&ops) { return Some((ob, d, ops_json(&ops))); }
        }
        None
    }).collect();
    rep.evaluations += 3 * 65536; rep.nontrivial += 3 * 65536;
    for (o, d, i) in fails { rep.fail(&o, d.clone(), i, d); }
    // 4. inline images
    for w in 1..=3 { for h in 1..=3 { for (cs, n) in [("G", 1), ("RGB", 3), ("CMYK", 4), ("DeviceGray", 1), ("DeviceRGB", 3), ("DeviceCMYK", 4)] { for bpc in [1, 8] { for abbr in [true, false] { for seed in [0u8, 0x45] {
        let b = inline_image_bytes(w, h, cs, n, bpc, abbr, seed);
        rep.case(true);
        if let Err((o, d)) = check_inline(&b) { rep.fail(&o, d.clone(), json!({"kind": "inline", "bytes": hex(&b)}), d); }
    } } } } } }
    rep
}

pub fn replay(v: &Value) -> Result<(), String> {
    match v["kind"].as_str() {
        Some("ops") => check_ops(&ops_from_json(v)).map_err(|e| format!("{}: {}", e.0, e.1)),
        Some("inline") => check_inline(&unhex(v["bytes"].as_str().unwrap_or(""))).map(|_| ()).map_err(|e| format!("{}: {}", e.0, e.1)),
        _ => Err("unknown replay kind".into()),
    }
}
