//! Instrumented sinks for C19: every failure offset, zero-length writes, transient Interrupted, every chunking.
use std::io::{Error, ErrorKind, Result, Write};

#[derive(Clone, Debug)]
pub enum Mode {
    Healthy,
    /// accept at most `k` bytes per call
    Chunk(usize),
    /// accept `n` bytes in total, then fail hard
    FailAt(usize),
    /// accept `n` bytes in total, then return Ok(0)
    ZeroAt(usize),
    /// return ErrorKind::Interrupted on the call with this index (once), otherwise healthy with chunk size k
    InterruptAt(usize, usize),
}

pub struct Sink {
    pub mode: Mode,
    pub delivered: Vec<u8>,
    pub calls: usize,
    interrupted: bool,
}

impl Sink {
    pub fn new(mode: Mode) -> Sink { Sink { mode, delivered: vec![], calls: 0, interrupted: false } }
}

impl Write for Sink {
    fn write(&mut self, buf: &[u8]) -> Result<usize> {
        let call = self.calls;
        self.calls += 1;
        if buf.is_empty() { return Ok(0); }
        match self.mode.clone() {
            Mode::Healthy => { self.delivered.extend_from_slice(buf); Ok(buf.len()) }
            Mode::Chunk(k) => { let n = buf.len().min(k.max(1)); self.delivered.extend_from_slice(&buf[..n]); Ok(n) }
            Mode::FailAt(n) => {
                let room = n.saturating_sub(self.delivered.len());
                if room == 0 { return Err(Error::new(ErrorKind::Other, "sink failed")); }
                let m = buf.len().min(room);
                self.delivered.extend_from_slice(&buf[..m]);
                Ok(m)
            }
            Mode::ZeroAt(n) => {
                let room = n.saturating_sub(self.delivered.len());
                let m = buf.len().min(room);
                self.delivered.extend_from_slice(&buf[..m]);
                Ok(m)
            }
            Mode::InterruptAt(c, k) => {
                if call == c && !self.interrupted { self.interrupted = true; return Err(Error::new(ErrorKind::Interrupted, "try again")); }
                let n = buf.len().min(k.max(1));
                self.delivered.extend_from_slice(&buf[..n]);
                Ok(n)
            }
        }
    }
    fn flush(&mut self) -> Result<()> { Ok(()) }
}
