//! C01: save then load returns the same document (bounded stand-in for the reader half; complete for f32 in thorough).
use crate::c03::{obj_json, obj_from_json, spec_from_json, spec_json};
use crate::common::*;
use crate::gen::*;
use lopdf::{Document, Object, StringFormat};
use rayon::prelude::*;
use serde_json::{json, Value};

/// does `file` load to a document equal to `orig` (C01 equality)?
pub fn loads_to(file: &[u8], orig: &Document) -> Result<(), String> {
    let loaded = match guarded(|| Document::load_mem(file)) { Err(p) => return Err(format!("load panicked: {}", p)), Ok(Err(e)) => return Err(format!("load failed: {}", e)), Ok(Ok(d)) => d };
    compare(orig, &loaded)
}

pub fn compare(orig: &Document, loaded: &Document) -> Result<(), String> {
    if loaded.version != orig.version { return Err(format!("version {:?} != {:?}", loaded.version, orig.version)); }
    let a: Vec<_> = orig.objects.iter().filter(|(_, o)| !is_bookkeeping_object(o)).collect();
    let b: Vec<_> = loaded.objects.iter().filter(|(_, o)| !is_bookkeeping_object(o)).collect();
    for (id, o) in &a {
        match loaded.objects.get(*id) {
            None => return Err(format!("object {} {} is missing after load", id.0, id.1)),
            Some(l) => if !obj_eq(o, l) { return Err(format!("object {} {}: saved {:?} loaded {:?}", id.0, id.1, o, l)); }
        }
    }
    if a.len() != b.len() { return Err(format!("{} objects saved, {} loaded", a.len(), b.len())); }
    if !dict_eq(&orig.trailer, &loaded.trailer, BOOKKEEPING) { return Err(format!("trailer: saved {:?} loaded {:?}", orig.trailer, loaded.trailer)); }
    Ok(())
}

pub fn check_doc(spec: &DocSpec) -> Result<(), (String, String)> {
    let orig = build(spec);
    let mut d = build(spec);
    let mut out = vec![];
    match guarded(std::panic::AssertUnwindSafe(|| d.save_to(&mut out))) { Ok(Ok(())) => {}, other => return Err(("save".into(), format!("{:?}", other.map(|x| x.map_err(|e| e.to_string()))))) }
    loads_to(&out, &orig).map_err(|e| ("load-equals-saved".to_string(), e))?;
    // repeat the cycle on the loaded document
    let mut l1 = Document::load_mem(&out).unwrap();
    let mut out2 = vec![];
    l1.save_to(&mut out2).map_err(|e| ("second-save".to_string(), e.to_string()))?;
    loads_to(&out2, &orig).map_err(|e| ("second-cycle".to_string(), e))?;
    Ok(())
}

pub fn roundtrip(thorough: bool) -> Report {
    let mut rep = Report::new("all documents of gen::docs (both xref formats), two save/load cycles each", true);
    for s in docs(thorough) {
        rep.case(!s.objects.is_empty());
        if let Err((ob, d)) = check_doc(&s) { rep.fail(&ob, d.clone(), json!({"kind": "doc", "spec": spec_json(&s)}), d); }
        else if rep.evaluations % 101 == 1 { rep.sample(describe(&s)); }
    }
    rep
}

fn one_object_cycle(o: &Object) -> Result<(), String> {
    let spec = DocSpec { objects: vec![((1, 0), o.clone())], xref_stream: false, version: "1.5".into(), extra_trailer: false, max_id_slack: 0 };
    let orig = build(&spec);
    let mut d = build(&spec);
    let mut out = vec![];
    d.save_to(&mut out).map_err(|e| e.to_string())?;
    loads_to(&out, &orig)
}

/// all 65 536 two-byte names and literal strings (and hex strings) through save/load: exhaustive over byte pairs
pub fn bytepairs(thorough: bool) -> Report {
    let mut rep = Report::new("every two-byte name, literal string and hexadecimal string (3 x 65 536), plus every one-byte one, inside an array between two integers", true);
    let stride = if thorough { 1 } else { 1 };
    let results: Vec<(u32, Option<(String, String, Value)>)> = (0u32..65536 + 256).into_par_iter().filter(|v| v % stride == 0).map(|v| {
        let bytes: Vec<u8> = if v < 65536 { vec![(v >> 8) as u8, v as u8] } else { vec![(v - 65536) as u8] };
        for (kind, o) in [("name", Object::Name(bytes.clone())), ("literal", Object::String(bytes.clone(), StringFormat::Literal)), ("hex", Object::String(bytes.clone(), StringFormat::Hexadecimal))] {
            let wrapped = Object::Array(vec![Object::Integer(1), o.clone(), Object::Integer(2), o.clone()]);
            if let Err(e) = one_object_cycle(&wrapped) { return (v, Some((format!("bytepair-{}", kind), e, json!({"kind": "object", "obj": obj_json(&wrapped)})))); }
        }
        (v, None)
    }).collect();
    for (_, r) in results {
        rep.case(true);
        rep.evaluations += 2;
        rep.nontrivial += 2;
        if let Some((ob, d, input)) = r { rep.fail(&ob, d.clone(), input, d); }
    }
    rep.sample("[1 /\\x00\\x01 2 /\\x00\\x01]".into());
    rep
}

/// Real numbers: quick = every exponent x 512 mantissas + powers of two and ten; thorough = all 2^32 bit patterns (complete).
pub fn reals(thorough: bool) -> Report {
    let mut rep = Report::new(if thorough { "all 2^32 f32 bit patterns (finite ones) through write_object and the real/integer parsers" } else { "every sign x exponent x 512 mantissas (strided), plus +-2^k and +-10^k" }, thorough);
    let check = |bits: u32| -> Option<(u32, String)> {
        let v = f32::from_bits(bits);
        if !v.is_finite() { return None; }
        // through the content-stream encoder/decoder, which shares write_object and the number parsers with the document path
        let c = lopdf::content::Content { operations: vec![lopdf::content::Operation::new("x", vec![Object::Real(v)])] };
        let enc = match c.encode() { Ok(e) => e, Err(e) => return Some((bits, format!("encode failed: {}", e))) };
        match lopdf::content::Content::decode(&enc) {
            Ok(d) if d.operations.len() == 1 && d.operations[0].operands.len() == 1 && obj_eq(&Object::Real(v), &d.operations[0].operands[0]) => None,
            Ok(d) => Some((bits, format!("{:?} written as {:?} decodes to {:?}", v, String::from_utf8_lossy(&enc), d.operations))),
            Err(e) => Some((bits, format!("{:?} written as {:?} fails to decode: {}", v, String::from_utf8_lossy(&enc), e))),
        }
    };
    let total: u64;
    let fails: Vec<(u32, String)>;
    if thorough {
        total = 1u64 << 32;
        fails = (0u32..=u32::MAX).into_par_iter().filter_map(check).collect::<Vec<_>>();
    } else {
        let mut pats: Vec<u32> = vec![];
        for sign in 0..2u32 { for e in 0..255u32 { for m in 0..512u32 { pats.push((sign << 31) | (e << 23) | (m * 16381 % (1 << 23))); } } }
        for k in 0..128 { pats.push((2f32).powi(k - 64).to_bits()); pats.push((-(2f32).powi(k - 64)).to_bits()); }
        for k in -38..39 { pats.push((10f32).powi(k).to_bits()); pats.push((-(10f32).powi(k)).to_bits()); }
        total = pats.len() as u64;
        fails = pats.into_par_iter().filter_map(check).collect();
    }
    rep.evaluations = total;
    rep.nontrivial = total;
    let mut fails = fails;
    fails.sort();
    let nf = fails.len();
    for (bits, d) in fails.into_iter().take(3) {
        rep.fail("real-roundtrip", format!("{} ({} failing bit patterns in this run)", d, nf), json!({"kind": "real", "bits": bits}), d);
    }
    rep.sample("0.5 x".into());
    rep
}

pub fn replay(v: &Value) -> Result<(), String> {
    match v["kind"].as_str() {
        Some("doc") => check_doc(&spec_from_json(&v["spec"])).map_err(|e| format!("{}: {}", e.0, e.1)),
        Some("object") => one_object_cycle(&obj_from_json(&v["obj"])),
        Some("real") => {
            let f = f32::from_bits(v["bits"].as_u64().unwrap() as u32);
            one_object_cycle(&Object::Real(f))
        }
        _ => Err("unknown replay kind".into()),
    }
}
