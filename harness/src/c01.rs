//! C01: save then load returns the same document (bounded stand-in for the reader half; complete for f32 in thorough).
use crate::c03::{obj_json, obj_from_json, spec_from_json, spec_json};
use crate::common::*;
use crate::gen::*;
use lopdf::{Document, Object, StringFormat};
use rayon::prelude::*;
use serde_json::{json, Value};

/// does `file` load to a document equal to `orig` (C01 equality)?
pub fn loads_to(file: &[u8], orig: &Document) -> Result<(), String> {
    let loaded = match guarded(|| Document::load_mem(file)) { Err(p) => return Err(format!("load panicked: {}", p)), Ok(Err(e)) => return Err(format!("load failed: {}", e)), Ok(Ok(d)) => d };
    compare(orig, &loaded)
}

pub fn compare(orig: &Document, loaded: &Document) -> Result<(), String> {
    if loaded.version != orig.version { return Err(format!("version {:?} != {:?}", loaded.version, orig.version)); }
    let a: Vec<_> = orig.objects.iter().filter(|(_, o)| !is_bookkeeping_object(o)).collect();
    let b: Vec<_> = loaded.objects.iter().filter(|(_, o)| !is_bookkeeping_object(o)).collect();
    for (id, o) in &a {
        match loaded.objects.get(*id) {
            None => return Err(format!("object {} {} is missing after load", id.0, id.1)),
            Some(l) => if !obj_eq(o, l) { return Err(format!("object {} {}: saved {:?} loaded {:?}", id.0, id.1, o, l)); }
        }
    }
    if a.len() != b.len() { return Err(format!("{} objects saved, {} loaded", a.len(), b.len())); }
    if !dict_eq(&orig.trailer, &loaded.trailer, BOOKKEEPING) { return Err(format!("trailer: saved {:?} loaded {:?}", orig.trailer, loaded.trailer)); }
    Ok(())
}

pub fn check_doc(spec: &DocSpec) -> Result<(), (String, String)> {
    let orig = build(spec);
    let mut d = build(spec);
    let mut out = vec![];
    match guarded(std::panic::AssertUnwindSafe(|| d.save_to(&mut out))) { Ok(Ok(())) => {}, other => return Err(("save".into(), format!("{:?}", other.map(|x| x.map_err(|e| e.to_string()))))) }
    loads_to(&out, &orig).map_err(|e| ("load-equals-saved".to_string(), e))?;
    // repeat the cycle on the loaded document
    let mut l1 = Document::load_mem(&out).unwrap();
    let mut out2 = vec![];
    l1.save_to(&mut out2).map_err(|e| ("second-save".to_string(), e.to_string()))?;
    loads_to(&out2, &orig).map_err(|e| ("second-cycle".to_string(), e))?;
    Ok(())
}

/// The six PDF white-space bytes (ISO 32000-1 table 1): the bytes a reader may skip around the `stream`/`endstream` keywords.
const WS: [u8; 6] = [0x00, 0x09, 0x0A, 0x0C, 0x0D, 0x20];

/// all byte strings of length 0..=max over `alpha`, shortest first
fn seqs(alpha: &[u8], max: usize) -> Vec<Vec<u8>> {
    let mut out: Vec<Vec<u8>> = vec![vec![]];
    let mut from = 0;
    for _ in 0..max {
        let to = out.len();
        for i in from..to { for &b in alpha { let mut v = out[i].clone(); v.push(b); out.push(v); } }
        from = to;
    }
    out
}

/// The stream-body dimension of the quantifier ("arbitrary bytes ... in stream bodies"), enumerated:
///  A) every body of at most two bytes over all 256 byte values (1 + 256 + 65 536);
///  B) prefix ++ core ++ suffix, where prefix and suffix range over ALL strings up to a length bound over the lexical byte
///     classes that matter next to the `stream` / `endstream` keywords (the six white-space bytes, a regular byte, 0xFF)
///     and core over an empty body, a content stream, a body that contains the closing keywords, and binary data;
///  C) runs w^n of one white-space byte (n beyond the bound of B) before and after each core.
pub fn stream_bodies(thorough: bool) -> (Vec<Vec<u8>>, usize) {
    let mut out: Vec<Vec<u8>> = seqs(&(0u16..256).map(|b| b as u8).collect::<Vec<u8>>(), 2);
    let n_a = out.len();
    let mut alpha = WS.to_vec();
    alpha.extend([b'x', 0xFF]);
    let cores: [&[u8]; 4] = [b"", b"q 1 0 0 1 0 0 cm Q", b"x\nendstream\nendobj\n", b"\x78\x9c\x00\x01\xfe\xff"];
    let (pl, sl, run) = if thorough { (3, 2, 64) } else { (2, 1, 16) };
    let (pre, suf) = (seqs(&alpha, pl), seqs(&alpha, sl));
    for core in cores {
        for p in &pre { for s in &suf { out.push([p.as_slice(), core, s.as_slice()].concat()); } }
        for w in WS { for n in (pl + 1)..=run { out.push([vec![w; n].as_slice(), core].concat()); out.push([core, vec![w; n].as_slice()].concat()); } }
    }
    (out, n_a)
}

fn esc(b: &[u8]) -> String {
    let mut t: String = b.iter().take(40).map(|&c| if (0x21..0x7f).contains(&c) && c != b'\\' { (c as char).to_string() } else { format!("\\x{:02x}", c) }).collect();
    if b.len() > 40 { t.push_str(".."); }
    format!("\"{}\" ({} bytes)", t, b.len())
}

/// the document a stream body is placed in: alone, or between two other objects (sparse ids, non-zero generation), with an
/// empty or a non-empty stream dictionary
fn stream_spec(body: &[u8], layout: usize, xs: bool) -> (DocSpec, (u32, u16)) {
    if layout == 0 {
        (DocSpec { objects: vec![((1, 0), Object::Stream(lopdf::Stream::new(lopdf::Dictionary::new(), body.to_vec())))], xref_stream: xs, version: "1.5".into(), extra_trailer: false, max_id_slack: 0 }, (1, 0))
    } else {
        let st = Object::Stream(lopdf::Stream::new(dict(vec![(b"Extra", name(b"Yes"))]), body.to_vec()));
        (DocSpec { objects: vec![((1, 0), Object::Integer(7)), ((3, 2), st), ((6, 0), Object::Dictionary(dict(vec![(b"Next", Object::Reference((3, 2)))])))], xref_stream: xs, version: "1.7".into(), extra_trailer: true, max_id_slack: 1 }, (3, 2))
    }
}

/// what one save+load did to the stream `sid` of `spec`: (kind of damage, particulars). Only used to word a failure; the
/// verdict is check_doc's.
fn stream_diag(spec: &DocSpec, sid: (u32, u16), body: &[u8]) -> (String, String) {
    let mut d = build(spec);
    let mut out = vec![];
    if !matches!(guarded(std::panic::AssertUnwindSafe(|| d.save_to(&mut out))), Ok(Ok(()))) { return ("save of a document with a stream failed".into(), String::new()); }
    match guarded(|| Document::load_mem(&out)) {
        Ok(Ok(l)) => match l.objects.get(&sid) {
            Some(Object::Stream(s)) if s.content == body => ("stream body survives the first cycle only".into(), "the first save+load returns the body unchanged".into()),
            Some(Object::Stream(s)) => ("stream body changed by save+load".into(), format!("read back {}", esc(&s.content))),
            Some(o) => (format!("stream came back as a {}", o.enum_variant()), format!("read back {:?}", o)),
            None => ("stream is missing after save+load".into(), String::new()),
        },
        Ok(Err(e)) => ("load of a saved document with a stream failed".into(), e.to_string()),
        Err(p) => ("load of a saved document with a stream panicked".into(), p),
    }
}

pub fn roundtrip(thorough: bool) -> Report {
    let mut rep = Report::new(if thorough {
        "all documents of gen::docs (both xref formats); plus the stream-body family: every stream body of 0..=2 bytes over all 256 byte values, alone in a document; every body prefix++core++suffix with prefix in all strings of length<=3 and suffix in all strings of length<=2 over {NUL,TAB,LF,FF,CR,SP,'x',0xFF} and core in {empty, content stream, text containing endstream/endobj, binary}, and runs of 4..=64 equal white-space bytes before/after each core, each alone and between two other objects (sparse ids, generation 2, non-empty stream dictionary); all x both xref formats; two save/load cycles each"
    } else {
        "all documents of gen::docs (both xref formats); plus the stream-body family: every stream body of 0..=2 bytes over all 256 byte values, alone in a document; every body prefix++core++suffix with prefix in all strings of length<=2 and suffix in all strings of length<=1 over {NUL,TAB,LF,FF,CR,SP,'x',0xFF} and core in {empty, content stream, text containing endstream/endobj, binary}, and runs of 3..=16 equal white-space bytes before/after each core, each alone and between two other objects (sparse ids, generation 2, non-empty stream dictionary); all x both xref formats; two save/load cycles each"
    }, true);
    for s in docs(thorough) {
        rep.case(!s.objects.is_empty());
        if let Err((ob, d)) = check_doc(&s) { rep.fail(&ob, d.clone(), json!({"kind": "doc", "spec": spec_json(&s)}), d); }
        else if rep.evaluations % 101 == 1 { rep.sample(describe(&s)); }
    }
    // the stream-body dimension
    let (bodies, n_a) = stream_bodies(thorough);
    let results: Vec<(u64, u64, Vec<(String, String, Value, String)>)> = bodies.par_iter().enumerate().map(|(i, body)| {
        let mut fails = vec![];
        let mut n = 0;
        for layout in 0..(if i < n_a { 1 } else { 2 }) {
            for xs in [false, true] {
                n += 1;
                let (spec, sid) = stream_spec(body, layout, xs);
                if let Err((ob, d)) = check_doc(&spec) {
                    let (kind, rest) = stream_diag(&spec, sid, body);
                    let detail = format!("{} ({}, xref {}): stream {} {} wrote body {}, {}", kind, if layout == 0 { "alone" } else { "between two objects" }, if xs { "stream" } else { "table" }, sid.0, sid.1, esc(body), rest);
                    fails.push((format!("stream-body-{}", ob), detail, json!({"kind": "doc", "spec": spec_json(&spec)}), d));
                }
            }
        }
        (n, if body.is_empty() { 0 } else { n }, fails)
    }).collect();
    let mut total_fails = 0usize;
    for (n, nt, fails) in results {
        rep.evaluations += n;
        rep.nontrivial += nt;
        for (ob, detail, input, observed) in fails { total_fails += 1; rep.fail(&ob, detail, input, observed); }
    }
    if total_fails > 0 { for f in rep.failures.iter_mut().filter(|f| f.obligation.starts_with("stream-body-")) { f.detail = format!("[{} stream-body documents fail in total in this run] {}", total_fails, f.detail); } }
    rep.sample(format!("stream bodies: {} enumerated, e.g. {}", bodies.len(), esc(&bodies[bodies.len() / 2])));
    rep
}

fn one_object_cycle(o: &Object) -> Result<(), String> {
    let spec = DocSpec { objects: vec![((1, 0), o.clone())], xref_stream: false, version: "1.5".into(), extra_trailer: false, max_id_slack: 0 };
    let orig = build(&spec);
    let mut d = build(&spec);
    let mut out = vec![];
    d.save_to(&mut out).map_err(|e| e.to_string())?;
    loads_to(&out, &orig)
}

/// all 65 536 two-byte names and literal strings (and hex strings) through save/load: exhaustive over byte pairs
pub fn bytepairs(thorough: bool) -> Report {
    let mut rep = Report::new("every two-byte name, literal string and hexadecimal string (3 x 65 536), plus every one-byte one, inside an array between two integers", true);
    let stride = if thorough { 1 } else { 1 };
    let results: Vec<(u32, Option<(String, String, Value)>)> = (0u32..65536 + 256).into_par_iter().filter(|v| v % stride == 0).map(|v| {
        let bytes: Vec<u8> = if v < 65536 { vec![(v >> 8) as u8, v as u8] } else { vec![(v - 65536) as u8] };
        for (kind, o) in [("name", Object::Name(bytes.clone())), ("literal", Object::String(bytes.clone(), StringFormat::Literal)), ("hex", Object::String(bytes.clone(), StringFormat::Hexadecimal))] {
            let wrapped = Object::Array(vec![Object::Integer(1), o.clone(), Object::Integer(2), o.clone()]);
            if let Err(e) = one_object_cycle(&wrapped) { return (v, Some((format!("bytepair-{}", kind), e, json!({"kind": "object", "obj": obj_json(&wrapped)})))); }
        }
        (v, None)
    }).collect();
    for (_, r) in results {
        rep.case(true);
        rep.evaluations += 2;
        rep.nontrivial += 2;
        if let Some((ob, d, input)) = r { rep.fail(&ob, d.clone(), input, d); }
    }
    rep.sample("[1 /\\x00\\x01 2 /\\x00\\x01]".into());
    rep
}

/// Real numbers: quick = every exponent x 512 mantissas + powers of two and ten; thorough = all 2^32 bit patterns (complete).
pub fn reals(thorough: bool) -> Report {
    let mut rep = Report::new(if thorough { "all 2^32 f32 bit patterns (finite ones) through write_object and the real/integer parsers" } else { "every sign x exponent x 512 mantissas (strided), plus +-2^k and +-10^k" }, thorough);
    let check = |bits: u32| -> Option<(u32, String)> {
        let v = f32::from_bits(bits);
        if !v.is_finite() { return None; }
        // through the content-stream encoder/decoder, which shares write_object and the number parsers with the document path
        let c = lopdf::content::Content { operations: vec![lopdf::content::Operation::new("x", vec![Object::Real(v)])] };
        let enc = match c.encode() { Ok(e) => e, Err(e) => return Some((bits, format!("encode failed: {}", e))) };
        match lopdf::content::Content::decode(&enc) {
            Ok(d) if d.operations.len() == 1 && d.operations[0].operands.len() == 1 && obj_eq(&Object::Real(v), &d.operations[0].operands[0]) => None,
            Ok(d) => Some((bits, format!("{:?} written as {:?} decodes to {:?}", v, String::from_utf8_lossy(&enc), d.operations))),
            Err(e) => Some((bits, format!("{:?} written as {:?} fails to decode: {}", v, String::from_utf8_lossy(&enc), e))),
        }
    };
    let total: u64;
    let fails: Vec<(u32, String)>;
    if thorough {
        total = 1u64 << 32;
        fails = (0u32..=u32::MAX).into_par_iter().filter_map(check).collect::<Vec<_>>();
    } else {
        let mut pats: Vec<u32> = vec![];
        for sign in 0..2u32 { for e in 0..255u32 { for m in 0..512u32 { pats.push((sign << 31) | (e << 23) | (m * 16381 % (1 << 23))); } } }
        for k in 0..128 { pats.push((2f32).powi(k - 64).to_bits()); pats.push((-(2f32).powi(k - 64)).to_bits()); }
        for k in -38..39 { pats.push((10f32).powi(k).to_bits()); pats.push((-(10f32).powi(k)).to_bits()); }
        total = pats.len() as u64;
        fails = pats.into_par_iter().filter_map(check).collect();
    }
    rep.evaluations = total;
    rep.nontrivial = total;
    let mut fails = fails;
    fails.sort();
    let nf = fails.len();
    for (bits, d) in fails.into_iter().take(3) {
        rep.fail("real-roundtrip", format!("{} ({} failing bit patterns in this run)", d, nf), json!({"kind": "real", "bits": bits}), d);
    }
    rep.sample("0.5 x".into());
    rep
}

pub fn replay(v: &Value) -> Result<(), String> {
    match v["kind"].as_str() {
        Some("doc") => check_doc(&spec_from_json(&v["spec"])).map_err(|e| format!("{}: {}", e.0, e.1)),
        Some("object") => one_object_cycle(&obj_from_json(&v["obj"])),
        Some("real") => {
            let f = f32::from_bits(v["bits"].as_u64().unwrap() as u32);
            one_object_cycle(&Object::Real(f))
        }
        _ => Err("unknown replay kind".into()),
    }
}
