//! C01: save then load returns the same document (bounded stand-in for the reader half; complete for f32 in thorough).
//! c01-roundtrip enumerates, besides the documents of gen::docs and the stream-body family: the transport (how many bytes the
//! destination of save_to accepts / the source of load_from delivers per call), the nesting depth of arrays and dictionaries,
//! and histories of save/load cycles on one thread (C01 is unconditional: it holds whatever was saved and loaded before);
//! the key set of an indirect dictionary / stream dictionary over the key names that ISO 32000-1 uses for the structure of a
//! file, crossed with the /Type entry (keys are arbitrary names: a key only means something together with the /Type);
//! and the provenance of the in-memory document: not only documents built from scratch, but every document reached from one
//! through a short script of public-API edits and save / save+load steps (C01 checked at every save of the script).
use crate::c03::{obj_json, obj_from_json, spec_from_json, spec_json};
use crate::common::*;
use crate::gen::*;
use lopdf::{Document, Object, StringFormat};
use rayon::prelude::*;
use serde_json::{json, Value};
use std::io::{Read, Write};

/// does `file` load to a document equal to `orig` (C01 equality)?
pub fn loads_to(file: &[u8], orig: &Document) -> Result<(), String> {
    let loaded = match guarded(|| Document::load_mem(file)) { Err(p) => return Err(format!("load panicked: {}", p)), Ok(Err(e)) => return Err(format!("load failed: {}", e)), Ok(Ok(d)) => d };
    compare(orig, &loaded)
}

pub fn compare(orig: &Document, loaded: &Document) -> Result<(), String> {
    if loaded.version != orig.version { return Err(format!("version {:?} != {:?}", loaded.version, orig.version)); }
    let a: Vec<_> = orig.objects.iter().filter(|(_, o)| !is_bookkeeping_object(o)).collect();
    let b: Vec<_> = loaded.objects.iter().filter(|(_, o)| !is_bookkeeping_object(o)).collect();
    for (id, o) in &a {
        match loaded.objects.get(*id) {
            None => return Err(format!("object {} {} is missing after load", id.0, id.1)),
            Some(l) => if !obj_eq(o, l) { return Err(format!("object {} {}: saved {:?} loaded {:?}", id.0, id.1, o, l)); }
        }
    }
    if a.len() != b.len() { return Err(format!("{} objects saved, {} loaded", a.len(), b.len())); }
    if !dict_eq(&orig.trailer, &loaded.trailer, BOOKKEEPING) { return Err(format!("trailer: saved {:?} loaded {:?}", orig.trailer, loaded.trailer)); }
    Ok(())
}

/// A destination for `save_to` that accepts, on its i-th `write` call, at most `schedule[i mod len]` bytes (a pipe, a socket,
/// an encoder); everything it accepted is kept in `bytes`.
pub struct ShortSink { schedule: Vec<usize>, calls: usize, pub bytes: Vec<u8> }

impl Write for ShortSink {
    fn write(&mut self, buf: &[u8]) -> std::io::Result<usize> {
        let n = buf.len().min(self.schedule[self.calls % self.schedule.len()].max(1));
        self.calls += 1;
        self.bytes.extend_from_slice(&buf[..n]);
        Ok(n)
    }
    fn flush(&mut self) -> std::io::Result<()> { Ok(()) }
}

/// A source for `load_from` that hands out, on its i-th `read` call, at most `schedule[i mod len]` bytes.
struct ShortSource<'a> { schedule: &'a [usize], calls: usize, data: &'a [u8] }

impl Read for ShortSource<'_> {
    fn read(&mut self, buf: &mut [u8]) -> std::io::Result<usize> {
        let n = buf.len().min(self.data.len()).min(self.schedule[self.calls % self.schedule.len()].max(1));
        self.calls += 1;
        buf[..n].copy_from_slice(&self.data[..n]);
        self.data = &self.data[n..];
        Ok(n)
    }
}

/// save `d`; the bytes that reached the destination. `schedule` empty: a Vec (takes every buffer whole); otherwise a ShortSink.
fn save_via(d: &mut Document, schedule: &[usize]) -> Result<Vec<u8>, String> {
    let mut sink = ShortSink { schedule: if schedule.is_empty() { vec![usize::MAX] } else { schedule.to_vec() }, calls: 0, bytes: vec![] };
    let mut plain = vec![];
    let r = if schedule.is_empty() { guarded(std::panic::AssertUnwindSafe(|| d.save_to(&mut plain))) } else { guarded(std::panic::AssertUnwindSafe(|| d.save_to(&mut sink))) };
    match r { Ok(Ok(())) => Ok(if schedule.is_empty() { plain } else { sink.bytes }), Ok(Err(e)) => Err(format!("save failed: {}", e)), Err(p) => Err(format!("save panicked: {}", p)) }
}

/// load `file`: from memory (`schedule` empty), or through `load_from` from a source that delivers it in pieces
fn load_via(file: &[u8], schedule: &[usize]) -> Result<Document, String> {
    let r = if schedule.is_empty() { guarded(|| Document::load_mem(file)) } else { guarded(|| Document::load_from(ShortSource { schedule, calls: 0, data: file })) };
    match r { Err(p) => Err(format!("load panicked: {}", p)), Ok(Err(e)) => Err(format!("load failed: {}", e)), Ok(Ok(d)) => Ok(d) }
}

/// C01 for one document value and one transport: two save/load cycles, each load compared with the ORIGINAL in-memory document
pub fn check_document(orig: &Document, schedule: &[usize]) -> Result<(), (String, String)> {
    let mut d = orig.clone();
    let out = save_via(&mut d, schedule).map_err(|e| ("save".to_string(), e))?;
    let mut l1 = load_via(&out, schedule).map_err(|e| ("load-equals-saved".to_string(), e))?;
    compare(orig, &l1).map_err(|e| ("load-equals-saved".to_string(), e))?;
    if !schedule.is_empty() {
        // the same file read from memory: what reached the sink is the document, however it is read back
        loads_to(&out, orig).map_err(|e| ("load-equals-saved".to_string(), e))?;
    }
    // repeat the cycle on the loaded document
    let out2 = save_via(&mut l1, schedule).map_err(|e| ("second-save".to_string(), e))?;
    let l2 = load_via(&out2, schedule).map_err(|e| ("second-cycle".to_string(), e))?;
    compare(orig, &l2).map_err(|e| ("second-cycle".to_string(), e))?;
    Ok(())
}

pub fn check_doc(spec: &DocSpec) -> Result<(), (String, String)> { check_document(&build(spec), &[]) }

/// The six PDF white-space bytes (ISO 32000-1 table 1): the bytes a reader may skip around the `stream`/`endstream` keywords.
const WS: [u8; 6] = [0x00, 0x09, 0x0A, 0x0C, 0x0D, 0x20];

/// all byte strings of length 0..=max over `alpha`, shortest first
fn seqs(alpha: &[u8], max: usize) -> Vec<Vec<u8>> {
    let mut out: Vec<Vec<u8>> = vec![vec![]];
    let mut from = 0;
    for _ in 0..max {
        let to = out.len();
        for i in from..to { for &b in alpha { let mut v = out[i].clone(); v.push(b); out.push(v); } }
        from = to;
    }
    out
}

/// The stream-body dimension of the quantifier ("arbitrary bytes ... in stream bodies"), enumerated:
///  A) every body of at most two bytes over all 256 byte values (1 + 256 + 65 536);
///  B) prefix ++ core ++ suffix, where prefix and suffix range over ALL strings up to a length bound over the lexical byte
///     classes that matter next to the `stream` / `endstream` keywords (the six white-space bytes, a regular byte, 0xFF)
///     and core over an empty body, a content stream, a body that contains the closing keywords, and binary data;
///  C) runs w^n of one white-space byte (n beyond the bound of B) before and after each core.
pub fn stream_bodies(thorough: bool) -> (Vec<Vec<u8>>, usize) {
    let mut out: Vec<Vec<u8>> = seqs(&(0u16..256).map(|b| b as u8).collect::<Vec<u8>>(), 2);
    let n_a = out.len();
    let mut alpha = WS.to_vec();
    alpha.extend([b'x', 0xFF]);
    let cores: [&[u8]; 4] = [b"", b"q 1 0 0 1 0 0 cm Q", b"x\nendstream\nendobj\n", b"\x78\x9c\x00\x01\xfe\xff"];
    let (pl, sl, run) = if thorough { (3, 2, 64) } else { (2, 1, 16) };
    let (pre, suf) = (seqs(&alpha, pl), seqs(&alpha, sl));
    for core in cores {
        for p in &pre { for s in &suf { out.push([p.as_slice(), core, s.as_slice()].concat()); } }
        for w in WS { for n in (pl + 1)..=run { out.push([vec![w; n].as_slice(), core].concat()); out.push([core, vec![w; n].as_slice()].concat()); } }
    }
    (out, n_a)
}

fn esc(b: &[u8]) -> String {
    let mut t: String = b.iter().take(40).map(|&c| if (0x21..0x7f).contains(&c) && c != b'\\' { (c as char).to_string() } else { format!("\\x{:02x}", c) }).collect();
    if b.len() > 40 { t.push_str(".."); }
    format!("\"{}\" ({} bytes)", t, b.len())
}

/// the document a stream body is placed in: alone, or between two other objects (sparse ids, non-zero generation), with an
/// empty or a non-empty stream dictionary
fn stream_spec(body: &[u8], layout: usize, xs: bool) -> (DocSpec, (u32, u16)) {
    if layout == 0 {
        (DocSpec { objects: vec![((1, 0), Object::Stream(lopdf::Stream::new(lopdf::Dictionary::new(), body.to_vec())))], xref_stream: xs, version: "1.5".into(), extra_trailer: false, max_id_slack: 0 }, (1, 0))
    } else {
        let st = Object::Stream(lopdf::Stream::new(dict(vec![(b"Extra", name(b"Yes"))]), body.to_vec()));
        (DocSpec { objects: vec![((1, 0), Object::Integer(7)), ((3, 2), st), ((6, 0), Object::Dictionary(dict(vec![(b"Next", Object::Reference((3, 2)))])))], xref_stream: xs, version: "1.7".into(), extra_trailer: true, max_id_slack: 1 }, (3, 2))
    }
}

/// what one save+load did to the stream `sid` of `spec`: (kind of damage, particulars). Only used to word a failure; the
/// verdict is check_doc's.
fn stream_diag(spec: &DocSpec, sid: (u32, u16), body: &[u8]) -> (String, String) {
    let mut d = build(spec);
    let mut out = vec![];
    if !matches!(guarded(std::panic::AssertUnwindSafe(|| d.save_to(&mut out))), Ok(Ok(()))) { return ("save of a document with a stream failed".into(), String::new()); }
    match guarded(|| Document::load_mem(&out)) {
        Ok(Ok(l)) => match l.objects.get(&sid) {
            Some(Object::Stream(s)) if s.content == body => ("stream body survives the first cycle only".into(), "the first save+load returns the body unchanged".into()),
            Some(Object::Stream(s)) => ("stream body changed by save+load".into(), format!("read back {}", esc(&s.content))),
            Some(o) => (format!("stream came back as a {}", o.enum_variant()), format!("read back {:?}", o)),
            None => ("stream is missing after save+load".into(), String::new()),
        },
        Ok(Err(e)) => ("load of a saved document with a stream failed".into(), e.to_string()),
        Err(p) => ("load of a saved document with a stream panicked".into(), p),
    }
}

/// The key names to which ISO 32000-1 gives a meaning for the STRUCTURE of a file or of the document tree (as opposed to the
/// content of one object): the linearization parameter dictionary (annex F, table F.1), object streams (7.5.7), cross-reference
/// streams (7.5.8), the trailer (7.5.5), stream dictionaries (7.3.8.2) and the catalog / page tree (7.7.2, 7.7.3). "Dictionary
/// keys are arbitrary names": any of them may occur in any dictionary, where it is an ordinary entry.
pub const STRUCT_KEYS: [&[u8]; 32] = [
    b"Linearized", b"L", b"H", b"O", b"E", b"N", b"T", b"P",
    b"First", b"Extends",
    b"Size", b"Index", b"Prev", b"W",
    b"Root", b"Encrypt", b"Info", b"ID", b"XRefStm",
    b"Length", b"Filter", b"DecodeParms", b"F", b"FFilter", b"FDecodeParms", b"DL",
    b"Subtype", b"Parent", b"Kids", b"Count", b"Contents", b"Pages",
];

/// the /Type entry of the host: absent, not a name, the types of the document structure, the two types of file-structure
/// objects, and a private type
fn host_types() -> Vec<Option<Object>> {
    let mut v = vec![None, Some(Object::Integer(1))];
    for t in [&b"Catalog"[..], b"Pages", b"Page", b"Font", b"XObject", b"Metadata", b"ObjStm", b"XRef", b"Zz"] { v.push(Some(name(t))); }
    v
}

fn key_values() -> Vec<Object> { vec![Object::Boolean(true), Object::Integer(1), name(b"V"), Object::Array(vec![Object::Integer(0), Object::Integer(1)]), Object::Reference((1, 0))] }

/// all subsets of 1..=max indices below n, smallest first
fn subsets(n: usize, max: usize) -> Vec<Vec<usize>> {
    let mut out: Vec<Vec<usize>> = vec![];
    let mut level: Vec<Vec<usize>> = vec![vec![]];
    for _ in 0..max {
        let mut next = vec![];
        for s in &level { for i in s.last().map(|l| l + 1).unwrap_or(0)..n { let mut t = s.clone(); t.push(i); next.push(t); } }
        out.extend(next.iter().cloned());
        level = next;
    }
    out
}

/// Is `o` one of the objects that only describe the layout of a file (ISO 32000-1: an object stream or a cross-reference stream,
/// which carry /Type /ObjStm resp. /Type /XRef, or the linearization parameter dictionary, which has no /Type and is recognised
/// by its Linearized entry)? Every other object is part of the document and has to survive. Written from the standard, without
/// the library's `type_name`; the module reports it if the two ever disagree on an enumerated host.
fn is_file_structure_by_iso(o: &Object) -> bool {
    let d = match o { Object::Dictionary(d) => d, Object::Stream(s) => &s.dict, _ => return false };
    let ty: Option<&[u8]> = d.iter().find(|(k, _)| k.as_slice() == b"Type").and_then(|(_, v)| match v { Object::Name(n) => Some(n.as_slice()), _ => None });
    match ty { Some(t) => t == b"ObjStm" || t == b"XRef" || t == b"Linearized", None => d.iter().any(|(k, _)| k.as_slice() == b"Linearized") }
}

/// one host of the key dimension: a dictionary (`stream` false) or a stream whose dictionary has the /Type entry `ty` (first)
/// and then the keys `keys` of STRUCT_KEYS, all with the value `val`
fn key_host(stream: bool, ty: &Option<Object>, keys: &[usize], val: &Object) -> Object {
    let mut d = lopdf::Dictionary::new();
    if let Some(t) = ty { d.set("Type", t.clone()); }
    for &k in keys { d.set(STRUCT_KEYS[k].to_vec(), val.clone()); }
    if stream { Object::Stream(lopdf::Stream::new(d, b"q Q".to_vec())) } else { Object::Dictionary(d) }
}

/// the document a host object is placed in: alone (and /Root), or between two other objects (sparse ids, generation 2,
/// referenced from the object after it)
fn host_spec(o: Object, layout: usize, xs: bool) -> (DocSpec, (u32, u16)) {
    if layout == 0 {
        (DocSpec { objects: vec![((1, 0), o)], xref_stream: xs, version: "1.5".into(), extra_trailer: false, max_id_slack: 0 }, (1, 0))
    } else {
        (DocSpec { objects: vec![((1, 0), Object::Integer(7)), ((3, 2), o), ((6, 0), Object::Dictionary(dict(vec![(b"Next", Object::Reference((3, 2)))])))], xref_stream: xs, version: "1.7".into(), extra_trailer: true, max_id_slack: 1 }, (3, 2))
    }
}

/// The provenance dimension of the quantifier ("for every in-memory document ... remains true when the cycle is repeated"): an
/// in-memory document is not only one built from scratch; it is any value reachable through the public API, in particular one
/// that was saved before (save_to takes `&mut self`), one that came out of a load, and one that was edited after either.
/// A script is a sequence of these steps applied to one document value:
///  S  save it (C01: the produced bytes load to a document equal to the value before the save) and go on with the SAME value
///  L  the same, and go on with the LOADED document
///  A  add_object (the k-th addition of a script adds a dictionary, a stream, an array referring to the highest object, ...)
///  M  set_object: replace the highest-numbered object by a new dictionary
///  R  remove the lowest-numbered object
///  T  point the trailer entry /Info at the highest-numbered object
///  X  switch the cross-reference format the document will be saved with
///  N  new_object_id: reserve an object number without giving it an object
/// After the last step: C01 for the resulting value (check_document: two cycles, both compared with that value).
pub const STEPS: &[u8] = b"SLAMRTXN";

fn step_name(c: u8) -> &'static str {
    match c {
        b'S' => "save (keep the same value)", b'L' => "save, load, continue with the loaded document", b'A' => "add_object", b'M' => "set_object on the highest-numbered object",
        b'R' => "remove the lowest-numbered object", b'T' => "trailer /Info -> highest-numbered object", b'X' => "switch the cross-reference format", b'N' => "new_object_id", _ => "?",
    }
}

fn steps_text(steps: &[u8]) -> String { if steps.is_empty() { "(none)".into() } else { steps.iter().enumerate().map(|(i, &c)| format!("{}. {}", i + 1, step_name(c))).collect::<Vec<_>>().join("; ") } }

/// all scripts of length 0..=max over STEPS, shortest first
pub fn scripts(max: usize) -> Vec<Vec<u8>> { seqs(STEPS, max) }

/// Run a script on the document of `spec`. Err((i, obligation, detail)): the C01 check at step i (0-based; steps.len() for the
/// final check) failed. The oracle is `compare` against a clone of the in-memory value taken immediately before the save.
pub fn check_script(spec: &DocSpec, steps: &[u8]) -> Result<(), (usize, String, String)> {
    let mut d = build(spec);
    let mut adds = 0i64;
    for (i, &c) in steps.iter().enumerate() {
        let highest = d.objects.keys().next_back().copied();
        match c {
            b'S' | b'L' => {
                let before = d.clone();
                let bytes = save_via(&mut d, &[]).map_err(|e| (i, "save".to_string(), e))?;
                let loaded = load_via(&bytes, &[]).map_err(|e| (i, "load-equals-saved".to_string(), e))?;
                compare(&before, &loaded).map_err(|e| (i, "load-equals-saved".to_string(), e))?;
                if c == b'L' { d = loaded; }
            }
            b'A' => {
                let o = match adds % 3 {
                    0 => Object::Dictionary(dict(vec![(b"Title", lit(b"added later")), (b"Nth", Object::Integer(adds))])),
                    1 => Object::Stream(lopdf::Stream::new(dict(vec![(b"Nth", Object::Integer(adds))]), b"BT (added) Tj ET".to_vec())),
                    _ => Object::Array(vec![Object::Integer(adds), Object::Reference(highest.unwrap_or((1, 0)))]),
                };
                adds += 1;
                d.add_object(o);
            }
            b'M' => if let Some(id) = highest { d.set_object(id, Object::Dictionary(dict(vec![(b"Kind", name(b"Changed")), (b"At", Object::Integer(i as i64))]))); },
            b'R' => if let Some(id) = d.objects.keys().next().copied() { d.objects.remove(&id); },
            b'T' => { d.trailer.set("Info", Object::Reference(highest.unwrap_or((1, 0)))); }
            b'X' => { d.reference_table.cross_reference_type = match d.reference_table.cross_reference_type { lopdf::xref::XrefType::CrossReferenceStream => lopdf::xref::XrefType::CrossReferenceTable, _ => lopdf::xref::XrefType::CrossReferenceStream }; }
            b'N' => { d.new_object_id(); }
            _ => {}
        }
    }
    check_document(&d, &[]).map_err(|(ob, e)| (steps.len(), ob, e))
}

/// The nesting dimension of the quantifier ("any mix of the ten object kinds nested arbitrarily"): one document whose
/// innermost leaf (the integer 7) is enclosed by exactly `depth` arrays / dictionaries in the saved file.
#[derive(Clone, Copy, Debug, PartialEq)]
pub struct Nest {
    pub depth: usize,
    /// 0 arrays only, 1 dictionaries only, 2 alternating (outermost an array), 3 alternating (outermost a dictionary)
    pub shape: u8,
    /// 0 the only indirect object; 1 an indirect object between two others (sparse ids, generation 2); 2 the value of a trailer
    /// entry (the trailer dictionary is level 1); 3 the value of an entry of a stream's dictionary (that dictionary is level 1)
    pub place: u8,
    pub xs: bool,
}

const SHAPES: [&str; 4] = ["arrays", "dictionaries", "arrays and dictionaries alternating (outermost an array)", "dictionaries and arrays alternating (outermost a dictionary)"];
const PLACES: [&str; 4] = ["as the only indirect object", "as an indirect object between two others", "inside the trailer dictionary", "inside a stream dictionary"];

/// `levels` containers around the leaf; every container has a sibling after the nested value, so that the reader has to
/// continue in each enclosing container after the inner one closes
fn nested(levels: usize, shape: u8) -> Object {
    let mut o = Object::Integer(7);
    for i in (0..levels).rev() {
        let array = match shape { 0 => true, 1 => false, 2 => i % 2 == 0, _ => i % 2 == 1 };
        o = if array { Object::Array(vec![Object::Integer(i as i64), o, name(b"e")]) } else { Object::Dictionary(dict(vec![(b"K", o), (b"Z", Object::Integer(i as i64))])) };
    }
    o
}

impl Nest {
    pub fn document(&self) -> Document {
        let one = |o: Object| DocSpec { objects: vec![((1, 0), o)], xref_stream: self.xs, version: "1.5".into(), extra_trailer: false, max_id_slack: 0 };
        match self.place {
            0 => build(&one(nested(self.depth, self.shape))),
            1 => build(&DocSpec { objects: vec![((1, 0), Object::Integer(7)), ((3, 2), nested(self.depth, self.shape)), ((6, 0), Object::Dictionary(dict(vec![(b"Next", Object::Reference((3, 2)))])))], xref_stream: self.xs, version: "1.7".into(), extra_trailer: true, max_id_slack: 1 }),
            2 => { let mut d = build(&one(Object::Dictionary(dict(vec![(b"Kind", name(b"Plain"))])))); d.trailer.set("Deep", nested(self.depth - 1, self.shape)); d }
            _ => build(&one(Object::Stream(lopdf::Stream::new(dict(vec![(b"Deep", nested(self.depth - 1, self.shape))]), b"q Q".to_vec())))),
        }
    }
    /// the same with the place first (failures are grouped by the beginning of their text)
    fn describe_place_first(&self) -> String { format!("{}: leaf enclosed by {} containers, {}, xref {}", PLACES[self.place as usize % 4], self.depth, SHAPES[self.shape as usize % 4], if self.xs { "stream" } else { "table" }) }
    fn describe(&self) -> String { format!("{} nested {} deep {} (xref {})", SHAPES[self.shape as usize % 4], self.depth, PLACES[self.place as usize % 4], if self.xs { "stream" } else { "table" }) }
}

/// one element of a history of save/load cycles
#[derive(Clone)]
pub enum Case { Nest(Nest), Spec(DocSpec) }

impl Case {
    fn document(&self) -> Document { match self { Case::Nest(n) => n.document(), Case::Spec(s) => build(s) } }
    fn describe(&self) -> String { match self { Case::Nest(n) => n.describe(), Case::Spec(s) => { let mut t = describe(s); t.truncate(160); t } } }
    fn to_json(&self) -> Value { match self { Case::Nest(n) => json!({"nest": {"depth": n.depth, "shape": n.shape, "place": n.place, "xs": n.xs}}), Case::Spec(s) => json!({"spec": spec_json(s)}) } }
    fn from_json(v: &Value) -> Case {
        if v.get("nest").is_some() { let n = &v["nest"]; Case::Nest(Nest { depth: n["depth"].as_u64().unwrap_or(1).max(1) as usize, shape: n["shape"].as_u64().unwrap_or(0) as u8, place: n["place"].as_u64().unwrap_or(0) as u8, xs: n["xs"].as_bool().unwrap_or(false) }) }
        else { Case::Spec(spec_from_json(&v["spec"])) }
    }
}

/// Run `f` on a thread that has not run anything before and on which ALL the work of the library happens: the only worker
/// of a fresh one-thread rayon pool (with the `rayon` feature the reader parses indirect objects on the workers of the pool
/// of the calling thread; a sequential build simply runs on that thread). Must be called from a thread outside any pool.
fn on_fresh_thread<T: Send>(f: impl FnOnce() -> T + Send) -> T {
    rayon::ThreadPoolBuilder::new().num_threads(1).build().expect("one-thread pool").install(f)
}

/// The history dimension ("remains true when the save/load cycle is repeated"; the statement is unconditional, so it holds
/// for a document whatever was saved and loaded before): on a fresh thread, one save/load cycle for each case but the last,
/// in order, whatever its outcome; then C01 (check_document) for the last case. The verdict is that of the last case alone.
pub fn check_history(cases: &[Case]) -> Result<(), (String, String)> { on_fresh_thread(|| history_here(cases)) }

/// the same on the current thread, after whatever that thread did before
fn history_here(cases: &[Case]) -> Result<(), (String, String)> {
    let (last, earlier) = match cases.split_last() { Some(x) => x, None => return Ok(()) };
    for c in earlier {
        let mut d = c.document();
        if let Ok(bytes) = save_via(&mut d, &[]) { let _ = load_via(&bytes, &[]); }
    }
    check_document(&last.document(), &[])
}

fn history_json(cases: &[Case]) -> Value { json!({"kind": "history", "cases": cases.iter().map(|c| c.to_json()).collect::<Vec<_>>()}) }

/// `jobs` evaluated by plain threads (not pool workers: each job starts its own one-thread pool and sleeps until that is done,
/// hence more threads than cores); the results that are Some, with the index of their job, in job order
fn run_jobs<J: Sync, R: Send>(jobs: &[J], f: impl Fn(&J) -> Option<R> + Sync) -> Vec<(usize, R)> {
    let next = std::sync::atomic::AtomicUsize::new(0);
    let out: std::sync::Mutex<Vec<(usize, R)>> = std::sync::Mutex::new(vec![]);
    let workers = 4 * std::thread::available_parallelism().map(|n| n.get()).unwrap_or(4);
    std::thread::scope(|sc| {
        for _ in 0..workers {
            sc.spawn(|| {
                let mut mine = vec![];
                loop {
                    let i = next.fetch_add(16, std::sync::atomic::Ordering::Relaxed);
                    if i >= jobs.len() { break; }
                    for k in i..(i + 16).min(jobs.len()) { if let Some(r) = f(&jobs[k]) { mine.push((k, r)); } }
                }
                out.lock().unwrap().extend(mine);
            });
        }
    });
    let mut v = out.into_inner().unwrap();
    v.sort_by_key(|(k, _)| *k);
    v
}

/// One failing history of `run_lanes`. `confirmed` is a history that fails in the same way when run on a fresh thread (what a
/// replay does): the enumerated history itself if that is enough, otherwise the shortest suffix (doubling lengths) of everything
/// its thread had run that does, otherwise (`reproduced` false) everything its thread had run. None for an `expected` failure.
struct LaneFail { job: usize, confirmed: Option<Vec<Case>>, reproduced: bool, err: (String, String) }

/// Thread creation costs several times what a history costs, so the many histories are not given a thread each: every core
/// gets a long-lived thread (the only worker of a one-thread pool, see on_fresh_thread) and runs its share of the histories
/// back to back on it. C01 is unconditional, so every history must still end well - now after all earlier histories of its
/// thread as well, which only lengthens the histories covered. A failure is then confirmed on a fresh thread (see LaneFail),
/// and the thread on which it happened is abandoned for a new one. `expected(job)` marks histories whose last document
/// fails on a fresh thread by itself (already reported there); their failures are counted (second result), only the first few
/// are returned, unconfirmed, and they do not retire the thread. A thread remembers the last LOG_MAX cycles it ran.
fn run_lanes<J: Sync>(jobs: &[J], hist: impl Fn(&J) -> Vec<Case> + Sync, expected: impl Fn(&J) -> bool + Sync) -> (Vec<LaneFail>, usize) {
    const LOG_MAX: usize = 8192;
    let next = std::sync::atomic::AtomicUsize::new(0);
    let n_expected = std::sync::atomic::AtomicUsize::new(0);
    let out: std::sync::Mutex<Vec<LaneFail>> = std::sync::Mutex::new(vec![]);
    let workers = std::thread::available_parallelism().map(|n| n.get()).unwrap_or(4);
    std::thread::scope(|sc| {
        for _ in 0..workers {
            sc.spawn(|| {
                let mut mine: Vec<LaneFail> = vec![];
                let mut pending: Vec<usize> = vec![];
                let mut exhausted = false;
                let mut kept_expected = 0usize;   // jobs come in increasing order, so the three first expected failures overall are among each thread's first three
                while !exhausted || !pending.is_empty() {
                    // one lane: runs until the jobs are exhausted or an unexpected failure happens on it
                    let (stop, expected_fails) = on_fresh_thread(|| {
                        let mut log: Vec<Case> = vec![];
                        let mut ef: Vec<LaneFail> = vec![];
                        loop {
                            if pending.is_empty() {
                                let i = next.fetch_add(32, std::sync::atomic::Ordering::Relaxed);
                                if i >= jobs.len() { exhausted = true; return (None, ef); }
                                pending = (i..(i + 32).min(jobs.len())).rev().collect();
                            }
                            let k = pending.pop().unwrap();
                            let h = hist(&jobs[k]);
                            let r = history_here(&h);
                            log.extend(h.iter().cloned());
                            if log.len() > 2 * LOG_MAX { log.drain(..log.len() - LOG_MAX); }
                            if let Err(e) = r {
                                if expected(&jobs[k]) { n_expected.fetch_add(1, std::sync::atomic::Ordering::Relaxed); kept_expected += 1; if kept_expected <= 3 { ef.push(LaneFail { job: k, confirmed: None, reproduced: true, err: e }); } } else { return (Some((k, h.len(), log, e)), ef); }
                            }
                        }
                    });
                    mine.extend(expected_fails);
                    if let Some((k, hlen, log, e)) = stop {
                        // outside any pool: look for the shortest suffix of the lane's sequence that fails on a fresh thread
                        let mut n = hlen;
                        let mut found = None;
                        loop {
                            let suffix = &log[log.len() - n.min(log.len())..];
                            if check_history(suffix).is_err() { found = Some(suffix.to_vec()); break; }
                            if n >= log.len() { break; }
                            n *= 2;
                        }
                        let reproduced = found.is_some();
                        mine.push(LaneFail { job: k, confirmed: Some(found.unwrap_or(log)), reproduced, err: e });
                    }
                }
                out.lock().unwrap().extend(mine);
            });
        }
    });
    let mut v = out.into_inner().unwrap();
    v.sort_by_key(|f| f.job);
    let mut seen = 0;
    v.retain(|f| f.confirmed.is_some() || { seen += 1; seen <= 3 });
    (v, n_expected.into_inner())
}

/// write/read granularities of the transport dimension: each is a cyclic schedule of "at most n bytes per call"
fn schedules(thorough: bool) -> Vec<Vec<usize>> {
    let mut v: Vec<Vec<usize>> = vec![vec![1], vec![2], vec![3], vec![7], vec![64], vec![1, 2, 3, 5, 8, 13]];
    if thorough { v.extend([vec![4], vec![5], vec![6], vec![8], vec![9], vec![13], vec![19], vec![512], vec![4096], vec![1000, 1]]); }
    v
}

pub fn roundtrip(thorough: bool) -> Report {
    let mut rep = Report::new(if thorough {
        "all documents of gen::docs (both xref formats); plus the stream-body family: every stream body of 0..=2 bytes over all 256 byte values, alone in a document; every body prefix++core++suffix with prefix in all strings of length<=3 and suffix in all strings of length<=2 over {NUL,TAB,LF,FF,CR,SP,'x',0xFF} and core in {empty, content stream, text containing endstream/endobj, binary}, and runs of 4..=64 equal white-space bytes before/after each core, each alone and between two other objects (sparse ids, generation 2, non-empty stream dictionary); all x both xref formats; two save/load cycles each; plus the transport dimension: every document of gen::docs (quick set) saved to a destination that accepts at most s[i mod len] bytes on its i-th write call and loaded both from memory and through load_from from a source delivering the same pieces, s in {[1]..[9],[13],[19],[64],[512],[4096],[1,2,3,5,8,13],[1000,1]}; plus the nesting dimension: the leaf 7 enclosed by d = 1..=64 containers, shapes {arrays, dictionaries, alternating from an array, alternating from a dictionary} x places {only indirect object, indirect object between two others, trailer entry, stream-dictionary entry} x both xref formats, each on a fresh thread; plus the history dimension (r save/load cycles of A, then C01 for B, on one thread that does all of the library's work; the histories are run back to back on one long-lived thread per core, so each also follows all earlier ones of its thread, and a failure is confirmed on a fresh thread with the shortest suffix of its thread's sequence that reproduces it): H1 A,B nesting documents of equal shape and xref format, shapes all four, A depths 1..=64 x 4 places, B depths 1..=64 x 4 places, r in {1,2,4}, and r in {8,16,32,64} for A depths {1,2,4,8,16,32,64} and A, B in the same place; H2 every ordered pair of gen::docs documents (quick set) with equal xref format, r = 1; plus the key dimension: one indirect dictionary or stream whose dictionary has a /Type entry in {absent, the integer 1, /Catalog, /Pages, /Page, /Font, /XObject, /Metadata, /ObjStm, /XRef, /Zz} followed by every subset of 1..=3 of the 32 key names that ISO 32000-1 uses for file and document structure (Linearized L H O E N T P First Extends Size Index Prev W Root Encrypt Info ID XRefStm Length Filter DecodeParms F FFilter FDecodeParms DL Subtype Parent Kids Count Contents Pages; Length not in stream dictionaries), all entries of one host with the same value in {true, 1, /V, [0 1], 1 0 R} (subsets of 3 keys: true only), each alone and between two other objects (sparse ids, generation 2), both xref formats, two cycles each; plus the provenance dimension: every document of gen::docs (quick set) taken through every script of 1..=3 steps, and every 7th of them through every script of 4 steps, over {S save and keep the value, L save+load and continue with the loaded document, A add_object (dictionary / stream / array by turns), M set_object on the highest-numbered object, R remove the lowest-numbered object, T trailer /Info -> highest-numbered object, X switch the xref format, N new_object_id}, C01 checked at every S and L (loaded document equals a clone taken just before the save) and by two cycles after the last step"
    } else {
        "all documents of gen::docs (both xref formats); plus the stream-body family: every stream body of 0..=2 bytes over all 256 byte values, alone in a document; every body prefix++core++suffix with prefix in all strings of length<=2 and suffix in all strings of length<=1 over {NUL,TAB,LF,FF,CR,SP,'x',0xFF} and core in {empty, content stream, text containing endstream/endobj, binary}, and runs of 3..=16 equal white-space bytes before/after each core, each alone and between two other objects (sparse ids, generation 2, non-empty stream dictionary); all x both xref formats; two save/load cycles each; plus the transport dimension: every document of gen::docs (quick set) saved to a destination that accepts at most s[i mod len] bytes on its i-th write call and loaded both from memory and through load_from from a source delivering the same pieces, s in {[1],[2],[3],[7],[64],[1,2,3,5,8,13]}; plus the nesting dimension: the leaf 7 enclosed by d = 1..=40 containers, shapes {arrays, dictionaries, alternating from an array, alternating from a dictionary} x places {only indirect object, indirect object between two others, trailer entry, stream-dictionary entry} x both xref formats, each on a fresh thread; plus the history dimension (r save/load cycles of A, then C01 for B, on one thread that does all of the library's work; the histories are run back to back on one long-lived thread per core, so each also follows all earlier ones of its thread, and a failure is confirmed on a fresh thread with the shortest suffix of its thread's sequence that reproduces it): H1 A,B nesting documents of equal shape and xref format, shapes {arrays, alternating from an array}, A depths {1,2,4,8,16,32,40} x 4 places, B depths 1..=40 x 4 places, r in {1,2,4}; H2 every ordered pair of gen::docs documents (quick set) with equal xref format, r = 1; plus the key dimension: one indirect dictionary or stream whose dictionary has a /Type entry in {absent, the integer 1, /Catalog, /Pages, /Page, /Font, /XObject, /Metadata, /ObjStm, /XRef, /Zz} followed by every subset of 1..=2 of the 32 key names that ISO 32000-1 uses for file and document structure (Linearized L H O E N T P First Extends Size Index Prev W Root Encrypt Info ID XRefStm Length Filter DecodeParms F FFilter FDecodeParms DL Subtype Parent Kids Count Contents Pages; Length not in stream dictionaries), all entries of one host with the same value true, each alone and between two other objects (sparse ids, generation 2), both xref formats, two cycles each; plus the provenance dimension: every document of gen::docs (quick set) taken through every script of 1..=2 steps, and every 7th of them through every script of 3 steps, over {S save and keep the value, L save+load and continue with the loaded document, A add_object (dictionary / stream / array by turns), M set_object on the highest-numbered object, R remove the lowest-numbered object, T trailer /Info -> highest-numbered object, X switch the xref format, N new_object_id}, C01 checked at every S and L (loaded document equals a clone taken just before the save) and by two cycles after the last step"
    }, true);
    for s in docs(thorough) {
        rep.case(!s.objects.is_empty());
        if let Err((ob, d)) = check_doc(&s) { rep.fail(&ob, d.clone(), json!({"kind": "doc", "spec": spec_json(&s)}), d); }
        else if rep.evaluations % 101 == 1 { rep.sample(describe(&s)); }
    }
    // the stream-body dimension
    let (bodies, n_a) = stream_bodies(thorough);
    let results: Vec<(u64, u64, Vec<(String, String, Value, String)>)> = bodies.par_iter().enumerate().map(|(i, body)| {
        let mut fails = vec![];
        let mut n = 0;
        for layout in 0..(if i < n_a { 1 } else { 2 }) {
            for xs in [false, true] {
                n += 1;
                let (spec, sid) = stream_spec(body, layout, xs);
                if let Err((ob, d)) = check_doc(&spec) {
                    let (kind, rest) = stream_diag(&spec, sid, body);
                    let detail = format!("{} ({}, xref {}): stream {} {} wrote body {}, {}", kind, if layout == 0 { "alone" } else { "between two objects" }, if xs { "stream" } else { "table" }, sid.0, sid.1, esc(body), rest);
                    fails.push((format!("stream-body-{}", ob), detail, json!({"kind": "doc", "spec": spec_json(&spec)}), d));
                }
            }
        }
        (n, if body.is_empty() { 0 } else { n }, fails)
    }).collect();
    let mut total_fails = 0usize;
    for (n, nt, fails) in results {
        rep.evaluations += n;
        rep.nontrivial += nt;
        for (ob, detail, input, observed) in fails { total_fails += 1; rep.fail(&ob, detail, input, observed); }
    }
    if total_fails > 0 { for f in rep.failures.iter_mut().filter(|f| f.obligation.starts_with("stream-body-")) { f.detail = format!("[{} stream-body documents fail in total in this run] {}", total_fails, f.detail); } }
    rep.sample(format!("stream bodies: {} enumerated, e.g. {}", bodies.len(), esc(&bodies[bodies.len() / 2])));

    // the transport dimension: the destination of save_to is any std::io::Write and the source of load_from any std::io::Read;
    // "the produced bytes" are what reached the destination
    let quick_docs = docs(false);
    let scheds = schedules(thorough);
    let tjobs: Vec<(usize, usize)> = (0..quick_docs.len()).flat_map(|i| (0..scheds.len()).map(move |j| (i, j))).collect();
    let tres: Vec<Option<(String, String)>> = tjobs.par_iter().map(|&(i, j)| check_document(&build(&quick_docs[i]), &scheds[j]).err()).collect();
    for (&(i, j), r) in tjobs.iter().zip(tres) {
        rep.case(!quick_docs[i].objects.is_empty());
        if let Some((ob, d)) = r {
            let detail = format!("saved to a destination that accepts at most {:?} bytes per write call (cyclic) and read back in the same pieces and from memory: {}; document: {}", scheds[j], d, { let mut t = describe(&quick_docs[i]); t.truncate(200); t });
            rep.fail(&format!("short-writes-{}", ob), detail, json!({"kind": "transport", "spec": spec_json(&quick_docs[i]), "schedule": scheds[j]}), d);
        }
    }

    // the key dimension: an indirect dictionary / stream whose key set ranges over the subsets of STRUCT_KEYS, crossed with its
    // /Type entry; "Length" is left out for streams (there it is the writer's own entry)
    let types = host_types();
    let vals: Vec<Object> = { let v = key_values(); if thorough { v } else { v[..1].to_vec() } };
    let subs = subsets(STRUCT_KEYS.len(), if thorough { 3 } else { 2 });
    let mut kjobs: Vec<(bool, usize, usize, usize)> = vec![];
    for st in [false, true] { for t in 0..types.len() { for k in 0..subs.len() { for v in 0..vals.len() {
        if st && subs[k].iter().any(|&i| STRUCT_KEYS[i] == b"Length") { continue; }
        if subs[k].len() > 2 && v > 0 { continue; }   // subsets of three keys: with the first value only
        kjobs.push((st, t, k, v));
    } } } }
    let kres: Vec<(u64, u64, Vec<(String, String, Value, String)>)> = kjobs.par_iter().map(|&(st, t, k, v)| {
        let host = key_host(st, &types[t], &subs[k], &vals[v]);
        let ordinary = !is_file_structure_by_iso(&host);
        let mut fails = vec![];
        let what = || format!("a {} with {} and the entries {} (all with the value {:?})", if st { "stream whose dictionary" } else { "dictionary" },
            match &types[t] { None => "no /Type".to_string(), Some(Object::Name(n)) => format!("/Type /{}", String::from_utf8_lossy(n)), Some(o) => format!("/Type {:?}", o) },
            subs[k].iter().map(|&i| format!("/{}", String::from_utf8_lossy(STRUCT_KEYS[i]))).collect::<Vec<_>>().join(" "), vals[v]);
        if ordinary == is_bookkeeping_object(&host) { fails.push(("dictionary-keys-oracle".to_string(), format!("the module's two classifications of file-structure objects disagree on {}", what()), json!({"kind": "doc", "spec": spec_json(&host_spec(host.clone(), 0, false).0)}), String::new())); }
        let mut n = 0;
        for layout in 0..2 { for xs in [false, true] {
            n += 1;
            let (spec, hid) = host_spec(host.clone(), layout, xs);
            if let Err((ob, d)) = check_doc(&spec) {
                let detail = format!("an ordinary {} of the document does not survive save+load: object {} {} ({}, xref {}) is {}: {}", if st { "stream" } else { "dictionary" }, hid.0, hid.1, if layout == 0 { "alone" } else { "between two objects" }, if xs { "stream" } else { "table" }, what(), d);
                fails.push((format!("dictionary-keys-{}", ob), detail, json!({"kind": "doc", "spec": spec_json(&spec)}), d));
            }
        } }
        (n, if ordinary { n } else { 0 }, fails)
    }).collect();
    let mut key_fails = 0usize;
    for (n, nt, fails) in kres {
        rep.evaluations += n;
        rep.nontrivial += nt;
        for (ob, detail, input, observed) in fails { key_fails += 1; rep.fail(&ob, detail, input, observed); }
    }
    if key_fails > 0 { for f in rep.failures.iter_mut().filter(|f| f.obligation.starts_with("dictionary-keys-")) { f.detail = format!("[{} documents of the key dimension fail in total in this run] {}", key_fails, f.detail); } }
    rep.sample(format!("key dimension: {} hosts x 2 layouts x 2 xref formats, e.g. {:?}", kjobs.len(), { let (st, t, k, v) = kjobs[kjobs.len() / 2]; key_host(st, &types[t], &subs[k], &vals[v]) }));

    // the provenance dimension: every script of less than `slen` steps on every document of gen::docs (quick set), every script of
    // `slen` steps on every 7th of them (7 is coprime to the periods 5, 3, 2 of the id layouts, max_id slack and trailer extras
    // in gen::docs, so that every combination of these is among them), shortest scripts first
    let slen = if thorough { 4 } else { 3 };
    let all_scripts = scripts(slen);
    let sjobs: Vec<(usize, usize)> = (1..all_scripts.len()).flat_map(|j| (0..quick_docs.len()).map(move |i| (j, i))).filter(|&(j, i)| all_scripts[j].len() < slen || i % 7 == 0).collect();
    let sres: Vec<Option<(usize, String, String)>> = sjobs.par_iter().map(|&(j, i)| check_script(&quick_docs[i], &all_scripts[j]).err()).collect();
    let script_fails = sres.iter().filter(|r| r.is_some()).count();
    for (&(j, i), r) in sjobs.iter().zip(sres) {
        rep.case(!quick_docs[i].objects.is_empty());
        if let Some((at, ob, d)) = r {
            let steps = &all_scripts[j];
            let detail = format!("[{} edit scripts fail in total in this run] a document that was {} does not come back from the {}: {}; steps: {}; starting from the document: {}", script_fails,
                if steps[..at.min(steps.len())].iter().any(|c| *c == b'L') { "loaded and then edited" } else if steps[..at.min(steps.len())].iter().any(|c| *c == b'S') { "saved before and then edited" } else { "built and edited" },
                if at < steps.len() { format!("save of step {}", at + 1) } else { "final save/load cycles after the last step".to_string() }, d, steps_text(steps), { let mut t = describe(&quick_docs[i]); t.truncate(200); t });
            rep.fail(&format!("edited-document-{}", ob), detail, json!({"kind": "script", "spec": spec_json(&quick_docs[i]), "steps": String::from_utf8_lossy(steps)}), d);
        }
    }
    rep.sample(format!("provenance: {} (script, document) pairs, scripts of at most {} steps over {:?}, {} documents", sjobs.len(), slen, String::from_utf8_lossy(STEPS), quick_docs.len()));

    // the nesting dimension, alone and as the last element of a history; everything from here on runs on fresh threads
    let dmax: usize = if thorough { 64 } else { 40 };
    let mut nests: Vec<Nest> = vec![];
    for depth in 1..=dmax { for shape in 0..4u8 { for place in 0..4u8 { for xs in [false, true] { nests.push(Nest { depth, shape, place, xs }); } } } }
    let nres = run_jobs(&nests, |n| check_history(&[Case::Nest(*n)]).err());
    let fails_alone: std::collections::HashSet<(usize, u8, u8, bool)> = nres.iter().map(|(k, _)| { let n = &nests[*k]; (n.depth, n.shape, n.place, n.xs) }).collect();
    let summary = if nres.is_empty() { String::new() } else {
        let lo = nres.iter().map(|(k, _)| nests[*k].depth).min().unwrap();
        let deepest_ok = nests.iter().filter(|n| !fails_alone.contains(&(n.depth, n.shape, n.place, n.xs))).map(|n| n.depth).max().unwrap_or(0);
        format!("[{} of {} nesting documents fail on a fresh thread in total in this run: the shallowest failing depth is {}, the deepest depth that round-trips is {}] ", nres.len(), nests.len(), lo, deepest_ok)
    };
    rep.evaluations += nests.len() as u64;
    rep.nontrivial += nests.len() as u64;
    for (k, (ob, d)) in &nres { let n = &nests[*k]; rep.fail(&format!("nesting-{}", ob), format!("{}[last document nests {} containers] {}: {}", summary, n.depth, n.describe_place_first(), d), history_json(&[Case::Nest(*n)]), d.clone()); }
    rep.sample(format!("nesting: {} documents, e.g. {}", nests.len(), nests[nests.len() / 3].describe()));

    // histories (A x r, B): r cycles of document A, then C01 for document B, on one fresh thread.
    //  H1: A and B nesting documents of the same shape and xref format: all places x all places, B at every depth, A at
    //      every depth (thorough) / at depths 2^k and dmax (quick); shapes {arrays, alternating} (quick) / all four;
    //      r in {1,2,4}, in thorough also r in {8,16,32,64} for equal places and A at depths 2^k and dmax
    //  H2: every ordered pair (A, B) of gen::docs documents (quick set) with the same xref format, r = 1
    let reps: Vec<usize> = if thorough { vec![1, 2, 4, 8, 16, 32, 64] } else { vec![1, 2, 4] };
    let coarse: Vec<usize> = (0..).map(|k| 1usize << k).take_while(|d| *d < dmax).chain([dmax]).collect();
    let a_depths: Vec<usize> = if thorough { (1..=dmax).collect() } else { coarse.clone() };
    let shapes: Vec<u8> = if thorough { vec![0, 1, 2, 3] } else { vec![0, 2] };
    let mut h1: Vec<(Nest, usize, Nest)> = vec![];
    for &shape in &shapes { for xs in [false, true] { for &da in &a_depths { for pa in 0..4u8 { for db in 1..=dmax { for pb in 0..4u8 {
        // the repetition counts beyond 4 (thorough) are crossed with equal places and the depths 2^k, dmax of A only
        for &r in &reps { if r > 4 && (pa != pb || !coarse.contains(&da)) { continue; } h1.push((Nest { depth: da, shape, place: pa, xs }, r, Nest { depth: db, shape, place: pb, xs })); }
    } } } } } }
    let mut h2: Vec<(usize, usize)> = vec![];
    for (i, a) in quick_docs.iter().enumerate() { for (k, b) in quick_docs.iter().enumerate() { if a.xref_stream == b.xref_stream { h2.push((i, k)); } } }
    let hist1 = |j: &(Nest, usize, Nest)| -> Vec<Case> { let mut h = vec![Case::Nest(j.0); j.1]; h.push(Case::Nest(j.2)); h };
    let hist2 = |j: &(usize, usize)| -> Vec<Case> { vec![Case::Spec(quick_docs[j.0].clone()), Case::Spec(quick_docs[j.1].clone())] };
    // which gen::docs documents fail on a fresh thread by themselves (like fails_alone: for the wording and for run_lanes only)
    let spec_ids: Vec<usize> = (0..quick_docs.len()).collect();
    let spec_fails_alone: std::collections::HashSet<usize> = run_jobs(&spec_ids, |i| check_history(&[Case::Spec(quick_docs[*i].clone())]).err()).into_iter().map(|(k, _)| k).collect();
    let nest_alone = |n: &Nest| fails_alone.contains(&(n.depth, n.shape, n.place, n.xs));
    let (r1, n_rep1) = run_lanes(&h1, hist1, |j| nest_alone(&j.2));
    let (r2, n_rep2) = run_lanes(&h2, hist2, |j| spec_fails_alone.contains(&j.1));
    rep.evaluations += (h1.len() + h2.len()) as u64;
    rep.nontrivial += (h1.len() + h2.len()) as u64;
    // a history whose last document fails alone too repeats a failure already reported (under nesting-* or by the first
    // loop), so only the first few of those are reported again; all others are reported with their confirmed history
    let n_repeat = n_rep1 + n_rep2;
    let n_hist_only = r1.iter().chain(r2.iter()).filter(|f| f.confirmed.is_some()).count();
    let mut hfails: Vec<(Vec<Case>, &LaneFail)> = vec![];
    let mut taken = 0;
    for f in &r1 { match &f.confirmed { Some(h) => hfails.push((h.clone(), f)), None => { taken += 1; if taken <= 3 { hfails.push((hist1(&h1[f.job]), f)); } } } }
    for f in &r2 { match &f.confirmed { Some(h) => hfails.push((h.clone(), f)), None => { taken += 1; if taken <= 3 { hfails.push((hist2(&h2[f.job]), f)); } } } }
    hfails.sort_by_key(|(h, _)| h.len());   // shortest histories first
    let a_note = |c: &Case| -> &str { match c { Case::Nest(a) if nest_alone(a) => " (a document that does not round-trip itself, see nesting-*)", _ => "" } };
    for (h, f) in &hfails {
        let (ob, d) = &f.err;
        let last = &h[h.len() - 1];
        // the earlier cycles, run-length encoded
        let mut earlier: Vec<(String, usize)> = vec![];
        for c in &h[..h.len() - 1] { let t = format!("{}{}", c.describe(), a_note(c)); match earlier.last_mut() { Some((u, n)) if *u == t => *n += 1, _ => earlier.push((t, 1)) } }
        let mut earlier_txt: String = earlier.iter().take(6).map(|(t, n)| format!("{} x [{}]", n, t)).collect::<Vec<_>>().join(", then ");
        if earlier.len() > 6 { earlier_txt.push_str(&format!(", ... ({} runs of cycles in all, see the recorded input)", earlier.len())); }
        let (obl, what) = if f.confirmed.is_none() { (match last { Case::Nest(_) => format!("nesting-{}", ob), Case::Spec(_) => ob.clone() }, format!("[{} histories end in a document that fails on a fresh thread by itself as well and is reported there] fails by itself as well", n_repeat)) }
            else { (format!("after-earlier-cycles-{}", ob), format!("[{} histories end in a failure that their last document alone does not have, in total in this run] a document that round-trips on a fresh thread does not after earlier save/load cycles on the same thread{}", n_hist_only, if f.reproduced { "" } else { " (NOT reproduced on a fresh thread: recorded is everything the thread had run)" })) };
        let tag = match last { Case::Nest(n) => format!("[last document nests {} containers] ", n.depth), Case::Spec(_) => String::new() };
        rep.fail(&obl, format!("{}{}: after the save/load cycles {}, the cycle of [{}]: {}", tag, what, earlier_txt, last.describe(), d), history_json(h), d.clone());
    }
    rep.sample(format!("histories: {} over nesting documents, {} over gen::docs pairs", h1.len(), h2.len()));
    rep
}

fn one_object_cycle(o: &Object) -> Result<(), String> {
    let spec = DocSpec { objects: vec![((1, 0), o.clone())], xref_stream: false, version: "1.5".into(), extra_trailer: false, max_id_slack: 0 };
    let orig = build(&spec);
    let mut d = build(&spec);
    let mut out = vec![];
    d.save_to(&mut out).map_err(|e| e.to_string())?;
    loads_to(&out, &orig)
}

/// all 65 536 two-byte names and literal strings (and hex strings) through save/load: exhaustive over byte pairs
pub fn bytepairs(thorough: bool) -> Report {
    let mut rep = Report::new("every two-byte name, literal string and hexadecimal string (3 x 65 536), plus every one-byte one, inside an array between two integers", true);
    let stride = if thorough { 1 } else { 1 };
    let results: Vec<(u32, Option<(String, String, Value)>)> = (0u32..65536 + 256).into_par_iter().filter(|v| v % stride == 0).map(|v| {
        let bytes: Vec<u8> = if v < 65536 { vec![(v >> 8) as u8, v as u8] } else { vec![(v - 65536) as u8] };
        for (kind, o) in [("name", Object::Name(bytes.clone())), ("literal", Object::String(bytes.clone(), StringFormat::Literal)), ("hex", Object::String(bytes.clone(), StringFormat::Hexadecimal))] {
            let wrapped = Object::Array(vec![Object::Integer(1), o.clone(), Object::Integer(2), o.clone()]);
            if let Err(e) = one_object_cycle(&wrapped) { return (v, Some((format!("bytepair-{}", kind), e, json!({"kind": "object", "obj": obj_json(&wrapped)})))); }
        }
        (v, None)
    }).collect();
    for (_, r) in results {
        rep.case(true);
        rep.evaluations += 2;
        rep.nontrivial += 2;
        if let Some((ob, d, input)) = r { rep.fail(&ob, d.clone(), input, d); }
    }
    rep.sample("[1 /\\x00\\x01 2 /\\x00\\x01]".into());
    rep
}

/// Real numbers: quick = every exponent x 512 mantissas + powers of two and ten; thorough = all 2^32 bit patterns (complete).
pub fn reals(thorough: bool) -> Report {
    let mut rep = Report::new(if thorough { "all 2^32 f32 bit patterns (finite ones) through write_object and the real/integer parsers" } else { "every sign x exponent x 512 mantissas (strided), plus +-2^k and +-10^k" }, thorough);
    let check = |bits: u32| -> Option<(u32, String)> {
        let v = f32::from_bits(bits);
        if !v.is_finite() { return None; }
        // through the content-stream encoder/decoder, which shares write_object and the number parsers with the document path
        let c = lopdf::content::Content { operations: vec![lopdf::content::Operation::new("x", vec![Object::Real(v)])] };
        let enc = match c.encode() { Ok(e) => e, Err(e) => return Some((bits, format!("encode failed: {}", e))) };
        match lopdf::content::Content::decode(&enc) {
            Ok(d) if d.operations.len() == 1 && d.operations[0].operands.len() == 1 && obj_eq(&Object::Real(v), &d.operations[0].operands[0]) => None,
            Ok(d) => Some((bits, format!("{:?} written as {:?} decodes to {:?}", v, String::from_utf8_lossy(&enc), d.operations))),
            Err(e) => Some((bits, format!("{:?} written as {:?} fails to decode: {}", v, String::from_utf8_lossy(&enc), e))),
        }
    };
    let total: u64;
    let fails: Vec<(u32, String)>;
    if thorough {
        total = 1u64 << 32;
        fails = (0u32..=u32::MAX).into_par_iter().filter_map(check).collect::<Vec<_>>();
    } else {
        let mut pats: Vec<u32> = vec![];
        for sign in 0..2u32 { for e in 0..255u32 { for m in 0..512u32 { pats.push((sign << 31) | (e << 23) | (m * 16381 % (1 << 23))); } } }
        for k in 0..128 { pats.push((2f32).powi(k - 64).to_bits()); pats.push((-(2f32).powi(k - 64)).to_bits()); }
        for k in -38..39 { pats.push((10f32).powi(k).to_bits()); pats.push((-(10f32).powi(k)).to_bits()); }
        total = pats.len() as u64;
        fails = pats.into_par_iter().filter_map(check).collect();
    }
    rep.evaluations = total;
    rep.nontrivial = total;
    let mut fails = fails;
    fails.sort();
    let nf = fails.len();
    for (bits, d) in fails.into_iter().take(3) {
        rep.fail("real-roundtrip", format!("{} ({} failing bit patterns in this run)", d, nf), json!({"kind": "real", "bits": bits}), d);
    }
    rep.sample("0.5 x".into());
    rep
}

pub fn replay(v: &Value) -> Result<(), String> {
    match v["kind"].as_str() {
        Some("doc") => check_doc(&spec_from_json(&v["spec"])).map_err(|e| format!("{}: {}", e.0, e.1)),
        Some("transport") => {
            let schedule: Vec<usize> = v["schedule"].as_array().cloned().unwrap_or_default().iter().map(|x| x.as_u64().unwrap_or(1) as usize).collect();
            check_document(&build(&spec_from_json(&v["spec"])), &schedule).map_err(|e| format!("{} (schedule {:?}): {}", e.0, schedule, e.1))
        }
        Some("script") => {
            let steps = v["steps"].as_str().unwrap_or("").as_bytes().to_vec();
            check_script(&spec_from_json(&v["spec"]), &steps).map_err(|(at, ob, d)| format!("{} ({}; steps: {}): {}", ob, if at < steps.len() { format!("at the save of step {}", at + 1) } else { "in the final cycles".to_string() }, steps_text(&steps), d))
        }
        Some("history") => {
            let cases: Vec<Case> = v["cases"].as_array().cloned().unwrap_or_default().iter().map(Case::from_json).collect();
            check_history(&cases).map_err(|e| format!("{} (last of a history of {} cycles): {}", e.0, cases.len(), e.1))
        }
        Some("object") => one_object_cycle(&obj_from_json(&v["obj"])),
        Some("real") => {
            let f = f32::from_bits(v["bits"].as_u64().unwrap() as u32);
            one_object_cycle(&Object::Real(f))
        }
        _ => Err("unknown replay kind".into()),
    }
}
