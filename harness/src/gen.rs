//! Enumerated (not sampled) small documents over an alphabet of object shapes.
use lopdf::xref::XrefType;
use lopdf::{Dictionary, Document, Object, Stream, StringFormat};

pub fn dict(entries: Vec<(&[u8], Object)>) -> Dictionary {
    let mut d = Dictionary::new();
    for (k, v) in entries { d.set(k.to_vec(), v); }
    d
}

pub fn lit(b: &[u8]) -> Object { Object::String(b.to_vec(), StringFormat::Literal) }
pub fn hexs(b: &[u8]) -> Object { Object::String(b.to_vec(), StringFormat::Hexadecimal) }
pub fn name(b: &[u8]) -> Object { Object::Name(b.to_vec()) }

/// leaf alphabet: every object kind, with the byte classes that matter lexically
pub fn leaves() -> Vec<Object> {
    vec![
        Object::Null,
        Object::Boolean(true),
        Object::Boolean(false),
        Object::Integer(0),
        Object::Integer(-42),
        Object::Integer(i64::MAX),
        Object::Integer(i64::MIN),
        Object::Real(0.5),
        Object::Real(-3.25),
        Object::Real(2.0),
        Object::Real(1.0e-3),
        Object::Real(123456.79),
        name(b"Name"),
        name(b""),
        name(b"A#B C/(d)%\x00\xff\r\n"),
        lit(b""),
        lit(b"plain text"),
        lit(b"a(b)c"),
        lit(b"(unbalanced"),
        lit(b"unbalanced)"),
        lit(b")(\\\r\n\t\x00\xfe"),
        lit(b"a(b\\c"),
        lit(b"((x)\r"),
        hexs(b""),
        hexs(b"\x00\x01\xfe\xff<>"),
        Object::Reference((1, 0)),
        Object::Reference((77, 3)),
    ]
}

pub fn containers() -> Vec<Object> {
    let l = leaves();
    let mut v = vec![
        Object::Array(vec![]),
        Object::Dictionary(Dictionary::new()),
        Object::Array(vec![Object::Integer(1), Object::Integer(2), name(b"N"), Object::Integer(3), lit(b"s"), Object::Null, Object::Reference((2, 0)), Object::Real(1.5), Object::Boolean(true)]),
        Object::Array(vec![name(b"A"), name(b"B"), hexs(b"ab"), Object::Array(vec![Object::Array(vec![]), Object::Dictionary(Dictionary::new())])]),
        Object::Dictionary(dict(vec![(b"Key", Object::Integer(1)), (b"K 2", name(b"V")), (b"Sub", Object::Dictionary(dict(vec![(b"X", Object::Null), (b"Y", Object::Reference((9, 0)))]))), (b"Arr", Object::Array(vec![Object::Integer(1), lit(b"(")]))])),
        Object::Stream(Stream::new(Dictionary::new(), b"stream body".to_vec())),
        Object::Stream(Stream::new(dict(vec![(b"Extra", name(b"Yes"))]), b"".to_vec())),
        Object::Stream(Stream::new(Dictionary::new(), b"x\nendstream\nendobj\n\x00\xffstartxref\n0\n%%EOF".to_vec())),
    ];
    // every leaf once inside an array between two integers, and once as a dictionary value followed by another key
    for o in &l {
        v.push(Object::Array(vec![Object::Integer(7), o.clone(), Object::Integer(8)]));
        v.push(Object::Dictionary(dict(vec![(b"A", o.clone()), (b"B", o.clone())])));
    }
    v
}

#[derive(Clone)]
pub struct DocSpec {
    pub objects: Vec<((u32, u16), Object)>,
    pub xref_stream: bool,
    pub version: String,
    pub extra_trailer: bool,
    pub max_id_slack: u32,
}

pub fn build(s: &DocSpec) -> Document {
    let mut d = Document::with_version(s.version.as_str());
    d.reference_table.cross_reference_type = if s.xref_stream { XrefType::CrossReferenceStream } else { XrefType::CrossReferenceTable };
    let mut maxid = 0;
    for (id, o) in &s.objects {
        d.objects.insert(*id, o.clone());
        maxid = maxid.max(id.0);
    }
    d.max_id = maxid + s.max_id_slack;
    if let Some((id, _)) = s.objects.first() {
        d.trailer.set("Root", Object::Reference(*id));
    }
    if s.extra_trailer {
        d.trailer.set("Info", Object::Reference((3, 0)));
        d.trailer.set("ID", Object::Array(vec![hexs(b"\x01\x02"), hexs(b"\x03\x04")]));
    }
    d
}

/// all documents of the bounded family; `thorough` enlarges it
pub fn docs(thorough: bool) -> Vec<DocSpec> {
    let mut all: Vec<Object> = leaves();
    all.extend(containers());
    let mut out = vec![];
    let id_layouts: Vec<Vec<(u32, u16)>> = vec![
        vec![(1, 0)],
        vec![(1, 0), (2, 0)],
        vec![(2, 0), (3, 1), (7, 0)],            // gap at 1, gap of 3 (4..6)
        vec![(1, 0), (2, 0), (6, 0), (7, 65535)], // two-wide hole
        vec![(5, 2)],
    ];
    for xs in [false, true] {
        // 1) every alphabet object alone and surrounded by neighbours, in each id layout
        for (k, o) in all.iter().enumerate() {
            let lay = &id_layouts[k % id_layouts.len()];
            let mut objs = vec![];
            for (j, id) in lay.iter().enumerate() {
                let ob = if j == 0 { o.clone() } else { all[(k + 7 * j) % all.len()].clone() };
                objs.push((*id, ob));
            }
            out.push(DocSpec { objects: objs, xref_stream: xs, version: "1.5".into(), extra_trailer: k % 2 == 0, max_id_slack: (k % 3) as u32 });
        }
        // 2) empty document and a document with only skipped bookkeeping-like names
        out.push(DocSpec { objects: vec![], xref_stream: xs, version: "1.4".into(), extra_trailer: false, max_id_slack: 0 });
        out.push(DocSpec { objects: vec![((4, 0), Object::Integer(1))], xref_stream: xs, version: "2.0".into(), extra_trailer: true, max_id_slack: 5 });
        if thorough {
            // 3) all ordered pairs of alphabet objects in a two-object document with a hole
            for (a, oa) in all.iter().enumerate() {
                for (b, ob) in all.iter().enumerate() {
                    if (a + b) % 3 != 0 { continue; }
                    out.push(DocSpec { objects: vec![((1, 0), oa.clone()), ((4, 1), ob.clone())], xref_stream: xs, version: "1.7".into(), extra_trailer: false, max_id_slack: 0 });
                }
            }
        }
    }
    out
}

pub fn describe(s: &DocSpec) -> String {
    let mut t = format!("xref_stream={} version={} slack={} objs=[", s.xref_stream, s.version, s.max_id_slack);
    for (id, o) in &s.objects {
        t.push_str(&format!("{} {}: {:?}; ", id.0, id.1, o));
    }
    t.push(']');
    if t.len() > 600 { t.truncate(600); }
    t
}

/// value-level equality the properties use: Real(v) with integral v may come back as Integer(v);
/// Stream compares dictionary and content only.
pub fn obj_eq(a: &Object, b: &Object) -> bool {
    use Object::*;
    match (a, b) {
        (Null, Null) => true,
        (Boolean(x), Boolean(y)) => x == y,
        (Integer(x), Integer(y)) => x == y,
        (Real(x), Real(y)) => x == y || (x.is_nan() && y.is_nan()),
        (Real(x), Integer(y)) => x.fract() == 0.0 && (*y as f32) == *x,   // the integer of the same value at f32 precision (shortest decimal spelling)
        (Name(x), Name(y)) => x == y,
        (String(x, _), String(y, _)) => x == y,
        (Array(x), Array(y)) => x.len() == y.len() && x.iter().zip(y.iter()).all(|(p, q)| obj_eq(p, q)),
        (Dictionary(x), Dictionary(y)) => dict_eq(x, y, &[]),
        (Stream(x), Stream(y)) => dict_eq(&x.dict, &y.dict, &[]) && x.content == y.content,
        (Reference(x), Reference(y)) => x == y,
        _ => false,
    }
}

pub fn dict_eq(x: &Dictionary, y: &Dictionary, ignore: &[&[u8]]) -> bool {
    let kx: Vec<&Vec<u8>> = x.iter().map(|(k, _)| k).filter(|k| !ignore.contains(&k.as_slice())).collect();
    let ky: Vec<&Vec<u8>> = y.iter().map(|(k, _)| k).filter(|k| !ignore.contains(&k.as_slice())).collect();
    if kx.len() != ky.len() { return false; }
    for k in kx {
        match (x.get(k), y.get(k)) {
            (Ok(a), Ok(b)) => { if !obj_eq(a, b) { return false; } }
            _ => return false,
        }
    }
    true
}

pub const BOOKKEEPING: &[&[u8]] = &[b"Size", b"Prev", b"W", b"Index", b"Length", b"Type", b"Filter", b"DecodeParms", b"XRefStm"];

pub fn is_bookkeeping_object(o: &Object) -> bool {
    match o.type_name() { Ok(n) => n == b"XRef" || n == b"ObjStm" || n == b"Linearized", Err(_) => false }
}
