//! C05: encrypt then decrypt restores every string and stream (bounded-exhaustive, E3).
//!
//! The oracle is written from the property statement and ISO 32000 7.6, not from the library:
//!  * round trip: the expected result of encrypt;decrypt is the ORIGINAL document (strings, streams, everything else,
//!    trailer without /Encrypt, encryption dictionary object gone);
//!  * after encryption a model `select filter` (V1/V2: RC4 for everything; V4/V5: StrF for strings, StmF for streams,
//!    /Crypt + DecodeParms/Name override per stream, XRef streams exempt, the Metadata stream exempt iff
//!    EncryptMetadata is false) says for every string / stream whether it must be unchanged (Identity / exempt),
//!    RC4 (same length, differs if >= 16 bytes) or AES-CBC (16 byte IV + PKCS#5 padded length, differs);
//!  * a wrong password must give Err and leave objects and trailer equal to their values before the call;
//!  * after save + load the document is already decrypted iff the user or the owner password is the empty string.
//!
//! Obligation names carry the input class the property's quantifier names, so that different causes do not share a name:
//!  `mem-` / `reload-` (in memory / through save_to + load_mem), `-user` / `-owner` (which password), `-over127` (a password
//!  longer than the 127-byte limit of revisions 5/6), `-over127-splitchar` (such a password whose byte 127, the first one cut
//!  off, lies inside a multi-byte character: the cut is made in bytes, not in characters; on `wrong-password-rejected`: the wrong
//!  password is such a password cut before that character), `-nonlatin` (the wrong password differs from a real one only by
//!  characters PDFDocEncoding cannot represent, revisions 2-4), `stream-dict-string-encrypted` (ISO: strings in stream
//!  dictionaries are strings of the file; F19), `metadata-dict-string-encrypted` (only the Metadata *stream* is exempt).
//!  `precondition-file-loads` (a document of provenance file:<layout> could not be set up: the file written here did not load, or not
//!  with the objects written - the reader's matter, reported so that the case does not pass vacuously), `mem-compressed-objstm-restored`
//!  (in memory round trip returned a Flate-compressed /Type /ObjStm stream decoded: same data, other bytes; one name whatever the password).
//!  `metadata-stream-dict-string-encrypted` (a string in the dictionary of the Metadata stream while EncryptMetadata is false: the exemption
//!  covers the stream's data, the string is a string of the file, ISO 7.6.2), `<mem|reload>-edit-reverted` (document with a
//!  history: an object that was changed between load and encrypt came back from decrypt as it was when loaded, not as it was encrypted) and
//!  `...-deleted-object-back` (an object removed between load and encrypt is in the document again after decrypt); an edited object that
//!  comes back as anything else fails under the plain `...-restores`.
//!  Panics are caught per call (`catch`, with a silent hook installed once for the whole run because cases run on rayon
//!  threads) and reported as `no-panic`.
//!
//! Debugging aids: `C05_STATS=1` prints failing-case counts per (obligation, handler, password pair) on stderr (no effect on
//! the report); `C05_ONLY=V4` restricts the run - and therefore the report - to one handler kind; never set by the driver.
#![allow(dead_code, unused_imports, deprecated)]
use crate::c03::{obj_from_json, obj_json};
use crate::common::*;
use crate::gen::*;
use lopdf::encryption::crypt_filters::{Aes128CryptFilter, Aes256CryptFilter, CryptFilter, IdentityCryptFilter, Rc4CryptFilter};
use lopdf::xref::XrefType;
use lopdf::{Dictionary, Document, EncryptionState, EncryptionVersion, Object, Permissions, Stream, StringFormat};
use rayon::prelude::*;
use serde_json::{json, Value};
use std::collections::BTreeMap;
use std::panic::{catch_unwind, AssertUnwindSafe};
use std::sync::Arc;

// ---------------------------------------------------------------------------------------------------------------
// the case space
// ---------------------------------------------------------------------------------------------------------------

#[derive(Clone, Copy, Debug, PartialEq)]
enum Kind { V1, V2(usize), V4, R5, V5 }

/// model-side crypt filter method
#[derive(Clone, Copy, Debug, PartialEq)]
enum M { Rc4, Aes128, Aes256, Identity }

#[derive(Clone, Debug)]
struct Handler {
    kind: Kind,
    em: bool,        // EncryptMetadata (always true for V1/V2)
    perms: u64,      // Permissions bits
    stm: String,     // StmF name (V4, R5, V5)
    strf: String,    // StrF name
    key: Vec<u8>,    // file encryption key (R5, V5)
}

impl Handler {
    fn legacy(&self) -> bool { matches!(self.kind, Kind::V1 | Kind::V2(_) | Kind::V4) } // revisions 2..4
    fn has_cf(&self) -> bool { matches!(self.kind, Kind::V4 | Kind::R5 | Kind::V5) }
    /// the crypt filters the /CF dictionary registers, by name
    fn registry(&self) -> Vec<(&'static str, M)> {
        match self.kind {
            Kind::V1 | Kind::V2(_) => vec![],
            Kind::V4 => vec![("FRc4", M::Rc4), ("FAes", M::Aes128), ("FId", M::Identity)],
            Kind::R5 | Kind::V5 => vec![("StdCF", M::Aes256), ("FId", M::Identity)],
        }
    }
    /// (V, R) the encryption dictionary must announce (ISO 32000-2 tables 20 and 21)
    fn v_r(&self) -> (i64, i64) {
        match self.kind { Kind::V1 => (1, 2), Kind::V2(_) => (2, 3), Kind::V4 => (4, 4), Kind::R5 => (5, 5), Kind::V5 => (5, 6) }
    }
    fn to_json(&self) -> Value {
        let (k, bits) = match self.kind { Kind::V1 => ("V1", 40), Kind::V2(b) => ("V2", b), Kind::V4 => ("V4", 128), Kind::R5 => ("R5", 256), Kind::V5 => ("V5", 256) };
        json!({"kind": k, "bits": bits, "em": self.em, "perms": self.perms, "stm": self.stm, "str": self.strf, "key": hex(&self.key)})
    }
    fn from_json(v: &Value) -> Handler {
        let bits = v["bits"].as_u64().unwrap_or(40) as usize;
        let kind = match v["kind"].as_str().unwrap_or("V1") { "V2" => Kind::V2(bits), "V4" => Kind::V4, "R5" => Kind::R5, "V5" => Kind::V5, _ => Kind::V1 };
        Handler { kind, em: v["em"].as_bool().unwrap_or(true), perms: v["perms"].as_u64().unwrap_or(0), stm: v["stm"].as_str().unwrap_or("").into(),
                  strf: v["str"].as_str().unwrap_or("").into(), key: unhex(v["key"].as_str().unwrap_or("")) }
    }
    fn describe(&self) -> String {
        format!("{:?} em={} perms={:#x} StmF={} StrF={}", self.kind, self.em, self.perms, self.stm, self.strf)
    }
}

#[derive(Clone)]
struct DocS {
    label: String,
    objects: Vec<((u32, u16), Object)>,
    has_id: bool,
    slack: u32,
    reload: bool,
    /// where the `Document` comes from: "built" (objects inserted into a fresh `Document`) or "file:<layout>" (a PDF 1.5 file with
    /// these objects is written by `write_file` and loaded with `Document::load_mem`; the loaded document is the original)
    origin: String,
    /// what was done to the document between `build_doc`'s construction / load and `encrypt`: "" (nothing) or one of `EDITS`
    /// (the history dimension: the ORIGINAL of the round trip is the edited document)
    edit: String,
}

fn doc_json(d: &DocS) -> Value {
    json!({"label": d.label, "has_id": d.has_id, "slack": d.slack, "reload": d.reload, "origin": d.origin, "edit": d.edit,
           "objects": d.objects.iter().map(|(id, o)| json!({"id": id.0, "gen": id.1, "obj": obj_json(o)})).collect::<Vec<_>>()})
}

fn doc_from_json(v: &Value) -> DocS {
    DocS {
        label: v["label"].as_str().unwrap_or("").into(),
        objects: v["objects"].as_array().cloned().unwrap_or_default().iter()
            .map(|e| ((e["id"].as_u64().unwrap() as u32, e["gen"].as_u64().unwrap() as u16), obj_from_json(&e["obj"]))).collect(),
        has_id: v["has_id"].as_bool().unwrap_or(true),
        slack: v["slack"].as_u64().unwrap_or(0) as u32,
        reload: v["reload"].as_bool().unwrap_or(true),
        origin: v["origin"].as_str().unwrap_or("built").into(),
        edit: v["edit"].as_str().unwrap_or("").into(),
    }
}

const ID0: &[u8] = b"\x00\x01\x02\xfd\xfe\xff(id-0)\r\n\\";
const ID1: &[u8] = b"second-id-16byte";

/// The document of `s` as it is right before `encrypt` (the original of the round trip) and, if `s` has an edit, the document as it
/// was before the edit (used only to word a failure: "came back as it was when loaded").
fn build_doc(s: &DocS) -> Result<(Document, Option<Document>), String> {
    let d = build_unedited(s)?;
    if s.edit.is_empty() { return Ok((d, None)); }
    let mut e = d.clone();
    apply_edit(&mut e, &s.edit)?;
    Ok((e, Some(d)))
}

fn build_unedited(s: &DocS) -> Result<Document, String> {
    if let Some(layout) = s.origin.strip_prefix("file:") { return load_file_doc(s, layout); }
    let mut d = Document::with_version("1.7");
    let mut maxid = 0;
    for (id, o) in &s.objects {
        d.objects.insert(*id, o.clone());
        maxid = maxid.max(id.0);
    }
    d.max_id = maxid + s.slack;
    if let Some((id, _)) = s.objects.first() { d.trailer.set("Root", Object::Reference(*id)); }
    if let Some((id, _)) = s.objects.get(1) { d.trailer.set("Info", Object::Reference(*id)); }
    if s.has_id {
        d.trailer.set("ID", Object::Array(vec![hexs(ID0), hexs(ID1)]));
    }
    Ok(d)
}

// ---------------------------------------------------------------------------------------------------------------
// documents that come from a file (the provenance dimension)
// ---------------------------------------------------------------------------------------------------------------
//
// "Every document" includes the documents a program gets from `Document::load*`, not only the ones it builds object by object.
// A document loaded from a PDF 1.5+ file differs from a built one in state the property does not mention but the library keeps:
// the cross-reference stream and the object streams of the file stay in `objects` (as streams of /Type /XRef and /Type /ObjStm)
// next to the objects unpacked from them, `reference_table` has compressed entries, the trailer carries the keys of the
// cross-reference stream dictionary.  The file is written here (ISO 32000 7.5: body, 7.5.4 table, 7.5.7 object streams, 7.5.8
// cross-reference streams) independently of lopdf's writer; the ORIGINAL of the round trip is whatever `load_mem` made of it.

/// layouts of the file: classic cross-reference table; cross-reference stream; cross-reference stream + one object stream that holds
/// every object that may be compressed (ISO 7.5.7: not a stream, generation 0), stored or Flate-compressed; the same spread over two
/// object streams (alternating)
const LAYOUTS: &[&str] = &["table", "xrefstm", "objstm", "objstm-flate", "objstm-x2"];

fn ser_name(n: &[u8], out: &mut Vec<u8>) {
    out.push(b'/');
    for &b in n {
        if (b'!'..=b'~').contains(&b) && !b"()<>[]{}/%#".contains(&b) { out.push(b); } else { out.extend_from_slice(format!("#{:02X}", b).as_bytes()); }
    }
}

fn ser_dict(d: &Dictionary, length: Option<usize>, out: &mut Vec<u8>) {
    out.extend_from_slice(b"<<");
    for (k, v) in d.iter() {
        if length.is_some() && k.as_slice() == b"Length" { continue; }
        ser_name(k, out);
        out.push(b' ');
        ser(v, out);
    }
    if let Some(n) = length { out.extend_from_slice(format!("/Length {}", n).as_bytes()); }
    out.extend_from_slice(b">>");
}

/// ISO 32000 7.3 syntax of one object (strings keep their format; every byte of a literal string outside printable ASCII, and ( ) \, is escaped)
fn ser(o: &Object, out: &mut Vec<u8>) {
    match o {
        Object::Null => out.extend_from_slice(b"null"),
        Object::Boolean(b) => out.extend_from_slice(if *b { b"true" } else { b"false" }),
        Object::Integer(i) => out.extend_from_slice(i.to_string().as_bytes()),
        Object::Real(r) => out.extend_from_slice(format!("{}", r).as_bytes()),
        Object::Name(n) => ser_name(n, out),
        Object::String(b, StringFormat::Hexadecimal) => { out.push(b'<'); out.extend_from_slice(hex(b).as_bytes()); out.push(b'>'); }
        Object::String(b, StringFormat::Literal) => {
            out.push(b'(');
            for &c in b { if (0x20..=0x7e).contains(&c) && !b"()\\".contains(&c) { out.push(c); } else { out.extend_from_slice(format!("\\{:03o}", c).as_bytes()); } }
            out.push(b')');
        }
        Object::Array(a) => {
            out.push(b'[');
            for (i, x) in a.iter().enumerate() { if i > 0 { out.push(b' '); } ser(x, out); }
            out.push(b']');
        }
        Object::Dictionary(d) => ser_dict(d, None, out),
        Object::Stream(s) => {
            ser_dict(&s.dict, Some(s.content.len()), out);
            out.extend_from_slice(b"stream\n");
            out.extend_from_slice(&s.content);
            out.extend_from_slice(b"\nendstream");
        }
        Object::Reference(id) => out.extend_from_slice(format!("{} {} R", id.0, id.1).as_bytes()),
    }
}

fn zlib(data: &[u8]) -> Vec<u8> {
    use std::io::Write;
    let mut e = flate2::write::ZlibEncoder::new(Vec::new(), flate2::Compression::default());
    e.write_all(data).unwrap();
    e.finish().unwrap()
}

#[derive(Clone, Copy)]
enum XEntry { Normal(usize, u16), Compressed(u32, usize) }

/// maximal runs of consecutive object numbers, for the subsections of a table / the /Index of a cross-reference stream
fn runs(ids: &[u32]) -> Vec<(u32, usize)> {
    let mut out: Vec<(u32, usize)> = vec![];
    for &i in ids {
        match out.last_mut() { Some((s, n)) if *s + *n as u32 == i => *n += 1, _ => out.push((i, 1)) }
    }
    out
}

/// The PDF 1.5 file with the objects of `s` in the given layout.  Object streams get the numbers after the highest object number,
/// the cross-reference stream the one after those; /Size is the highest number + 1 (`slack` does not apply to a file); /Root, /Info and
/// /ID as in `build_doc`.
fn write_file(s: &DocS, layout: &str) -> Vec<u8> {
    let n_cont: usize = match layout { "objstm" | "objstm-flate" => 1, "objstm-x2" => 2, _ => 0 };
    let flate = layout == "objstm-flate";
    let xref_stream = layout != "table";
    let maxid = s.objects.iter().map(|x| x.0 .0).max().unwrap_or(0);
    let mut packed: Vec<Vec<(u32, &Object)>> = vec![vec![]; n_cont];
    let mut entries: BTreeMap<u32, XEntry> = BTreeMap::new();
    let mut out: Vec<u8> = b"%PDF-1.5\n%\xe2\xe3\xcf\xd3\n".to_vec();
    let mut k = 0;
    for (id, o) in &s.objects {
        if n_cont > 0 && id.1 == 0 && !matches!(o, Object::Stream(_)) {
            let c = k % n_cont;
            entries.insert(id.0, XEntry::Compressed(maxid + 1 + c as u32, packed[c].len()));
            packed[c].push((id.0, o));
            k += 1;
        } else {
            entries.insert(id.0, XEntry::Normal(out.len(), id.1));
            out.extend_from_slice(format!("{} {} obj\n", id.0, id.1).as_bytes());
            ser(o, &mut out);
            out.extend_from_slice(b"\nendobj\n");
        }
    }
    for (c, objs) in packed.iter().enumerate() {
        let mut index = String::new();
        let mut body: Vec<u8> = vec![];
        for (n, o) in objs {
            index.push_str(&format!("{} {} ", n, body.len()));
            ser(o, &mut body);
            body.push(b' ');
        }
        let mut content = index.clone().into_bytes();
        content.extend_from_slice(&body);
        let mut d = dict(vec![(b"Type", name(b"ObjStm")), (b"N", Object::Integer(objs.len() as i64)), (b"First", Object::Integer(index.len() as i64))]);
        if flate { content = zlib(&content); d.set("Filter", name(b"FlateDecode")); }
        let id = maxid + 1 + c as u32;
        entries.insert(id, XEntry::Normal(out.len(), 0));
        out.extend_from_slice(format!("{} 0 obj\n", id).as_bytes());
        ser(&Object::Stream(Stream::new(d, content)), &mut out);
        out.extend_from_slice(b"\nendobj\n");
    }
    let mut trailer = Dictionary::new();
    if let Some((id, _)) = s.objects.first() { trailer.set("Root", Object::Reference(*id)); }
    if let Some((id, _)) = s.objects.get(1) { trailer.set("Info", Object::Reference(*id)); }
    if s.has_id { trailer.set("ID", Object::Array(vec![hexs(ID0), hexs(ID1)])); }
    let startxref = out.len();
    if xref_stream {
        let xid = maxid + 1 + n_cont as u32;
        entries.insert(xid, XEntry::Normal(startxref, 0));
        let mut ids: Vec<u32> = vec![0];
        ids.extend(entries.keys().copied());
        let mut content: Vec<u8> = vec![];
        let mut put = |t: u8, a: u32, b: u16| { content.push(t); content.extend_from_slice(&a.to_be_bytes()); content.extend_from_slice(&b.to_be_bytes()); };
        put(0, 0, 65535);
        for e in entries.values() {
            match *e { XEntry::Normal(off, gen) => put(1, off as u32, gen), XEntry::Compressed(cont, idx) => put(2, cont, idx as u16) }
        }
        trailer.set("Type", name(b"XRef"));
        trailer.set("Size", Object::Integer(xid as i64 + 1));
        trailer.set("W", Object::Array(vec![Object::Integer(1), Object::Integer(4), Object::Integer(2)]));
        trailer.set("Index", Object::Array(runs(&ids).into_iter().flat_map(|(a, n)| [Object::Integer(a as i64), Object::Integer(n as i64)]).collect()));
        out.extend_from_slice(format!("{} 0 obj\n", xid).as_bytes());
        ser(&Object::Stream(Stream::new(trailer, content)), &mut out);
        out.extend_from_slice(b"\nendobj\n");
    } else {
        let mut ids: Vec<u32> = vec![0];
        ids.extend(entries.keys().copied());
        out.extend_from_slice(b"xref\n");
        for (start, n) in runs(&ids) {
            out.extend_from_slice(format!("{} {}\n", start, n).as_bytes());
            for i in start..start + n as u32 {
                match entries.get(&i) {
                    Some(XEntry::Normal(off, gen)) => out.extend_from_slice(format!("{:010} {:05} n \n", off, gen).as_bytes()),
                    _ => out.extend_from_slice(b"0000000000 65535 f \n"),
                }
            }
        }
        trailer.set("Size", Object::Integer(maxid as i64 + 1));
        out.extend_from_slice(b"trailer\n");
        ser_dict(&trailer, None, &mut out);
        out.push(b'\n');
    }
    out.extend_from_slice(format!("startxref\n{}\n%%EOF\n", startxref).as_bytes());
    out
}

/// Load the file of `s`.  Precondition of the round-trip clauses (reported as `precondition-file-loads`, a matter of the reader and not
/// of C05, so that a case cannot pass vacuously): the loaded document holds every object of `s` (value equality; objects typed as
/// file structure - ObjStm, XRef, Linearized - are the reader's to interpret and not compared), is not encrypted, and apart from
/// those holds only the file-structure streams written by `write_file`.
fn load_file_doc(s: &DocS, layout: &str) -> Result<Document, String> {
    if !LAYOUTS.contains(&layout) { return Err(format!("unknown file layout {:?}", layout)); }
    let bytes = write_file(s, layout);
    let d = match catch(|| Document::load_mem(&bytes)) {
        Err(p) => return Err(format!("load_mem of the {} file panicked: {}", layout, p)),
        Ok(Err(e)) => return Err(format!("load_mem of the {} file failed: {}", layout, e)),
        Ok(Ok(d)) => d,
    };
    if d.trailer.get(b"Encrypt").is_ok() { return Err("the loaded document claims to be encrypted".into()); }
    for (id, o) in &s.objects {
        if is_bookkeeping_object(o) { continue; }
        match d.objects.get(id) {
            None => return Err(format!("{} file: object {} {} is not in the loaded document", layout, id.0, id.1)),
            Some(l) => if !obj_eq(o, l) { return Err(format!("{} file: object {} {} was loaded as {:?}", layout, id.0, id.1, l)); },
        }
    }
    for (id, o) in &d.objects {
        if !is_bookkeeping_object(o) && !s.objects.iter().any(|x| x.0 == *id) { return Err(format!("{} file: the loaded document has an object {} {} that is not in the file: {:?}", layout, id.0, id.1, o)); }
    }
    Ok(d)
}

// ---------------------------------------------------------------------------------------------------------------
// documents with a history (the edit dimension)
// ---------------------------------------------------------------------------------------------------------------
//
// "Every document" is every state a `Document` can be in when `encrypt` is called.  A program that loads a file usually changes the
// document before it encrypts it, and a loaded document carries state next to `objects` that the edit does not touch: the object
// streams of the file still hold the objects as they were in the file, `reference_table` still says which object lives in which
// container.  The original of the round trip is the document as it is right before `encrypt`, i.e. AFTER the edit: every string and
// stream must come back as edited, removed objects must stay removed, added objects must stay.
// An edit works on the objects of the document that are not file structure (ObjStm / XRef / Linearized), numbered k = 0, 1, .. in id order.

/// strings: every string of every object gets another value of another length (also in stream dictionaries), every stream another content;
/// strings-alt: the same for the objects of odd k only (edited and untouched objects side by side, also inside one object stream);
/// replace: every object of even k is replaced by a new dictionary that holds a string (the kind of the object changes);
/// delete: every object with k divisible by 3 is removed from `objects`;
/// add: two new objects are added with `Document::add_object` (a dictionary with strings, a stream with a string in its dictionary)
const EDITS: &[&str] = &["strings", "strings-alt", "replace", "delete", "add"];

fn edited_value(b: &[u8]) -> Vec<u8> {
    let mut v = b"edited:".to_vec();
    v.extend(b.iter().rev());
    v
}

fn edit_strings(o: &mut Object) {
    match o {
        Object::String(b, _) => *b = edited_value(b),
        Object::Array(a) => a.iter_mut().for_each(edit_strings),
        Object::Dictionary(d) => d.iter_mut().for_each(|(_, v)| edit_strings(v)),
        Object::Stream(s) => {
            s.dict.iter_mut().for_each(|(_, v)| edit_strings(v));
            let c = edited_value(&s.content);
            s.set_content(c);
        }
        _ => {}
    }
}

fn apply_edit(d: &mut Document, edit: &str) -> Result<(), String> {
    let ids: Vec<(u32, u16)> = d.objects.iter().filter(|(_, o)| !is_bookkeeping_object(o)).map(|(id, _)| *id).collect();
    match edit {
        "strings" | "strings-alt" => {
            for (k, id) in ids.iter().enumerate() {
                if edit == "strings" || k % 2 == 1 { if let Some(o) = d.objects.get_mut(id) { edit_strings(o); } }
            }
        }
        "replace" => {
            for (k, id) in ids.iter().enumerate() {
                if k % 2 == 0 {
                    let note = format!("object {} {} was replaced after the document was set up", id.0, id.1);
                    d.objects.insert(*id, Object::Dictionary(dict(vec![(b"Replaced", lit(note.as_bytes())), (b"K", Object::Integer(k as i64))])));
                }
            }
        }
        "delete" => {
            for (k, id) in ids.iter().enumerate() { if k % 3 == 0 { d.objects.remove(id); } }
        }
        "add" => {
            d.add_object(Object::Dictionary(dict(vec![(b"Title", lit(b"a dictionary added after loading")), (b"A", Object::Array(vec![hexs(&pat(17, 60)), lit(b"")]))])));
            d.add_object(Object::Stream(Stream::new(dict(vec![(b"Note", lit(b"a stream added after loading"))]), pat(40, 61))));
        }
        other => return Err(format!("unknown edit {:?}", other)),
    }
    Ok(())
}

fn pat(n: usize, seed: u8) -> Vec<u8> { (0..n).map(|i| (i as u8).wrapping_mul(37).wrapping_add(seed)).collect() }

fn crypt_stream(name: Option<&str>, parms: bool, array_form: bool, content: Vec<u8>) -> Object {
    let mut d = Dictionary::new();
    d.set("Filter", if array_form { Object::Array(vec![crate::gen::name(b"Crypt")]) } else { crate::gen::name(b"Crypt") });
    if parms {
        let mut p = Dictionary::new();
        p.set("Type", crate::gen::name(b"CryptFilterDecodeParms"));
        if let Some(n) = name { p.set("Name", crate::gen::name(n.as_bytes())); }
        d.set("DecodeParms", Object::Dictionary(p));
    }
    Object::Stream(Stream::new(d, content))
}

/// a well-formed object stream (ISO 7.5.7) with a dictionary and an array that hold strings; the numbers 11 and 12 are not objects of any document here
fn objstm_stream(flate: bool) -> Object {
    let o1: &[u8] = b"<</Title(a title inside an object stream)/K[(x)]>>";
    let o2: &[u8] = b"[(first string in an array)(second string)]";
    let index = format!("11 0 12 {} ", o1.len() + 1);
    let mut content = index.clone().into_bytes();
    content.extend_from_slice(o1);
    content.push(b' ');
    content.extend_from_slice(o2);
    let mut d = dict(vec![(b"Type", name(b"ObjStm")), (b"N", Object::Integer(2)), (b"First", Object::Integer(index.len() as i64))]);
    if flate { content = zlib(&content); d.set("Filter", name(b"FlateDecode")); }
    Object::Stream(Stream::new(d, content))
}

/// the object alphabet (depends on the handler only through the crypt filter names a /Crypt override can mention)
fn alphabet(h: &Handler) -> Vec<(String, Object)> {
    let mut big = pat(300, 11);
    big[100..118].copy_from_slice(b"\nendstream\nendobj\n");
    let mut v: Vec<(String, Object)> = vec![
        ("lit-empty".into(), lit(b"")),
        ("lit-5".into(), lit(b"short")),
        ("lit-15".into(), lit(b"fifteen bytes.!")),
        ("lit-16".into(), lit(b"0123456789abcdef")),
        ("hex-empty".into(), hexs(b"")),
        ("hex-17-binary".into(), hexs(b"\x00\xff()\\\r\n)(<>[]%/\x80\x7f")),
        ("lit-33".into(), lit(b"thirty-three bytes of plain text!")),
        ("array-nested".into(), Object::Array(vec![
            Object::Integer(7), lit(b"sixteen byte str"),
            Object::Array(vec![lit(b"twenty bytes of text"), Object::Dictionary(dict(vec![(b"K", hexs(&pat(18, 3)))]))]),
            name(b"Name"), Object::Reference((1, 0)), lit(b""), Object::Null, Object::Real(0.5), Object::Boolean(true)])),
        ("dict-nested".into(), Object::Dictionary(dict(vec![
            (b"Title", lit(b"a title of 24 bytes long")),
            (b"Nested", Object::Dictionary(dict(vec![(b"Deep", Object::Array(vec![lit(b"x"), lit(&pat(32, 200))]))]))),
            (b"N", Object::Null), (b"R", Object::Reference((99, 0))), (b"I", Object::Integer(-5))]))),
        ("stream-empty".into(), Object::Stream(Stream::new(Dictionary::new(), vec![]))),
        ("stream-5".into(), Object::Stream(Stream::new(Dictionary::new(), b"q Q\nS".to_vec()))),
        ("stream-15".into(), Object::Stream(Stream::new(Dictionary::new(), pat(15, 90)))),
        ("stream-16".into(), Object::Stream(Stream::new(Dictionary::new(), pat(16, 91)))),
        ("stream-300-binary".into(), Object::Stream(Stream::new(dict(vec![(b"Subtype", name(b"Image")), (b"Width", Object::Integer(10))]), big))),
        ("metadata-stream".into(), Object::Stream(Stream::new(dict(vec![(b"Type", name(b"Metadata")), (b"Subtype", name(b"XML"))]),
            b"<?xpacket begin=''?><x:xmpmeta/><?xpacket end='w'?>".to_vec()))),
        ("metadata-stream-empty".into(), Object::Stream(Stream::new(dict(vec![(b"Type", name(b"Metadata")), (b"Subtype", name(b"XML"))]), vec![]))),
        ("stream-with-dict-string".into(), Object::Stream(Stream::new(dict(vec![(b"Extra", lit(b"string in a stream dict"))]), pat(20, 5)))),
        ("metadata-typed-dict".into(), Object::Dictionary(dict(vec![(b"Type", name(b"Metadata")), (b"X", lit(b"string in /Type /Metadata dict"))]))),
        ("array-with-metadata-typed-dict".into(), Object::Array(vec![
            Object::Dictionary(dict(vec![(b"Type", name(b"Metadata")), (b"X", lit(b"nested in a /Metadata dict"))])), lit(b"sibling string 20 bt")])),
        ("xref-typed-stream".into(), Object::Stream(Stream::new(dict(vec![(b"Type", name(b"XRef"))]), pat(20, 77)))),
        // streams and dictionaries typed as file structure (ISO 7.5.7: an object stream is encrypted as a stream like any other; only
        // the cross-reference stream is exempt): what a document loaded from a PDF 1.5 file keeps in `objects`
        ("objstm-2-objects".into(), objstm_stream(false)),
        ("objstm-2-objects-flate".into(), objstm_stream(true)),
        ("objstm-empty".into(), Object::Stream(Stream::new(dict(vec![(b"Type", name(b"ObjStm")), (b"N", Object::Integer(0)), (b"First", Object::Integer(0))]), vec![]))),
        ("objstm-typed-binary".into(), Object::Stream(Stream::new(dict(vec![(b"Type", name(b"ObjStm"))]), pat(40, 123)))),
        ("linearized-dict-with-string".into(), Object::Dictionary(dict(vec![(b"Linearized", Object::Integer(1)), (b"L", Object::Integer(1234)), (b"X", lit(b"a string in a /Linearized dict"))]))),
        ("crypt-no-name".into(), crypt_stream(None, true, false, pat(32, 1))),
        ("crypt-unknown-name".into(), crypt_stream(Some("Nope"), true, true, pat(32, 2))),
        ("crypt-no-parms".into(), crypt_stream(None, false, false, pat(32, 3))),
    ];
    let names: Vec<&'static str> = if h.has_cf() { h.registry().iter().map(|x| x.0).collect() } else { vec!["FRc4"] };
    for (i, n) in names.iter().enumerate() {
        v.push((format!("crypt-{}", n), crypt_stream(Some(n), true, i % 2 == 1, pat(32, 40 + i as u8))));
        v.push((format!("crypt-{}-empty", n), crypt_stream(Some(n), true, false, vec![])));
    }
    // the stream-dictionary dimension: a string in a stream's dictionary is a string of the document whatever rule governs the stream's
    // data, so one stream of EVERY class of that rule (default filter, exempt Metadata, exempt XRef, object stream, each /Crypt override)
    // also occurs with strings in its dictionary, direct and nested (appended last: the ids of the whole-alphabet document stay as they were)
    let mut classes: Vec<String> = ["stream-300-binary", "metadata-stream", "xref-typed-stream", "objstm-2-objects", "crypt-no-name", "crypt-unknown-name", "crypt-no-parms"].iter().map(|x| x.to_string()).collect();
    classes.extend(names.iter().map(|n| format!("crypt-{}", n)));
    for c in classes {
        let o = v.iter().find(|x| x.0 == c).map(|x| x.1.clone()).expect("class representative");
        v.push((format!("{}+dict-strings", c), with_dict_strings(o)));
    }
    v
}

/// the stream with three more entries in its dictionary: a literal string, and an array holding a hexadecimal string and a dictionary with
/// a literal and an empty string
fn with_dict_strings(o: Object) -> Object {
    match o {
        Object::Stream(mut s) => {
            s.dict.set("Note", lit(b"a note of 29 bytes in the dict"));
            s.dict.set("Notes", Object::Array(vec![hexs(&pat(18, 7)), Object::Dictionary(dict(vec![(b"K", lit(b"nested, 21 bytes long")), (b"E", lit(b""))])), Object::Integer(3)]));
            Object::Stream(s)
        }
        other => other,
    }
}

const SINGLE_IDS_QUICK: &[(u32, u16)] = &[(7, 3)];
const SINGLE_IDS_THOROUGH: &[(u32, u16)] = &[(1, 0), (7, 3), (300, 65535)];

/// documents of family A: every alphabet object alone (at each id of the tier), one alphabet object at a large id
/// (in memory only), and the document that holds the whole alphabet at sparse ids (with and, for R5/V5, without /ID)
fn docs_a(h: &Handler, ids: &[(u32, u16)], all_layouts: bool, anchor: bool, edits: bool) -> Vec<DocS> {
    let al = alphabet(h);
    let mut out = vec![];
    for (k, (label, o)) in al.iter().enumerate() {
        for id in ids {
            out.push(DocS { label: format!("single:{}@{}.{}", label, id.0, id.1), objects: vec![(*id, o.clone())], has_id: true, slack: (k % 3) as u32, reload: true, origin: "built".into(), edit: String::new() });
        }
    }
    out.push(DocS { label: "single:lit-33@16777221.1".into(), objects: vec![((16777221, 1), al[6].1.clone())], has_id: true, slack: 0, reload: false, origin: "built".into(), edit: String::new() });
    let full = full_objects(&al);
    out.push(DocS { label: "full".into(), objects: full.clone(), has_id: true, slack: 2, reload: true, origin: "built".into(), edit: String::new() });
    if !h.legacy() {
        out.push(DocS { label: "full-no-id".into(), objects: full.clone(), has_id: false, slack: 0, reload: true, origin: "built".into(), edit: String::new() });
    }
    // the provenance dimension: the same objects in a PDF 1.5 file of every layout, loaded with load_mem
    for layout in LAYOUTS {
        out.push(DocS { label: format!("file:{}/full", layout), objects: full.clone(), has_id: true, slack: 0, reload: true, origin: format!("file:{}", layout), edit: String::new() });
    }
    if !h.legacy() {
        out.push(DocS { label: "file:objstm/full-no-id".into(), objects: full, has_id: false, slack: 0, reload: true, origin: "file:objstm".into(), edit: String::new() });
    }
    // every alphabet object alone at id 7 0 (generation 0: it may live in an object stream)
    let single_layouts: &[&str] = if all_layouts { LAYOUTS } else { &["objstm"] };
    for (label, o) in al.iter() {
        for layout in single_layouts {
            out.push(DocS { label: format!("file:{}/single:{}@7.0", layout, label), objects: vec![((7, 0), o.clone())], has_id: true, slack: 0, reload: true, origin: format!("file:{}", layout), edit: String::new() });
        }
    }
    // the edit dimension: the whole-alphabet document loaded from a file and then changed by every edit, before encrypt
    // (anchor configuration: in every layout; other configurations with the permission set `all`: layout objstm; the permission word
    // does not take part in what encrypt and decrypt do to an object)
    let edit_layouts: &[&str] = if anchor { LAYOUTS } else if edits { &["objstm"] } else { &[] };
    for layout in edit_layouts {
        for e in EDITS {
            out.push(DocS { label: format!("file:{}/full+edit:{}", layout, e), objects: full_objects(&al), has_id: true, slack: 0, reload: true, origin: format!("file:{}", layout), edit: e.to_string() });
        }
    }
    // ... and (thorough) every alphabet object alone at id 7 0 in layout objstm, loaded and then changed by the edits that keep it
    if anchor && all_layouts {
        for (label, o) in al.iter() {
            for e in ["strings", "replace"] {
                out.push(DocS { label: format!("file:objstm/single:{}@7.0+edit:{}", label, e), objects: vec![((7, 0), o.clone())], has_id: true, slack: 0, reload: true, origin: "file:objstm".into(), edit: e.to_string() });
            }
        }
    }
    out
}

fn full_objects(al: &[(String, Object)]) -> Vec<((u32, u16), Object)> {
    al.iter().enumerate().map(|(k, (_, o))| (((2 * k + 1 + (k / 5) * 7) as u32, if k % 4 == 3 { 2 } else { 0 }), o.clone())).collect()
}

/// family B (thorough): all ordered pairs of alphabet objects as a two-object document
fn docs_b(h: &Handler) -> Vec<DocS> {
    let al = alphabet(h);
    let mut out = vec![];
    for (la, a) in &al {
        for (lb, b) in &al {
            out.push(DocS { label: format!("pair:{}+{}", la, lb), objects: vec![((2, 0), a.clone()), ((9, 1), b.clone())], has_id: true, slack: 0, reload: true, origin: "built".into(), edit: String::new() });
        }
    }
    out
}

const PERM_ALL: u64 = 0xF3C;

fn password_pairs() -> Vec<(String, String)> {
    let a40: String = "Abcdefghij0123456789klmnopqrst!#$%&*+-=?".into();
    let b40: String = "Zyxwvutsrq9876543210ponmlkjihg?=-+*&%$#!".into();
    let c32: String = "common-prefix-of-32-bytes-------".into();
    let a130: String = "u".repeat(1) + &"0123456789".repeat(13)[..129];
    let b130: String = "o".repeat(1) + &"9876543210".repeat(13)[..129];
    let c127: String = "p".repeat(1) + &"abcdefghij".repeat(13)[..126];
    assert!(a40.len() == 40 && b40.len() == 40 && c32.len() == 32 && a130.len() == 130 && b130.len() == 130 && c127.len() == 127);
    vec![
        ("".into(), "".into()),
        ("".into(), "owner".into()),
        ("user".into(), "".into()),
        ("user".into(), "owner".into()),
        ("same".into(), "same".into()),
        ("p\u{e4}ssw\u{f6}rd".into(), "\u{d6}wner-\u{e9}".into()),
        ("\u{43f}\u{430}\u{440}\u{43e}\u{43b}\u{44c}".into(), "\u{432}\u{43b}\u{430}\u{434}\u{435}\u{43b}\u{435}\u{446}".into()), // Cyrillic
        ("\u{5bc6}\u{7801}".into(), "owner".into()),                                                                                   // CJK user password
        (a40, b40),
        (format!("{}-tail-user", c32), format!("{}-tail-owner", c32)),
        (a130, b130),
        (format!("{}u", c127), format!("{}o", c127)),
    ]
}

/// Characters of 2, 3 and 4 UTF-8 bytes that SASLprep (RFC 4013: NFKC, the mapping tables, the prohibited and the
/// Unicode 3.2 unassigned tables) leaves alone, so the password the handler truncates is byte for byte the one built here:
/// CYRILLIC SMALL LETTER PE, the CJK ideograph U+65E5, the CJK extension B ideograph U+20000.
const WIDE: [char; 3] = ['\u{43f}', '\u{65e5}', '\u{20000}'];

/// Revisions 5 and 6 use the first 127 bytes of the UTF-8 form of a password (ISO 32000-2 algorithms 2.A, 8, 9, 11, 12).
/// A password of the boundary family is `lead` (one ASCII byte that tells the user from the owner password), the fewest
/// ASCII digits that make the lengths fit, and characters `ch` of w = 2..4 bytes, laid out so that byte 127 - the first
/// byte that is cut off - is byte `phase` (0 <= phase < w) of a character; phase 0 puts the cut between two characters,
/// any other phase inside one.  `extra` more characters follow the character that holds byte 127.
fn boundary_password(lead: char, ch: char, phase: usize, extra: usize) -> String {
    let w = ch.len_utf8();
    assert!(lead.is_ascii() && w >= 2 && phase < w);
    let start = 127 - phase; // where the character that holds byte 127 begins
    let pad = (start - 1) % w;
    let mut s = String::new();
    s.push(lead);
    s.push_str(&"0123"[..pad]);
    for _ in 0..(start - 1 - pad) / w + 1 + extra { s.push(ch); }
    assert!(s.len() == start + w * (1 + extra) && s.len() > 127 && s.is_char_boundary(start) && (phase == 0) == s.is_char_boundary(127));
    s
}

/// the limit itself: exactly 127 bytes ending in a complete character of w bytes, nothing is cut off
fn at_limit_password(lead: char, ch: char) -> String {
    let w = ch.len_utf8();
    let pad = 126 % w;
    let mut s = String::new();
    s.push(lead);
    s.push_str(&"0123"[..pad]);
    for _ in 0..(126 - pad) / w { s.push(ch); }
    assert!(s.len() == 127);
    s
}

/// Password pairs around the 127-byte limit of revisions 5 and 6 made of multi-byte characters (used with R5 and V5 only:
/// revisions 2-4 refuse every character outside PDFDocEncoding and cut after 32 single-byte codes, which the shared pairs cover).
/// Every (width, phase) is enumerated for both roles; quick: the user password ends with the character holding byte 127, the
/// owner password has 5 more; thorough: both tails for both roles, and each long password also beside a short ASCII one.
fn boundary_pairs(thorough: bool) -> Vec<(String, String)> {
    let mut out: Vec<(String, String)> = vec![];
    for ch in WIDE {
        let w = ch.len_utf8();
        out.push((at_limit_password('u', ch), at_limit_password('o', ch)));
        for phase in 0..w {
            out.push((boundary_password('u', ch, phase, 0), boundary_password('o', ch, phase, 5)));
            if thorough { out.push((boundary_password('u', ch, phase, 5), boundary_password('o', ch, phase, 0))); }
            if thorough || phase == 1 { out.push((boundary_password('u', ch, phase, 0), "owner".into())); }
            if thorough || phase == w - 1 { out.push(("user".into(), boundary_password('o', ch, phase, 0))); }
        }
    }
    out
}

fn handlers(thorough: bool) -> Vec<Handler> {
    let mut out = vec![];
    let mk = |kind, em, stm: &str, strf: &str, key: Vec<u8>| Handler { kind, em, perms: 0, stm: stm.into(), strf: strf.into(), key };
    out.push(mk(Kind::V1, true, "", "", vec![]));
    for bits in (40..=128).step_by(8) { out.push(mk(Kind::V2(bits), true, "", "", vec![])); }
    for em in [true, false] {
        for stm in ["FRc4", "FAes", "FId", "Identity"] {
            for strf in ["FRc4", "FAes", "FId", "Identity"] { out.push(mk(Kind::V4, em, stm, strf, vec![])); }
        }
    }
    let names: Vec<&str> = if thorough { vec!["StdCF", "FId", "Identity"] } else { vec!["StdCF", "FId"] };
    for kind in [Kind::R5, Kind::V5] {
        for em in [true, false] {
            for stm in &names { for strf in &names { out.push(mk(kind, em, stm, strf, pat(32, 9))); } }
            if thorough { out.push(mk(kind, em, "StdCF", "StdCF", vec![0u8; 32])); }
        }
    }
    out
}

// ---------------------------------------------------------------------------------------------------------------
// driving the library
// ---------------------------------------------------------------------------------------------------------------

fn lib_filters(h: &Handler) -> BTreeMap<Vec<u8>, Arc<dyn CryptFilter>> {
    let mut m: BTreeMap<Vec<u8>, Arc<dyn CryptFilter>> = BTreeMap::new();
    for (n, f) in h.registry() {
        let a: Arc<dyn CryptFilter> = match f { M::Rc4 => Arc::new(Rc4CryptFilter), M::Aes128 => Arc::new(Aes128CryptFilter), M::Aes256 => Arc::new(Aes256CryptFilter), M::Identity => Arc::new(IdentityCryptFilter) };
        m.insert(n.as_bytes().to_vec(), a);
    }
    m
}

fn make_state(h: &Handler, doc: &Document, user: &str, owner: &str) -> Result<EncryptionState, lopdf::Error> {
    let permissions = Permissions::from_bits_truncate(h.perms);
    let v = match h.kind {
        Kind::V1 => EncryptionVersion::V1 { document: doc, owner_password: owner, user_password: user, permissions },
        Kind::V2(bits) => EncryptionVersion::V2 { document: doc, owner_password: owner, user_password: user, key_length: bits, permissions },
        Kind::V4 => EncryptionVersion::V4 { document: doc, encrypt_metadata: h.em, crypt_filters: lib_filters(h), stream_filter: h.stm.as_bytes().to_vec(),
                                            string_filter: h.strf.as_bytes().to_vec(), owner_password: owner, user_password: user, permissions },
        Kind::R5 => EncryptionVersion::R5 { encrypt_metadata: h.em, crypt_filters: lib_filters(h), file_encryption_key: &h.key, stream_filter: h.stm.as_bytes().to_vec(),
                                            string_filter: h.strf.as_bytes().to_vec(), owner_password: owner, user_password: user, permissions },
        Kind::V5 => EncryptionVersion::V5 { encrypt_metadata: h.em, crypt_filters: lib_filters(h), file_encryption_key: &h.key, stream_filter: h.stm.as_bytes().to_vec(),
                                            string_filter: h.strf.as_bytes().to_vec(), owner_password: owner, user_password: user, permissions },
    };
    EncryptionState::try_from(v)
}

fn catch<T>(f: impl FnOnce() -> T) -> Result<T, String> {
    catch_unwind(AssertUnwindSafe(f)).map_err(|e| {
        if let Some(s) = e.downcast_ref::<String>() { s.clone() } else if let Some(s) = e.downcast_ref::<&str>() { s.to_string() } else { "panic".to_string() }
    })
}

// ---------------------------------------------------------------------------------------------------------------
// the model
// ---------------------------------------------------------------------------------------------------------------

/// what the model expects of one string / stream after encryption
#[derive(Clone, Copy, Debug, PartialEq)]
enum Exp { Plain, Rc4, Aes, Unspec }

fn exp_of(m: M) -> Exp { match m { M::Rc4 => Exp::Rc4, M::Aes128 | M::Aes256 => Exp::Aes, M::Identity => Exp::Plain } }

/// a filter named by StmF / StrF: a registered name selects that filter; the predefined name /Identity is never listed in
/// CF (ISO 7.6.6) - the library runs RC4 for it, ISO says identity; the round trip must hold either way, the model leaves the ciphertext unspecified
fn model_named(h: &Handler, n: &str) -> Exp {
    match h.registry().iter().find(|x| x.0 == n) { Some((_, m)) => exp_of(*m), None => Exp::Unspec }
}

fn model_string(h: &Handler) -> Exp { if h.has_cf() { model_named(h, &h.strf) } else { Exp::Rc4 } }

fn is_type(d: &Dictionary, t: &[u8]) -> bool { matches!(d.get(b"Type"), Ok(Object::Name(n)) if n.as_slice() == t) }

fn has_crypt(d: &Dictionary) -> bool {
    match d.get(b"Filter") {
        Ok(Object::Name(n)) => n.as_slice() == b"Crypt",
        Ok(Object::Array(a)) => a.iter().any(|o| matches!(o, Object::Name(n) if n.as_slice() == b"Crypt")),
        _ => false,
    }
}

fn model_stream(h: &Handler, s: &Stream) -> Exp {
    if is_type(&s.dict, b"XRef") { return Exp::Plain; }
    if is_type(&s.dict, b"Metadata") && !h.em { return Exp::Plain; }
    if has_crypt(&s.dict) {
        if !h.has_cf() { return Exp::Unspec; } // crypt filters mean nothing before V4
        return match s.dict.get(b"DecodeParms") {
            Ok(Object::Dictionary(p)) => match p.get(b"Name") {
                Err(_) => Exp::Plain, // ISO table 14: default /Identity
                Ok(Object::Name(n)) => match h.registry().iter().find(|x| x.0.as_bytes() == n.as_slice()) { Some((_, m)) => exp_of(*m), None => Exp::Unspec },
                Ok(_) => Exp::Unspec,
            },
            _ => Exp::Unspec, // no parameters at all: ISO says Identity, the library uses StmF; not pinned down here
        };
    }
    if h.has_cf() { model_named(h, &h.stm) } else { Exp::Rc4 }
}

type Fails = Vec<(String, String)>;

fn push(f: &mut Fails, ob: &str, detail: String) {
    if !f.iter().any(|x| x.0 == ob) { f.push((ob.to_string(), detail)); }
}

fn check_cipher(exp: Exp, plain: &[u8], cipher: &[u8], what: &str, ob_override: Option<&str>, f: &mut Fails) {
    match exp {
        Exp::Unspec => {}
        Exp::Plain => if plain != cipher { push(f, ob_override.unwrap_or("identity-or-exempt-unchanged"), format!("{}: identity-filtered / exempt data was changed by encrypt ({} -> {} bytes)", what, plain.len(), cipher.len())); },
        Exp::Rc4 => {
            if plain.len() != cipher.len() { push(f, ob_override.unwrap_or("ciphertext-shape"), format!("{}: RC4 ciphertext has {} bytes for {} bytes of plaintext", what, cipher.len(), plain.len())); }
            else if plain.len() >= 16 && plain == cipher { push(f, ob_override.unwrap_or("ciphertext-differs"), format!("{}: {} bytes subject to RC4 still equal the plaintext after encrypt", what, plain.len())); }
        }
        Exp::Aes => {
            let want = 16 + (plain.len() / 16 + 1) * 16;
            if plain.len() >= 16 && plain == cipher { push(f, ob_override.unwrap_or("ciphertext-differs"), format!("{}: {} bytes subject to AES still equal the plaintext after encrypt", what, plain.len())); }
            else if cipher.len() != want { push(f, ob_override.unwrap_or("ciphertext-shape"), format!("{}: AES ciphertext has {} bytes, IV + PKCS#5 padded plaintext of {} bytes is {}", what, cipher.len(), plain.len(), want)); }
        }
    }
}

#[derive(Clone, Copy)]
struct Ctx { in_stream_dict: bool, in_meta_dict: bool, in_clear_meta_stream_dict: bool }

/// parallel walk of the original and the encrypted object
fn walk_enc(h: &Handler, o: &Object, e: &Object, ctx: Ctx, path: &str, f: &mut Fails) {
    match (o, e) {
        (Object::String(p, pf), Object::String(c, cf)) => {
            if pf != cf { push(f, "non-string-unchanged", format!("{}: string format changed", path)); }
            // ISO 7.6.2: every string of the file is encrypted except /ID, the strings of the Encrypt dictionary and strings inside streams
            let ob = if ctx.in_clear_meta_stream_dict { Some("metadata-stream-dict-string-encrypted") } else if ctx.in_stream_dict { Some("stream-dict-string-encrypted") } else if ctx.in_meta_dict { Some("metadata-dict-string-encrypted") } else { None };
            check_cipher(model_string(h), p, c, &format!("string at {}", path), ob, f);
        }
        (Object::Array(a), Object::Array(b)) => {
            if a.len() != b.len() { push(f, "non-string-unchanged", format!("{}: array length changed", path)); return; }
            for (i, (x, y)) in a.iter().zip(b.iter()).enumerate() { walk_enc(h, x, y, ctx, &format!("{}[{}]", path, i), f); }
        }
        (Object::Dictionary(a), Object::Dictionary(b)) => {
            let c2 = Ctx { in_meta_dict: ctx.in_meta_dict || (is_type(a, b"Metadata") && !h.em), ..ctx };
            walk_dict(h, a, b, c2, path, &[], f);
        }
        (Object::Stream(a), Object::Stream(b)) => {
            if is_type(&a.dict, b"XRef") {
                if a.dict != b.dict || a.content != b.content { push(f, "identity-or-exempt-unchanged", format!("{}: cross-reference stream was changed by encrypt", path)); }
                return;
            }
            // EncryptMetadata false exempts the data of the Metadata stream (ISO 32000-2 table 20: "whether the document-level metadata stream
            // shall be encrypted"); the strings of its dictionary are strings of the file (7.6.2) - their own obligation name
            walk_dict(h, &a.dict, &b.dict, Ctx { in_stream_dict: true, in_clear_meta_stream_dict: is_type(&a.dict, b"Metadata") && !h.em, ..ctx }, path, &[b"Length"], f);
            match b.dict.get(b"Length") {
                Ok(Object::Integer(n)) if *n == b.content.len() as i64 => {}
                other => push(f, "ciphertext-shape", format!("{}: /Length {:?} after encrypt, content has {} bytes", path, other.ok(), b.content.len())),
            }
            check_cipher(model_stream(h, a), &a.content, &b.content, &format!("stream at {}", path), None, f);
        }
        (x, y) => if x != y { push(f, "non-string-unchanged", format!("{}: {:?} became {:?}", path, x, y)); },
    }
}

fn walk_dict(h: &Handler, a: &Dictionary, b: &Dictionary, ctx: Ctx, path: &str, skip: &[&[u8]], f: &mut Fails) {
    if a.len() != b.len() { push(f, "non-string-unchanged", format!("{}: dictionary size changed", path)); return; }
    for (k, x) in a.iter() {
        if skip.contains(&k.as_slice()) { continue; }
        match b.get(k) {
            Ok(y) => walk_enc(h, x, y, ctx, &format!("{}/{}", path, String::from_utf8_lossy(k)), f),
            Err(_) => push(f, "non-string-unchanged", format!("{}: key {} disappeared", path, String::from_utf8_lossy(k))),
        }
    }
}

/// first difference between an original object and what came back; strict = in memory (formats and f32 bits too)
fn diff_obj(a: &Object, b: &Object, strict: bool, path: &str) -> Option<String> {
    match (a, b) {
        (Object::String(x, fx), Object::String(y, fy)) => {
            if x != y { return Some(format!("string at {} was not restored byte for byte: expected {} bytes {}, got {} bytes {}", path, x.len(), short_hex(x), y.len(), short_hex(y))); }
            if strict && fx != fy { return Some(format!("string at {}: format changed", path)); }
            None
        }
        (Object::Array(x), Object::Array(y)) => {
            if x.len() != y.len() { return Some(format!("array at {}: length {} vs {}", path, x.len(), y.len())); }
            x.iter().zip(y.iter()).enumerate().find_map(|(i, (p, q))| diff_obj(p, q, strict, &format!("{}[{}]", path, i)))
        }
        (Object::Dictionary(x), Object::Dictionary(y)) => diff_dict(x, y, strict, path, &[]),
        (Object::Stream(x), Object::Stream(y)) => {
            if let Some(d) = diff_dict(&x.dict, &y.dict, strict, path, &[]) { return Some(format!("in the dictionary of the stream {}: {}", path, d)); }
            if x.content != y.content { return Some(format!("stream at {} was not restored byte for byte: expected {} bytes {}, got {} bytes {}", path, x.content.len(), short_hex(&x.content), y.content.len(), short_hex(&y.content))); }
            None
        }
        (x, y) => {
            let same = if strict { x == y } else { obj_eq(x, y) };
            if same { None } else { Some(format!("{}: expected {:?}, got {:?}", path, x, y)) }
        }
    }
}

fn diff_dict(x: &Dictionary, y: &Dictionary, strict: bool, path: &str, ignore: &[&[u8]]) -> Option<String> {
    for (k, v) in x.iter() {
        if ignore.contains(&k.as_slice()) { continue; }
        match y.get(k) {
            Ok(w) => if let Some(d) = diff_obj(v, w, strict, &format!("{}/{}", path, String::from_utf8_lossy(k))) { return Some(d); },
            Err(_) => return Some(format!("{}: key {} missing", path, String::from_utf8_lossy(k))),
        }
    }
    for (k, _) in y.iter() {
        if ignore.contains(&k.as_slice()) { continue; }
        if x.get(k).is_err() { return Some(format!("{}: extra key {}", path, String::from_utf8_lossy(k))); }
    }
    None
}

/// "id gen", followed by the /Type of a typed stream or dictionary (so that a report on an object stream, a cross-reference stream or a
/// Metadata stream says so)
fn obj_path(id: &(u32, u16), o: &Object) -> String {
    let d = match o { Object::Stream(s) => Some(&s.dict), Object::Dictionary(d) => Some(d), _ => None };
    match d.and_then(|d| d.get(b"Type").ok()) {
        Some(Object::Name(n)) => format!("{} {} (/Type /{})", id.0, id.1, String::from_utf8_lossy(n)),
        _ => format!("{} {}", id.0, id.1),
    }
}

fn inflate(data: &[u8]) -> Option<Vec<u8>> {
    use std::io::Read;
    let mut out = vec![];
    flate2::read::ZlibDecoder::new(data).read_to_end(&mut out).ok().map(|_| out)
}

/// `o` is an object stream with /Filter /FlateDecode and `r` is the same stream decoded: same dictionary without /Filter (and with the
/// /Length of the decoded data), content = the inflated content of `o`.  The data is the same, the bytes are not.
fn is_decoded_objstm(o: &Object, r: &Object) -> bool {
    match (o, r) {
        (Object::Stream(a), Object::Stream(b)) => {
            is_type(&a.dict, b"ObjStm") && matches!(a.dict.get(b"Filter"), Ok(Object::Name(n)) if n.as_slice() == b"FlateDecode") && b.dict.get(b"Filter").is_err()
                && diff_dict(&a.dict, &b.dict, true, "", &[b"Filter", b"Length"]).is_none() && inflate(&a.content).as_deref() == Some(b.content.as_slice())
        }
        _ => false,
    }
}

fn short_hex(b: &[u8]) -> String { if b.len() <= 24 { hex(b) } else { format!("{}..", hex(&b[..24])) } }

/// the decrypted document `d` must be the original: no /Encrypt, no encryption dictionary object, all objects and the trailer as before
/// `pre`: for a document with an edit, the document before the edit - it decides the NAME of a failure only (an object that comes back
/// as it was before the edit, `<mem|reload>-edit-reverted` / `-deleted-object-back`, is told apart from one that comes back as something else)
fn check_restored(orig: &Document, pre: Option<&Document>, d: &Document, enc_id: Option<(u32, u16)>, strict: bool, tag: &str, f: &mut Fails) {
    let same = |a: &Object, b: &Object| if strict { a == b } else { obj_eq(a, b) };
    // one cause, one name whatever the password class in `tag`
    let route = if tag.starts_with("reload") { "reload" } else { "mem" };
    if d.trailer.get(b"Encrypt").is_ok() { push(f, &format!("{}-encrypt-dict-removed", tag), "trailer still has /Encrypt after a successful decrypt".into()); }
    if let Some(id) = enc_id { if d.objects.contains_key(&id) && !orig.objects.contains_key(&id) { push(f, &format!("{}-encrypt-dict-removed", tag), format!("encryption dictionary object {} {} is still in the document", id.0, id.1)); } }
    let skip = |o: &Object| !strict && is_bookkeeping_object(o);
    for (id, o) in &orig.objects {
        if skip(o) { continue; }
        match d.objects.get(id) {
            None => { push(f, &format!("{}-restores", tag), format!("object {} {} is missing after decrypt", id.0, id.1)); }
            Some(r) => if let Some(df) = diff_obj(o, r, strict, &obj_path(id, o)) {
                // one cause, one name (whatever the password class in `tag`): see `is_decoded_objstm`
                if strict && is_decoded_objstm(o, r) { push(f, "mem-compressed-objstm-restored", format!("the Flate-compressed object stream {} came back from encrypt + decrypt decoded ({} bytes instead of {}, /Filter removed): the same data, but not the stream byte for byte ({})", obj_path(id, o), match r { Object::Stream(x) => x.content.len(), _ => 0 }, match o { Object::Stream(x) => x.content.len(), _ => 0 }, df)); }
                else if pre.and_then(|p| p.objects.get(id)).map(|p| same(p, r)).unwrap_or(false) {
                    push(f, &format!("{}-edit-reverted", route), format!("{}: object {} was changed after the document was loaded and before encrypt; decrypt returned it as it was when loaded (the copy kept in the file's object stream?), not as it was encrypted: {}", tag, obj_path(id, o), df));
                }
                else { push(f, &format!("{}-restores", tag), df); }
            },
        }
    }
    for (id, o) in &d.objects {
        if skip(o) || Some(*id) == enc_id { continue; }
        if !orig.objects.contains_key(id) {
            if pre.map(|p| p.objects.contains_key(id)).unwrap_or(false) { push(f, &format!("{}-deleted-object-back", route), format!("{}: object {} was removed from the document after loading and before encrypt; after decrypt it is in the document again: {:?}", tag, obj_path(id, o), o)); }
            else { push(f, &format!("{}-restores", tag), format!("unexpected object {} {} after decrypt: {:?}", id.0, id.1, o)); }
        }
    }
    let ignore: Vec<&[u8]> = if strict { vec![b"Encrypt"] } else { let mut v = BOOKKEEPING.to_vec(); v.push(b"Encrypt"); v };
    if let Some(df) = diff_dict(&orig.trailer, &d.trailer, strict, "trailer", &ignore) { push(f, &format!("{}-restores", tag), df); }
}

/// characters PDFDocEncoding can certainly represent (all my Latin test passwords stay inside this set)
fn pdfdoc_ok(c: char) -> bool { (' '..='~').contains(&c) || ('\u{a1}'..='\u{ff}').contains(&c) }
fn strip_nonlatin(s: &str) -> String { s.chars().filter(|c| pdfdoc_ok(*c)).collect() }
fn has_nonlatin(s: &str) -> bool { s.chars().any(|c| !pdfdoc_ok(c)) }

/// for a password of more than 127 bytes whose byte 127 lies inside a character: the password up to the start of that character
fn cut_before_split_char(p: &str) -> Option<&str> {
    if p.len() > 127 && !p.is_char_boundary(127) { (0..127).rev().find(|i| p.is_char_boundary(*i)).map(|cut| &p[..cut]) } else { None }
}

/// passwords that are neither the user nor the owner password, and that differ from both inside the significant prefix
/// (32 bytes for revisions 2-4, 127 for 5-6), so truncation cannot make them equal
fn wrong_passwords(h: &Handler, user: &str, owner: &str) -> Vec<String> {
    let mut c: Vec<String> = vec!["wrong".into(), "\u{43d}\u{435}\u{432}\u{435}\u{440}\u{43d}\u{43e}".into()];
    if !user.is_empty() && !owner.is_empty() { c.push(String::new()); }
    for p in [user, owner] {
        if p.chars().count() < 20 { c.push(format!("{}x", p)); } else { let mut s: String = "#".into(); s.extend(p.chars().skip(1)); c.push(s); }
        // revisions 5/6 use exactly the first 127 bytes: when byte 127 lies inside a character, the password that stops before
        // that character is shorter than the significant prefix (it lacks the character's leading bytes), hence a different password
        if !h.legacy() { if let Some(q) = cut_before_split_char(p) { c.push(q.to_string()); } }
    }
    let mut out: Vec<String> = vec![];
    for w in c { if w != user && w != owner && !out.contains(&w) { out.push(w); } }
    out
}

// ---------------------------------------------------------------------------------------------------------------
// one case
// ---------------------------------------------------------------------------------------------------------------

struct Case<'a> { h: &'a Handler, user: &'a str, owner: &'a str, doc: &'a DocS }

fn case_json(c: &Case, obligation: &str) -> Value {
    json!({"obligation": obligation, "handler": c.h.to_json(), "user": c.user, "owner": c.owner, "doc": doc_json(c.doc)})
}

/// decrypt `enc` (a clone) with a password that must be accepted and compare with the original
fn expect_decrypts(h: &Handler, orig: &Document, pre: Option<&Document>, enc: &Document, enc_id: Option<(u32, u16)>, pw: &str, strict: bool, tag: &str, f: &mut Fails) {
    // the quantifier names passwords longer than 127 bytes (the truncation limit of revisions 5 and 6) as a class of its own
    // and, among those, the passwords whose 128th byte (the first one cut off) lies inside a multi-byte character
    let split = !h.legacy() && pw.len() > 127 && !pw.is_char_boundary(127);
    let tag = &if split { format!("{}-over127-splitchar", tag) } else if !h.legacy() && pw.len() > 127 { format!("{}-over127", tag) } else { tag.to_string() };
    let class = if split {
        let start = (0..127).rev().find(|i| pw.is_char_boundary(*i)).unwrap_or(0);
        let ch = pw[start..].chars().next().unwrap();
        format!(" (password {:?}: {} bytes of UTF-8, revision {} uses the first 127, which end after byte {} of the {}-byte character U+{:04X})", short(pw), pw.len(), h.v_r().1, 127 - start, ch.len_utf8(), ch as u32)
    } else if !h.legacy() && pw.len() > 127 { format!(" (password {:?}, revision {} uses its first 127 bytes)", short(pw), h.v_r().1) } else { String::new() };
    let mut d = enc.clone();
    match catch(|| d.decrypt(pw)) {
        Err(p) => push(f, "no-panic", format!("{}: decrypt panicked: {}{}", tag, p, class)),
        // same obligation as a wrong result: with a wrongly derived key the library answers Err (bad AES padding) or Ok with garbage
        // depending on random IV bytes, the case must fail under one stable name
        Ok(Err(e)) => push(f, &format!("{}-restores", tag), format!("decrypt with the correct password failed: {}{}", e, class)),
        Ok(Ok(())) => check_restored(orig, pre, &d, enc_id, strict, tag, f),
    }
}

fn expect_rejects(h: &Handler, enc: &Document, user: &str, owner: &str, tag: &str, f: &mut Fails) {
    for w in wrong_passwords(h, user, owner) {
        // under revisions 2-4 the password goes through PDFDocEncoding; a password that differs from the real one only by
        // characters outside that encoding is reported under its own obligation name
        let collides = h.legacy() && (has_nonlatin(&w) || has_nonlatin(user) || has_nonlatin(owner)) && (strip_nonlatin(&w) == strip_nonlatin(user) || strip_nonlatin(&w) == strip_nonlatin(owner));
        // revisions 5/6: a real password of more than 127 bytes cut before the character that holds byte 127 (see wrong_passwords)
        let floor_of = |p: &str| !h.legacy() && cut_before_split_char(p) == Some(w.as_str());
        let floored = floor_of(user) || floor_of(owner);
        let suffix = if collides { "-nonlatin" } else if floored { "-over127-splitchar" } else { "" };
        let mut d = enc.clone();
        match catch(|| d.decrypt(&w)) {
            Err(p) => push(f, "no-panic", format!("{}: decrypt with a wrong password panicked: {}", tag, p)),
            Ok(Ok(())) => {
                // a password colliding with the owner password only is accepted and then decrypts with a wrongly derived key: Ok is the
                // certain outcome only if no AES data is met (otherwise Err, except when a wrong key survives unpadding); record the certain ones
                let certain = !collides || strip_nonlatin(&w) == strip_nonlatin(user) || !enc.objects.values().any(|o| may_be_aes(h, o));
                if certain { push(f, &format!("{}-wrong-password-rejected{}", tag, suffix), format!("decrypt({:?}) returned Ok although the user password is {:?} and the owner password is {:?}{}", short(&w), short(user), short(owner),
                    if floored { format!(" (the accepted password has {} bytes: a real password cut before the character that holds byte 127, not its 127 significant bytes)", w.len()) } else { String::new() })); }
            }
            Ok(Err(_)) => {
                if d.objects != enc.objects || d.trailer != enc.trailer {
                    // A colliding password is accepted by authentication and then fails later (wrong key). If the first thing it
                    // touches is AES data the outcome depends on the random IV (a wrong key survives PKCS#5 unpadding about once in
                    // 256 times), so the failure is recorded only when the first modified string/stream is RC4 data: no AES item
                    // can precede it, which makes the outcome a function of the input alone.
                    let first = enc.objects.iter().find_map(|(id, o)| d.objects.get(id).and_then(|n| first_changed(h, o, n)));
                    if !collides || first == Some(Exp::Rc4) {
                        push(f, &format!("{}-wrong-password-unchanged{}", tag, suffix), format!("decrypt({:?}) returned Err but modified the document", w));
                    }
                }
            }
        }
    }
}

fn may_be_aes(h: &Handler, o: &Object) -> bool {
    let aes = |e: Exp| e == Exp::Aes || e == Exp::Unspec;
    match o {
        Object::String(..) => aes(model_string(h)),
        Object::Array(a) => a.iter().any(|x| may_be_aes(h, x)),
        Object::Dictionary(d) => d.iter().any(|(_, x)| may_be_aes(h, x)),
        Object::Stream(s) => aes(model_stream(h, s)) || s.dict.iter().any(|(_, x)| may_be_aes(h, x)),
        _ => false,
    }
}

/// model filter of the first string / stream content that differs between `a` (before) and `b` (after), in the order the objects are stored
fn first_changed(h: &Handler, a: &Object, b: &Object) -> Option<Exp> {
    match (a, b) {
        (Object::String(x, _), Object::String(y, _)) => if x != y { Some(model_string(h)) } else { None },
        (Object::Array(x), Object::Array(y)) => x.iter().zip(y.iter()).find_map(|(p, q)| first_changed(h, p, q)),
        (Object::Dictionary(x), Object::Dictionary(y)) => x.iter().find_map(|(k, p)| y.get(k).ok().and_then(|q| first_changed(h, p, q))),
        (Object::Stream(x), Object::Stream(y)) => {
            let in_dict = x.dict.iter().filter(|(k, _)| k.as_slice() != b"Length").find_map(|(k, p)| y.dict.get(k).ok().and_then(|q| first_changed(h, p, q)));
            if in_dict.is_some() { return in_dict; }
            if x.content != y.content { Some(model_stream(h, x)) } else { None }
        }
        (p, q) => if p != q { Some(Exp::Unspec) } else { None },
    }
}

fn short(s: &str) -> String { if s.chars().count() > 40 { format!("{}..({} bytes)", s.chars().take(40).collect::<String>(), s.len()) } else { s.to_string() } }

fn check_case(c: &Case, state: Option<&EncryptionState>, formats: &[bool]) -> Fails {
    let mut f: Fails = vec![];
    let h = c.h;
    let (orig, pre) = match build_doc(c.doc) {
        Ok(d) => d,
        Err(e) => { push(&mut f, "precondition-file-loads", e); return f; }
    };
    // 1. the state (document independent for R5/V5, so the caller may pass it in)
    let own;
    let state = match state {
        Some(s) => s,
        None => match catch(|| make_state(h, &orig, c.user, c.owner)) {
            Err(p) => { push(&mut f, "no-panic", format!("EncryptionState::try_from panicked: {}", p)); return f; }
            Ok(Err(e)) => {
                // Revisions 2-4 take the password in PDFDocEncoding: a password with a character that encoding cannot represent
                // cannot be used with them at all.  Refusing it (rather than silently dropping the characters, library fix fce3339)
                // is the expected outcome; the round-trip clauses are then vacuous for this case.
                if h.legacy() && (has_nonlatin(c.user) || has_nonlatin(c.owner)) { return f; }
                push(&mut f, "state-ok", format!("EncryptionState::try_from failed for a supported configuration: {}", e)); return f;
            }
            Ok(Ok(s)) => {
                if h.legacy() && (has_nonlatin(c.user) || has_nonlatin(c.owner)) { push(&mut f, "unrepresentable-password-refused", format!("a revision 2-4 handler accepted the password pair ({:?}, {:?}), which PDFDocEncoding cannot represent", short(c.user), short(c.owner))); return f; }
                own = s; &own
            }
        },
    };
    // 2. encrypt
    let mut enc = orig.clone();
    match catch(|| enc.encrypt(state)) {
        Err(p) => { push(&mut f, "no-panic", format!("encrypt panicked: {}", p)); return f; }
        Ok(Err(e)) => { push(&mut f, "encrypt-ok", format!("encrypt failed: {}", e)); return f; }
        Ok(Ok(())) => {}
    }
    // 3. shape of the encrypted document
    let enc_id = match enc.trailer.get(b"Encrypt") { Ok(Object::Reference(id)) => Some(*id), _ => None };
    match enc_id {
        None => push(&mut f, "encrypt-dict", "trailer has no /Encrypt reference after encrypt".into()),
        Some(id) => {
            if orig.objects.contains_key(&id) { push(&mut f, "encrypt-dict", format!("the encryption dictionary took the id {} {} of an existing object", id.0, id.1)); }
            match enc.objects.get(&id) {
                Some(Object::Dictionary(d)) => {
                    let (v, r) = h.v_r();
                    let ok = matches!(d.get(b"Filter"), Ok(Object::Name(n)) if n.as_slice() == b"Standard") && matches!(d.get(b"V"), Ok(Object::Integer(x)) if *x == v) && matches!(d.get(b"R"), Ok(Object::Integer(x)) if *x == r);
                    if !ok { push(&mut f, "encrypt-dict", format!("encryption dictionary does not announce /Filter /Standard /V {} /R {}: {:?}", v, r, d)); }
                }
                other => push(&mut f, "encrypt-dict", format!("/Encrypt does not point to a dictionary: {:?}", other)),
            }
        }
    }
    if let Some(df) = diff_dict(&orig.trailer, &enc.trailer, true, "trailer", &[b"Encrypt"]) { push(&mut f, "non-string-unchanged", format!("encrypt changed the trailer: {}", df)); }
    for (id, o) in &orig.objects {
        match enc.objects.get(id) {
            None => push(&mut f, "non-string-unchanged", format!("object {} {} disappeared in encrypt", id.0, id.1)),
            Some(e) => walk_enc(h, o, e, Ctx { in_stream_dict: false, in_meta_dict: false, in_clear_meta_stream_dict: false }, &obj_path(id, o), &mut f),
        }
    }
    if enc.objects.len() != orig.objects.len() + 1 { push(&mut f, "non-string-unchanged", format!("encrypt changed the number of objects from {} to {}", orig.objects.len(), enc.objects.len())); }
    // 4. in memory: user password, owner password, wrong passwords
    // Revisions 2-4 (Algorithm 3): "if there is no owner password, use the user password instead" - an empty owner
    // password is no owner password, so the password that opens the document as owner is the user password.
    let owner_eff: &str = if h.legacy() && c.owner.is_empty() { c.user } else { c.owner };
    let pre = pre.as_ref();
    expect_decrypts(h, &orig, pre, &enc, enc_id, c.user, true, "mem-user", &mut f);
    expect_decrypts(h, &orig, pre, &enc, enc_id, owner_eff, true, "mem-owner", &mut f);
    expect_rejects(h, &enc, c.user, owner_eff, "mem", &mut f);
    // 5. through save + load
    if c.doc.reload {
        for &xs in formats {
            let tag = "reload";
            let mut s = enc.clone();
            s.reference_table.cross_reference_type = if xs { XrefType::CrossReferenceStream } else { XrefType::CrossReferenceTable };
            let mut bytes = vec![];
            match catch(|| s.save_to(&mut bytes)) {
                Err(p) => { push(&mut f, "no-panic", format!("save of the encrypted document panicked: {}", p)); continue; }
                Ok(Err(e)) => { push(&mut f, "reload-save-ok", format!("save of the encrypted document failed: {}", e)); continue; }
                Ok(Ok(())) => {}
            }
            let loaded = match catch(|| Document::load_mem(&bytes)) {
                Err(p) => { push(&mut f, "no-panic", format!("load of the encrypted file panicked: {}", p)); continue; }
                Ok(Err(e)) => {
                    let auto = c.user.is_empty() || owner_eff.is_empty();
                    push(&mut f, if auto { "reload-auto-restores" } else { "reload-load-ok" }, format!("load of the saved encrypted file failed (xref stream={}): {}", xs, e));
                    continue;
                }
                Ok(Ok(d)) => d,
            };
            let expect_auto = c.user.is_empty() || owner_eff.is_empty();
            let is_enc = loaded.trailer.get(b"Encrypt").is_ok();
            if expect_auto {
                if is_enc { push(&mut f, "reload-auto-decrypt", "the empty password is the user or owner password but the loader left the document encrypted".into()); }
                else { check_restored(&orig, pre, &loaded, enc_id, false, "reload-auto", &mut f); }
            } else if !is_enc {
                let nl = h.legacy() && (strip_nonlatin(c.user).is_empty() || strip_nonlatin(owner_eff).is_empty());
                push(&mut f, if nl { "reload-stays-encrypted-nonlatin" } else { "reload-stays-encrypted" },
                     format!("neither password is empty (user {:?}, owner {:?}) but the loader decrypted the file without a password", short(c.user), short(owner_eff)));
            } else {
                expect_decrypts(h, &orig, pre, &loaded, enc_id, c.user, false, "reload-user", &mut f);
                expect_decrypts(h, &orig, pre, &loaded, enc_id, owner_eff, false, "reload-owner", &mut f);
                expect_rejects(h, &loaded, c.user, owner_eff, tag, &mut f);
            }
        }
    }
    f
}

// ---------------------------------------------------------------------------------------------------------------
// the run
// ---------------------------------------------------------------------------------------------------------------

#[derive(Clone, Copy, PartialEq)]
enum DocSel { All, Core, Lit, Pairs }

struct Config { h: Handler, user: String, owner: String, sel: DocSel, ids: &'static [(u32, u16)], both_formats: bool, all_layouts: bool, anchor: bool, edits: bool }

/// the documents used with every password pair under V5 (whose password hash, ISO algorithm 2.B, costs about a millisecond per evaluation)
fn is_core(d: &DocS) -> bool { d.label == "full" || d.label == "single:lit-33@7.3" || d.label == "file:objstm/full" }

struct CaseOut { nontrivial: bool, fails: Vec<(String, String, Value)>, sample: String, group: String }

fn run_config(cfg: &Config) -> Vec<CaseOut> {
    let docs: Vec<DocS> = match cfg.sel {
        DocSel::Pairs => docs_b(&cfg.h),
        DocSel::All => docs_a(&cfg.h, cfg.ids, cfg.all_layouts, cfg.anchor, cfg.edits),
        DocSel::Core => docs_a(&cfg.h, cfg.ids, cfg.all_layouts, cfg.anchor, cfg.edits).into_iter().filter(is_core).collect(),
        DocSel::Lit => docs_a(&cfg.h, cfg.ids, cfg.all_layouts, cfg.anchor, cfg.edits).into_iter().filter(|d| d.label == "single:lit-33@7.3").collect(),
    };
    // R5/V5 states do not depend on the document: build once (the key-derivation hash is the expensive part)
    let shared = if cfg.h.legacy() { None } else { catch(|| make_state(&cfg.h, &Document::with_version("1.7"), &cfg.user, &cfg.owner)).ok().and_then(|r| r.ok()) };
    let formats: &[bool] = if cfg.both_formats { &[false, true] } else { &[false] };
    let one = |d: &DocS| -> CaseOut {
        let c = Case { h: &cfg.h, user: &cfg.user, owner: &cfg.owner, doc: d };
        let both = [false, true];
        let fm: &[bool] = if d.label.starts_with("full") { &both } else { formats };
        let fails = check_case(&c, shared.as_ref(), fm);
        let nontrivial = d.objects.iter().any(|(_, o)| has_payload(o)) || !d.edit.is_empty();
        CaseOut {
            nontrivial,
            fails: fails.into_iter().map(|(ob, det)| { let j = case_json(&c, &ob); (ob, det, j) }).collect(),
            sample: format!("{} user={:?} owner={:?} doc={}", cfg.h.describe(), short(&cfg.user), short(&cfg.owner), d.label),
            group: format!("{:?} StmF={} StrF={} em={} user={:?} owner={:?}", cfg.h.kind, cfg.h.stm, cfg.h.strf, cfg.h.em, short(&cfg.user), short(&cfg.owner)),
        }
    };
    // long configurations (V5, pairs) are split further so that no single task dominates the run; order is preserved
    if cfg.h.kind == Kind::V5 || docs.len() > 200 { docs.par_iter().map(one).collect() } else { docs.iter().map(one).collect() }
}

fn has_payload(o: &Object) -> bool {
    match o {
        Object::String(s, _) => !s.is_empty(),
        Object::Stream(s) => !s.content.is_empty(),
        Object::Array(a) => a.iter().any(has_payload),
        Object::Dictionary(d) => d.iter().any(|(_, v)| has_payload(v)),
        _ => false,
    }
}

fn configs(thorough: bool) -> Vec<Config> {
    let mut out = vec![];
    let pws = password_pairs();
    for h0 in handlers(thorough) {
        let v5 = h0.kind == Kind::V5;
        let perms = if thorough { vec![PERM_ALL, 0, 0x14, 0x528] } else if v5 { vec![PERM_ALL] } else { vec![PERM_ALL, 0x14] };
        for p in perms {
            for (u, o) in &pws {
                let mut h = h0.clone();
                h.perms = p;
                let anchor = p == PERM_ALL && u == "user" && o == "owner";
                // thorough: the full cross product except for V5; quick: password dimension on the core documents, document dimension on the anchor configuration
                let sel = if anchor { DocSel::All } else if thorough { if v5 { DocSel::Core } else { DocSel::All } } else if v5 { DocSel::Lit } else { DocSel::Core };
                let ids = if thorough && !v5 { SINGLE_IDS_THOROUGH } else { SINGLE_IDS_QUICK };
                out.push(Config { h, user: u.clone(), owner: o.clone(), sel, ids, both_formats: thorough && !v5, all_layouts: thorough && u == "user" && o == "owner", anchor, edits: p == PERM_ALL });
            }
        }
    }
    // the 127-byte boundary family of revisions 5/6: the password dimension, on the core documents (V5: the string alone)
    let bps = boundary_pairs(thorough);
    for h0 in handlers(thorough) {
        if h0.legacy() { continue; }
        let v5 = h0.kind == Kind::V5;
        // V5: one permission set in both tiers (its hash, algorithm 2.B, costs several milliseconds for a 127-byte password)
        let perms = if v5 { vec![PERM_ALL] } else if thorough { vec![PERM_ALL, 0, 0x14, 0x528] } else { vec![PERM_ALL, 0x14] };
        for p in perms {
            for (u, o) in &bps {
                let mut h = h0.clone();
                h.perms = p;
                out.push(Config { h, user: u.clone(), owner: o.clone(), sel: if v5 { DocSel::Lit } else { DocSel::Core }, ids: SINGLE_IDS_QUICK, both_formats: false, all_layouts: false, anchor: false, edits: false });
            }
        }
    }
    if thorough {
        // family B: ordered pairs of alphabet objects, one password pair, all permissions
        for h0 in handlers(false) {
            let v5 = h0.kind == Kind::V5;
            if v5 && !(h0.em && h0.stm == "StdCF" && h0.strf == "StdCF") { continue; }
            let mut h = h0.clone();
            h.perms = PERM_ALL;
            out.push(Config { h, user: "user".into(), owner: "owner".into(), sel: DocSel::Pairs, ids: SINGLE_IDS_QUICK, both_formats: !v5, all_layouts: false, anchor: false, edits: false });
        }
    }
    out
}

const BOUND: &str = "cases = (security handler, permission set, (user, owner) password pair, document); every listed set is enumerated completely. \
HANDLERS: V1; V2 with every key length 40,48..128; V4 with CF {FRc4:V2, FAes:AESV2, FId:Identity} and StmF x StrF over {FRc4,FAes,FId,/Identity (not in CF)} x EncryptMetadata {t,f}; \
R5 and V5 (AES-256, CF {StdCF:AESV3, FId:Identity}) with StmF x StrF over {StdCF,FId} (thorough: + /Identity) x EncryptMetadata {t,f}, fixed 32-byte file key (thorough: + the all-zero key with StdCF/StdCF). \
PERMISSIONS: {all, print+copy} (thorough: + none, modify+annotate+fill+assemble). \
PASSWORDS: 12 shared pairs: both empty, empty user, empty owner, ASCII distinct, owner == user, Latin-1, Cyrillic, CJK user, 40-byte pair, pair sharing a 32-byte prefix, 130-byte ASCII pair, 128-byte ASCII pair sharing a 127-byte prefix. \
BOUNDARY PASSWORDS (R5 and V5 only, whose algorithms use the first 127 bytes of the SASLprep'd UTF-8 password): a password = 1 ASCII letter (u / o) + 0..3 ASCII digits + characters of one width w, \
for w in {2 (U+043F), 3 (U+65E5), 4 (U+20000)} (all unchanged by SASLprep), laid out so that byte 127 (the first byte cut off) is byte `phase` of a character, for EVERY phase 0..w-1 (0 = cut between characters, \
otherwise inside one), ending with that character (tail 0, 127+w-phase bytes) or 5 characters later (tail 5); plus the 127-byte password of each width (nothing cut off). \
Quick, 18 pairs: per w the 127-byte pair; per (w, phase) (user tail 0, owner tail 5); per w (user phase 1 tail 0, \"owner\") and (\"user\", owner phase w-1 tail 0). \
Thorough, 39 pairs: per w the 127-byte pair; per (w, phase) (user tail 0, owner tail 5), (user tail 5, owner tail 0), (user tail 0, \"owner\"), (\"user\", owner tail 0). \
DOCUMENTS: each object of an alphabet of 38 (V1,V2), 41 (R5,V5) or 44 (V4) objects alone at id 7 3 (thorough, not V5: at each of 1 0, 7 3, 300 65535): empty/5/15/16/17/33-byte literal and hex strings, \
strings nested in arrays and dictionaries to depth 3 beside names, numbers, null and (dangling) references, empty/5/15/16/300-byte binary streams, Metadata stream (also empty), stream with a string in its dictionary, \
plain dictionaries of /Type /Metadata (top level and nested), XRef-typed stream, \
objects typed as file structure that a loaded document keeps: /Type /ObjStm streams (a well-formed object stream of 2 objects with strings, stored and Flate-compressed; the empty one with /N 0; one with 40 arbitrary bytes and no /N /First) and a dictionary with a /Linearized key holding a string, \
streams with /Filter /Crypt (name and array form) and DecodeParms /Name = each CF name (also with empty content) / missing / unknown / no DecodeParms; \
STREAM DICTIONARY x STREAM CLASS: one stream of every class of the rule that governs stream data - default filter (the 300-byte stream), Metadata stream (exempt iff EncryptMetadata is false), XRef-typed stream (exempt), \
well-formed object stream, /Crypt override with /Name = each CF name / missing / unknown / no DecodeParms - again with strings in its dictionary: a 30-byte literal string under /Note and, under /Notes, an array holding an 18-byte hex string and a dictionary with a 21-byte and an empty string \
(expected: encrypted with StrF and restored like every other string whatever happens to the stream data; in the XRef-typed stream: untouched; a string left in clear in the dictionary of a clear Metadata stream is reported as metadata-stream-dict-string-encrypted); \
one string at id 16777221 1 (memory only); the document holding the whole alphabet at sparse ids with generations 0 and 2 (R5/V5: also without /ID). \
PROVENANCE of the document (built = the objects are inserted into a fresh Document; file:<layout> = the harness writes a PDF 1.5 file with its own serializer and the ORIGINAL is what Document::load_mem returns for it, \
so it keeps the file's object streams and cross-reference stream as objects, compressed entries in reference_table and the cross-reference stream's keys in the trailer; a failed or lossy load is reported as precondition-file-loads): \
layouts {table (classic cross-reference table), xrefstm (cross-reference stream, W [1 4 2], /Index by runs), objstm (+ every non-stream object of generation 0 in one object stream numbered after the highest id), \
objstm-flate (that object stream Flate-compressed), objstm-x2 (those objects alternating over two object streams)}. File documents: the whole-alphabet document in each of the 5 layouts (R5/V5: also without /ID in layout objstm), \
each alphabet object alone at id 7 0 in layout objstm (thorough, password pair (user, owner): in each of the 5 layouts). All other documents are built. \
HISTORY of the document (what happened between load and encrypt; the ORIGINAL of the round trip is the document as it is right before encrypt, so an edited object must come back as edited, a removed object must stay removed, an added one must stay; \
an edit works on the objects that are not file structure, k = 0, 1, .. in id order): edits {strings (every string of every object, stream dictionaries included, becomes \"edited:\" + its bytes reversed, every stream content likewise), \
strings-alt (the same for the objects of odd k only), replace (every object of even k becomes a new dictionary holding a string), delete (every object with k divisible by 3 is removed from Document::objects), add (two Document::add_object calls: a dictionary with strings, a stream with a string in its dictionary)}. \
Edited documents (only with the permission set `all`: the permission word takes no part in what encrypt and decrypt do to an object): the whole-alphabet document loaded from file:objstm with each of the 5 edits (password pair (user, owner): from each of the 5 layouts); \
thorough, (user, owner): also each alphabet object alone at id 7 0 loaded from file:objstm with the edits strings and replace. \
A wrongly restored object that equals its state before the edit is reported as <mem|reload>-edit-reverted, a removed object that is back as ...-deleted-object-back. \
QUICK = handlers x permissions (V5: all only) x shared passwords x {33-byte string alone, whole-alphabet document built, whole-alphabet document from file:objstm} (V5: string only)  UNION  handlers x {all} x {(user, owner)} x all documents  UNION  \
{R5, V5 handlers} x permissions (V5: all only) x boundary passwords x {33-byte string alone, whole-alphabet document built and from file:objstm} (V5: string only). \
THOROUGH = handlers x permissions x shared passwords x all documents (V5, whose password hash costs ~1.5 ms: x {string alone, whole-alphabet document built and from file:objstm}, plus {all} x {(user, owner)} x all documents)  UNION  \
{R5, V5 handlers} x permissions (V5: all only) x boundary passwords x {33-byte string alone, whole-alphabet document built and from file:objstm} (V5: string only)  UNION  \
quick-tier handlers (V5: StdCF/StdCF/EncryptMetadata only) x {all} x {(user, owner)} x all ordered pairs of alphabet objects as a built two-object document (ids 2 0 and 9 1). \
EACH CASE: EncryptionState::try_from, encrypt, model check of every string/stream ciphertext and of the encryption dictionary, in memory decrypt with the user password, the owner password and 3-7 wrong passwords \
(a fixed ASCII word, a Cyrillic word, the empty string if neither password is empty, each password with one character appended or, if longer than 20 characters, its first character replaced; \
R5/V5: also each password of more than 127 bytes whose byte 127 lies inside a character, cut before that character - shorter than the 127 significant bytes, so a different password), \
save (xref table; built whole-alphabet document and thorough except V5: also xref stream) + load_mem + the same decrypts, or the auto-decrypt expectation when the user or owner password is empty. \
In memory every object of the original, file-structure objects included, must come back (a Flate-compressed object stream that comes back decoded is reported as mem-compressed-objstm-restored); \
after save + load the objects typed ObjStm / XRef / Linearized, which no writer carries over, are not compared. \
NOT ENUMERATED: edits of built documents (they give documents of the built family), edits of file-structure objects (ObjStm / XRef streams, reference_table), sequences of more than one edit, edits crossed with the boundary password pairs or with a permission set other than `all` (quick: nor with the shared password pairs other than (user, owner)), Metadata streams with dictionary strings in documents with more than one Metadata stream, files with incremental updates, hybrid-reference files, linearized files, object streams with /Extends, files loaded with a filter function, documents already encrypted in the file (their round trip starts with decrypt), documents whose max_id is below an existing id, passwords that SASLprep prohibits or changes (where the 127-byte cut falls elsewhere in the prepared form than in the given one), boundary passwords mixing character widths, documents without /ID under V1-V4 (the key derivation needs it), incremental saves";

pub fn run(thorough: bool) -> Report {
    let mut rep = Report::new(BOUND, true);
    let mut cfgs = configs(thorough);
    if let Ok(only) = std::env::var("C05_ONLY") { cfgs.retain(|c| format!("{:?}", c.h.kind).starts_with(&only)); } // debugging aid: restrict to one handler kind
    let prev = std::panic::take_hook();
    std::panic::set_hook(Box::new(|_| {}));
    let results: Vec<Vec<CaseOut>> = cfgs.par_iter().map(run_config).collect();
    std::panic::set_hook(prev);
    let mut n = 0u64;
    let stats = std::env::var("C05_STATS").is_ok();
    let mut agg: BTreeMap<(String, String), (u64, String)> = BTreeMap::new();
    for cfg_out in results {
        for c in cfg_out {
            if stats { for (ob, det, _) in &c.fails { let e = agg.entry((ob.clone(), c.group.clone())).or_insert((0, format!("{} :: {}", c.sample, det))); e.0 += 1; } }
            rep.case(c.nontrivial);
            n += 1;
            if n % 9973 == 1 { rep.sample(c.sample.clone()); }
            for (ob, det, input) in c.fails { rep.fail(&ob, det.clone(), input, det); }
        }
    }
    if stats { for ((ob, g), (k, first)) in &agg { eprintln!("{:6} {} | {} | first: {}", k, ob, g, first); } }
    rep
}

pub fn replay(v: &Value) -> Result<(), String> {
    let h = Handler::from_json(&v["handler"]);
    let doc = doc_from_json(&v["doc"]);
    let user = v["user"].as_str().unwrap_or("").to_string();
    let owner = v["owner"].as_str().unwrap_or("").to_string();
    let c = Case { h: &h, user: &user, owner: &owner, doc: &doc };
    let prev = std::panic::take_hook();
    std::panic::set_hook(Box::new(|_| {}));
    let fails = check_case(&c, None, &[false, true]);
    std::panic::set_hook(prev);
    let want = v["obligation"].as_str().unwrap_or("");
    match fails.iter().find(|x| want.is_empty() || x.0 == want) {
        Some((ob, det)) => Err(format!("{}: {}", ob, det)),
        None => Ok(()),
    }
}
