//! C19: saving reports sink failures and ignores sink chunking (every failure offset, every chunking, Interrupted).
use crate::c03::{spec_from_json, spec_json};
use crate::common::*;
use crate::gen::*;
use crate::sinks::{Mode, Sink};
use lopdf::{Document, IncrementalDocument};
use serde_json::{json, Value};

fn save_plain(spec: &DocSpec, sink: &mut Sink) -> (Result<Result<(), std::io::Error>, String>, Document) {
    let mut d = build(spec);
    let r = guarded(std::panic::AssertUnwindSafe(|| d.save_to(sink)));
    (r, d)
}

fn make_inc(spec: &DocSpec) -> IncrementalDocument {
    let base_spec = DocSpec { objects: vec![((1, 0), name(b"Base")), ((2, 0), lit(b"old"))], xref_stream: spec.xref_stream, version: "1.5".into(), extra_trailer: false, max_id_slack: 0 };
    let mut base = vec![];
    build(&base_spec).save_to(&mut base).unwrap();
    let prev = Document::load_mem(&base).unwrap();
    let mut inc = IncrementalDocument::create_from(base, prev);
    for (id, o) in &spec.objects {
        inc.new_document.objects.insert((id.0 + 10, id.1), o.clone());
        inc.new_document.max_id = inc.new_document.max_id.max(id.0 + 10);
    }
    inc
}

fn run(spec: &DocSpec, incremental: bool, mode: Mode) -> (Result<Result<(), std::io::Error>, String>, Sink, Option<Document>) {
    let mut sink = Sink::new(mode);
    if incremental {
        let mut inc = make_inc(spec);
        let r = guarded(std::panic::AssertUnwindSafe(|| inc.save_to(&mut sink)));
        (r, sink, None)
    } else {
        let (r, d) = save_plain(spec, &mut sink);
        (r, sink, Some(d))
    }
}

pub fn check(spec: &DocSpec, incremental: bool, thorough: bool, rep: &mut Report) -> Option<(String, String, Value)> {
    let input = |mode: &str, n: usize| json!({"spec": spec_json(spec), "incremental": incremental, "mode": mode, "n": n});
    let (r, reference, _) = run(spec, incremental, Mode::Healthy);
    match r { Ok(Ok(())) => {}, other => return Some(("healthy-save".into(), format!("{:?}", other.map(|x| x.map_err(|e| e.to_string()))), input("healthy", 0))) }
    let full = reference.delivered;
    // 1. chunkings
    let ks: Vec<usize> = if thorough { (1..=9).chain([13, 64, 4096]).collect() } else { vec![1, 3, 19] };
    for k in ks {
        let (r, s, _) = run(spec, incremental, Mode::Chunk(k));
        rep.case(true);
        match r {
            Ok(Ok(())) => { if s.delivered != full { return Some(("chunking-independent".into(), format!("output differs from the unchunked output when the sink accepts {} bytes per call (first difference at {})", k, first_diff(&s.delivered, &full)), input("chunk", k))); } }
            other => return Some(("chunking-independent".into(), format!("save failed under chunking {}: {:?}", k, other.map(|x| x.map_err(|e| e.to_string()))), input("chunk", k))),
        }
    }
    // 2. every failure offset, hard error and zero-length write
    let step = if thorough || full.len() < 400 { 1 } else { 7 };
    let mut n = 0;
    while n < full.len() {
        for (mname, mode) in [("fail", Mode::FailAt(n)), ("zero", Mode::ZeroAt(n))] {
            let (r, s, d) = run(spec, incremental, mode);
            rep.case(true);
            match r {
                Err(p) => return Some(("failure-no-panic".into(), format!("panic: {}", p), input(mname, n))),
                Ok(Ok(())) => return Some(("failure-reported".into(), format!("save returned Ok although the sink failed after {} of {} bytes", n, full.len()), input(mname, n))),
                Ok(Err(_)) => {}
            }
            if !full.starts_with(&s.delivered) { return Some(("delivered-is-prefix".into(), format!("bytes delivered before the failure at {} are not a prefix of the complete output", n), input(mname, n))); }
            if let Some(mut d) = d {
                // a later save of the same document value to a healthy sink gives a file that loads to the same content
                if n % 5 == 0 {
                    let mut again = vec![];
                    if d.save_to(&mut again).is_err() { return Some(("save-again".into(), "second save failed".into(), input(mname, n))); }
                    if let Err(e) = crate::c01::loads_to(&again, &build(spec)) { return Some(("save-again-loads".into(), e, input(mname, n))); }
                }
            }
        }
        n += step;
    }
    // 3. transient Interrupted at every call index must be retried transparently
    let calls = reference.calls;
    let cstep = if thorough || calls < 200 { 1 } else { 5 };
    let mut c = 0;
    while c < calls {
        let (r, s, _) = run(spec, incremental, Mode::InterruptAt(c, 1 << 20));
        rep.case(true);
        match r {
            Ok(Ok(())) => { if s.delivered != full { return Some(("interrupted-transparent".into(), format!("output differs after an Interrupted result at call {}", c), input("interrupt", c))); } }
            other => return Some(("interrupted-transparent".into(), format!("Interrupted at sink call {} was not retried: {:?}", c, other.map(|x| x.map_err(|e| e.to_string()))), input("interrupt", c))),
        }
        c += cstep;
    }
    None
}

fn first_diff(a: &[u8], b: &[u8]) -> usize { a.iter().zip(b.iter()).position(|(x, y)| x != y).unwrap_or(a.len().min(b.len())) }

pub fn sinks(thorough: bool) -> Report {
    let mut rep = Report::new("documents: every 9th (quick) / every 2nd (thorough) of gen::docs x plain+incremental; every failure offset (stride 7 beyond 400 bytes in quick) x {hard error, zero-length write}; chunk sizes {1,3,19} (quick) / 1..9,13,64,4096; Interrupted at every sink call", false);
    let specs = docs(false);
    let stride = if thorough { 2 } else { 9 };
    for (k, s) in specs.iter().enumerate() {
        if k % stride != 0 { continue; }
        for inc in [false, true] {
            if let Some((ob, d, input)) = check(s, inc, thorough, &mut rep) {
                rep.fail(&ob, d.clone(), input, d);
            }
        }
        if rep.evaluations % 50 < 3 { rep.sample(describe(s)); }
    }
    rep
}

pub fn replay(v: &Value) -> Result<(), String> {
    let s = spec_from_json(&v["spec"]);
    let mut rep = Report::new("", false);
    match check(&s, v["incremental"].as_bool().unwrap_or(false), true, &mut rep) { None => Ok(()), Some((o, d, _)) => Err(format!("{}: {}", o, d)) }
}
