//! C19: saving reports sink failures and ignores sink chunking (every failure offset, every chunking, Interrupted).
//!
//! Family of sinks that fail. "The sink fails at any point" fixes neither how much of the crossing write the sink takes
//! nor what the sink does with calls made after the failure, so both are dimensions of the family:
//!   limit n        every byte offset of the complete output
//!   kind           hard error | zero-length write
//!   granularity    split: the write that crosses n is accepted up to n, the next call fails
//!                  whole: a write that does not fit below n is rejected as a whole (all-or-nothing sink)
//!   persistence    forever: every later call fails too
//!                  once: exactly one call fails, every later call is accepted (one-shot error; the most permissive sink:
//!                        any non-empty write made after the failure is delivered)
//!                  while-too-big (whole only): fixed capacity n, each call judged alone: rejected iff it does not fit
//! The oracle is the property statement itself: no panic, save returns Err, delivered bytes are a prefix of the output
//! of the healthy save, and a later save of the same document value loads to the same content.
//!
//! Family of document histories ("the same document" is a value with a past, and "a later save" is any of the saves the
//! property quantifies over, plain and incremental):
//!   origin         built: the document value was built in memory (never saved, never loaded)
//!                  own: it was loaded from the file lopdf itself writes for it
//!                  foreign: it was loaded from a file of another producer (independent writer below: comment line before
//!                           every object, spaces inside dictionaries and arrays, blank line after endobj, so that no
//!                           offset of the file coincides with an offset of lopdf's output)
//!                  revised: it was loaded from a file of two revisions (base + incremental update holding the objects)
//!   later save     plain: save_to of the same value to a healthy sink (every origin)
//!                  update: the same value handed to IncrementalDocument::create_from together with the bytes it was
//!                          loaded from, one object added, saved to a healthy sink (origins with a file)
//!                  retry: the same IncrementalDocument saved again (failed save was an incremental save)
//! The later save is valid iff the file loads to the content the document had before the failed save (plus the added
//! object for an update; an update must also start with the original bytes).
//!
//! Family of documents: gen::docs, plus a family in which dictionary KEYS range over the name alphabet (gen::docs only
//! uses ASCII keys although keys are names, i.e. arbitrary byte strings) in every place a dictionary can occur.
use crate::c03::{obj_from_json, obj_json, spec_from_json};
use crate::common::*;
use crate::gen::*;
use crate::sinks::{Mode, Sink};
use lopdf::{Document, IncrementalDocument, Object, Stream};
use serde_json::{json, Value};
use std::cell::RefCell;
use std::collections::HashSet;
use std::io::Write;
use std::sync::atomic::{AtomicUsize, Ordering};
use std::sync::Mutex;

// ---------------------------------------------------------------------------------------------------------------------
// documents

/// a document of the family: a gen::DocSpec plus trailer entries (gen::build cannot express arbitrary trailer keys)
#[derive(Clone)]
pub struct Case {
    pub spec: DocSpec,
    pub trailer: Vec<(Vec<u8>, Object)>,
}

fn build_case(c: &Case) -> Document {
    let mut d = build(&c.spec);
    for (k, v) in &c.trailer { d.trailer.set(k.clone(), v.clone()); }
    d
}

/// key alphabet: every name of the leaf alphabet, plus the byte classes of names that are text in some encoding or in none
pub fn key_alphabet() -> Vec<Vec<u8>> {
    let mut keys: Vec<Vec<u8>> = leaves().into_iter().filter_map(|o| match o { Object::Name(n) => Some(n), _ => None }).collect();
    keys.push(b"Caf\xe9".to_vec());             // Latin-1 (PDFDocEncoding) text, not UTF-8
    keys.push("\u{e9}t\u{e9}".as_bytes().to_vec()); // UTF-8 multi-byte text
    keys.push(b"\x80".to_vec());                // lone continuation byte
    keys.push(b"K\xc3".to_vec());               // truncated multi-byte sequence
    keys
}

const POSITIONS: [&str; 5] = ["object dictionary", "dictionary nested in a dictionary", "dictionary inside an array", "stream dictionary", "trailer"];

fn key_values(key: &[u8]) -> Vec<Object> {
    vec![
        Object::Integer(-42),
        lit(b"plain text"),
        Object::Name(key.to_vec()),
        Object::Array(vec![Object::Integer(1), lit(b"(")]),
        Object::Dictionary(dict(vec![(key, Object::Null)])),
        Object::Reference((1, 0)),
    ]
}

fn key_doc(key: &[u8], position: usize, value: Object, xref_stream: bool) -> Case {
    let entry = dict(vec![(key, value.clone())]);
    let mut trailer = vec![];
    let first = match position {
        0 => Object::Dictionary(dict(vec![(key, value), (b"Z", Object::Integer(1))])),
        1 => Object::Dictionary(dict(vec![(b"Outer", Object::Dictionary(entry))])),
        2 => Object::Array(vec![Object::Integer(7), Object::Dictionary(entry)]),
        3 => Object::Stream(Stream::new(entry, b"stream body".to_vec())),
        _ => { trailer.push((key.to_vec(), value)); Object::Dictionary(dict(vec![(b"Type", name(b"Catalog"))])) }
    };
    Case { spec: DocSpec { objects: vec![((1, 0), first), ((2, 0), lit(b"after"))], xref_stream, version: "1.5".into(), extra_trailer: false, max_id_slack: 0 }, trailer }
}

/// key x position x value kind x xref format; quick takes one value kind per (key, position) so that every value kind
/// meets every key and every position (Latin square), thorough takes the full product
pub fn key_docs(thorough: bool) -> Vec<Case> {
    let mut out = vec![];
    for xs in [false, true] {
        for (ki, key) in key_alphabet().iter().enumerate() {
            for p in 0..POSITIONS.len() {
                let vals = key_values(key);
                for (vi, v) in vals.iter().enumerate() {
                    if thorough || vi == (ki + p) % vals.len() { out.push(key_doc(key, p, v.clone(), xs)); }
                }
            }
        }
    }
    out
}

fn holds_stream(s: &DocSpec) -> bool { s.objects.iter().any(|(_, o)| matches!(o, Object::Stream(_))) }

fn case_json(c: &Case) -> Value {
    let s = &c.spec;
    json!({"xref_stream": s.xref_stream, "version": s.version, "slack": s.max_id_slack, "extra_trailer": s.extra_trailer,
           "objects": s.objects.iter().map(|(id, o)| json!({"id": id.0, "gen": id.1, "obj": obj_json(o)})).collect::<Vec<_>>()})
}

// ---------------------------------------------------------------------------------------------------------------------
// where the document value comes from

#[derive(Clone, Copy, PartialEq, Debug)]
pub enum Origin { Built, Own, Foreign, Revised }

impl Origin {
    fn tag(self) -> &'static str { match self { Origin::Built => "built", Origin::Own => "own", Origin::Foreign => "foreign", Origin::Revised => "revised" } }
    fn from_tag(t: &str) -> Origin { match t { "own" => Origin::Own, "foreign" => Origin::Foreign, "revised" => Origin::Revised, _ => Origin::Built } }
    fn words(self) -> &'static str {
        match self {
            Origin::Built => "document built in memory",
            Origin::Own => "document loaded from the file lopdf writes for it",
            Origin::Foreign => "document loaded from another producer's file (comment before every object, spaces inside dictionaries)",
            Origin::Revised => "document loaded from a file of two revisions (base + incremental update)",
        }
    }
}

fn put_name(out: &mut Vec<u8>, n: &[u8]) {
    out.push(b'/');
    for &b in n {
        if (0x21..0x7f).contains(&b) && !b"()<>[]{}/%#".contains(&b) { out.push(b); } else { out.extend_from_slice(format!("#{:02X}", b).as_bytes()); }
    }
}

fn put_dict(out: &mut Vec<u8>, d: &lopdf::Dictionary) {
    out.extend_from_slice(b"<< ");
    for (k, v) in d.iter() { put_name(out, k); out.push(b' '); put_obj(out, v); out.push(b' '); }
    out.extend_from_slice(b">>");
}

/// another producer's spelling of an object (ISO 32000-1 7.3), written without any code of lopdf
fn put_obj(out: &mut Vec<u8>, o: &Object) {
    match o {
        Object::Null => out.extend_from_slice(b"null"),
        Object::Boolean(b) => out.extend_from_slice(if *b { b"true" } else { b"false" }),
        Object::Integer(i) => out.extend_from_slice(i.to_string().as_bytes()),
        Object::Real(r) => { let t = format!("{}", r); out.extend_from_slice(t.as_bytes()); if !t.contains('.') { out.extend_from_slice(b".0"); } }
        Object::Name(n) => put_name(out, n),
        Object::String(b, lopdf::StringFormat::Literal) => {
            out.push(b'(');
            for &c in b {
                match c { b'\\' | b'(' | b')' => { out.push(b'\\'); out.push(c); } 0x20..=0x7e => out.push(c), _ => out.extend_from_slice(format!("\\{:03o}", c).as_bytes()) }
            }
            out.push(b')');
        }
        Object::String(b, lopdf::StringFormat::Hexadecimal) => { out.push(b'<'); for c in b { out.extend_from_slice(format!("{:02x} ", c).as_bytes()); } out.push(b'>'); }
        Object::Array(a) => { out.extend_from_slice(b"[ "); for x in a { put_obj(out, x); out.push(b' '); } out.push(b']'); }
        Object::Dictionary(d) => put_dict(out, d),
        Object::Stream(s) => {
            let mut d = s.dict.clone();
            d.set("Length", s.content.len() as i64);
            put_dict(out, &d);
            out.extend_from_slice(b"\nstream\r\n");
            out.extend_from_slice(&s.content);
            out.extend_from_slice(b"\r\nendstream");
        }
        Object::Reference(id) => out.extend_from_slice(format!("{} {} R", id.0, id.1).as_bytes()),
    }
}

/// the file another producer writes for the document: same objects, trailer entries, version and cross-reference format
fn foreign_file(d: &Document) -> Vec<u8> {
    let xs = matches!(d.reference_table.cross_reference_type, lopdf::xref::XrefType::CrossReferenceStream);
    let mut out = format!("%PDF-{}\n", d.version).into_bytes();
    out.extend_from_slice(b"%\xE2\xE3\xCF\xD3\n% written by another producer\n");
    // (object number, offset, generation)
    let mut rows: Vec<(u32, usize, u16)> = vec![];
    for (id, o) in &d.objects {
        out.extend_from_slice(format!("% object {} follows\n", id.0).as_bytes());
        rows.push((id.0, out.len(), id.1));
        out.extend_from_slice(format!("{} {} obj\n", id.0, id.1).as_bytes());
        put_obj(&mut out, o);
        out.extend_from_slice(b"\nendobj\n\n");
    }
    let start = out.len();
    let mut trailer = d.trailer.clone();
    let sid = d.max_id + 1;
    if xs { rows.push((sid, start, 0)); }
    rows.sort();
    trailer.set("Size", (if xs { sid + 1 } else { d.max_id + 1 }) as i64);
    // runs of consecutive object numbers; object 0 heads the free list
    let mut runs: Vec<Vec<(u32, usize, u16)>> = vec![vec![(0, 0, 65535)]];
    for r in &rows {
        let last = runs.last_mut().unwrap();
        if last.last().unwrap().0 + 1 == r.0 { last.push(*r); } else { runs.push(vec![*r]); }
    }
    if xs {
        let mut index = vec![];
        let mut body = vec![];
        for run in &runs {
            index.push(Object::Integer(run[0].0 as i64));
            index.push(Object::Integer(run.len() as i64));
            for (n, off, g) in run {
                body.push(if *n == 0 { 0 } else { 1 });
                body.extend_from_slice(&(*off as u32).to_be_bytes());
                body.extend_from_slice(&g.to_be_bytes());
            }
        }
        trailer.set("Type", name(b"XRef"));
        trailer.set("W", Object::Array(vec![Object::Integer(1), Object::Integer(4), Object::Integer(2)]));
        trailer.set("Index", Object::Array(index));
        out.extend_from_slice(format!("{} 0 obj\n", sid).as_bytes());
        put_obj(&mut out, &Object::Stream(Stream::new(trailer, body)));
        out.extend_from_slice(b"\nendobj\n");
    } else {
        out.extend_from_slice(b"xref\n");
        for run in &runs {
            out.extend_from_slice(format!("{} {}\n", run[0].0, run.len()).as_bytes());
            for (n, off, g) in run { out.extend_from_slice(format!("{:010} {:05} {} \n", off, g, if *n == 0 { 'f' } else { 'n' }).as_bytes()); }
        }
        out.extend_from_slice(b"trailer\n");
        put_dict(&mut out, &trailer);
        out.push(b'\n');
    }
    out.extend_from_slice(format!("startxref\n{}\n%%EOF\n", start).as_bytes());
    out
}

/// the object a later incremental update adds
fn added_object() -> Object { Object::Dictionary(dict(vec![(b"Type", name(b"Annot")), (b"Contents", lit(b"note"))])) }

// ---------------------------------------------------------------------------------------------------------------------
// panics, usable from several threads (common::guarded swaps the process-wide hook on every call)

thread_local! { static PANIC_AT: RefCell<String> = RefCell::new(String::new()); }

fn with_hook<T>(f: impl FnOnce() -> T) -> T {
    let prev = std::panic::take_hook();
    std::panic::set_hook(Box::new(|info| {
        let at = info.location().map(|l| format!("{}:{}", l.file(), l.line())).unwrap_or_default();
        PANIC_AT.with(|p| *p.borrow_mut() = at);
    }));
    let r = f();
    std::panic::set_hook(prev);
    r
}

fn caught<T>(f: impl FnOnce() -> T) -> Result<T, String> {
    PANIC_AT.with(|p| p.borrow_mut().clear());
    std::panic::catch_unwind(std::panic::AssertUnwindSafe(f)).map_err(|e| {
        let msg = if let Some(s) = e.downcast_ref::<String>() { s.clone() } else if let Some(s) = e.downcast_ref::<&str>() { s.to_string() } else { "panic".to_string() };
        format!("{} at {}", msg, PANIC_AT.with(|p| p.borrow().clone()))
    })
}

// ---------------------------------------------------------------------------------------------------------------------
// sinks that fail

#[derive(Clone, Copy, PartialEq, Debug)]
pub enum Kind { Hard, Zero }
#[derive(Clone, Copy, PartialEq, Debug)]
pub enum Gran { Split, Whole }
#[derive(Clone, Copy, PartialEq, Debug)]
pub enum Persist { Forever, Once, WhileTooBig }

#[derive(Clone, Copy, PartialEq, Debug)]
pub struct Failing { pub limit: usize, pub kind: Kind, pub gran: Gran, pub persist: Persist }

impl Failing {
    fn all(limit: usize) -> Vec<Failing> {
        let mut v = vec![];
        for kind in [Kind::Hard, Kind::Zero] {
            for (gran, persist) in [(Gran::Split, Persist::Forever), (Gran::Split, Persist::Once), (Gran::Whole, Persist::Forever), (Gran::Whole, Persist::Once), (Gran::Whole, Persist::WhileTooBig)] {
                v.push(Failing { limit, kind, gran, persist });
            }
        }
        v
    }
    fn tag(&self) -> String {
        format!("{}/{}/{}", match self.kind { Kind::Hard => "fail", Kind::Zero => "zero" }, match self.gran { Gran::Split => "split", Gran::Whole => "whole" },
                match self.persist { Persist::Forever => "forever", Persist::Once => "once", Persist::WhileTooBig => "while-too-big" })
    }
    fn words(&self) -> String {
        format!("sink with limit {}: {}, answers {}, {}", self.limit,
                match self.gran { Gran::Split => "takes the part of the crossing write that fits", Gran::Whole => "rejects a write that does not fit as a whole" },
                match self.kind { Kind::Hard => "with a hard error", Kind::Zero => "Ok(0)" },
                match self.persist { Persist::Forever => "keeps failing afterwards", Persist::Once => "fails one call only and accepts every later call", Persist::WhileTooBig => "still accepts later writes that fit (fixed capacity)" })
    }
}

pub struct FailingSink {
    pub f: Failing,
    pub delivered: Vec<u8>,
    /// calls answered with the failure
    pub failures: usize,
}

impl FailingSink {
    fn new(f: Failing) -> FailingSink { FailingSink { f, delivered: vec![], failures: 0 } }
    fn fail(&mut self) -> std::io::Result<usize> {
        self.failures += 1;
        match self.f.kind { Kind::Hard => Err(std::io::Error::new(std::io::ErrorKind::Other, "sink failed")), Kind::Zero => Ok(0) }
    }
    fn take(&mut self, b: &[u8]) -> std::io::Result<usize> { self.delivered.extend_from_slice(b); Ok(b.len()) }
}

impl Write for FailingSink {
    fn write(&mut self, buf: &[u8]) -> std::io::Result<usize> {
        if buf.is_empty() { return Ok(0); }
        if self.failures > 0 {
            match self.f.persist {
                Persist::Forever => return self.fail(),
                Persist::Once => return self.take(buf),
                Persist::WhileTooBig => {}
            }
        }
        let room = self.f.limit.saturating_sub(self.delivered.len());
        match self.f.gran {
            Gran::Split => if room == 0 { self.fail() } else { self.take(&buf[..buf.len().min(room)]) },
            Gran::Whole => if buf.len() > room { self.fail() } else { self.take(buf) },
        }
    }
    fn flush(&mut self) -> std::io::Result<()> { Ok(()) }
}

// ---------------------------------------------------------------------------------------------------------------------
// the check

type Saved = Result<Result<(), std::io::Error>, String>;

/// the value a later save is made of
enum Later { Plain(Document), Inc(IncrementalDocument) }

struct Ctx<'a> {
    case: &'a Case,
    /// incremental save: bytes and loaded form of the previous revision
    base: Option<(Vec<u8>, Document)>,
    /// origins with a file: the bytes the document was loaded from and the document as loaded
    file: Option<(Vec<u8>, Document)>,
}

impl<'a> Ctx<'a> {
    fn base(case: &Case) -> (Vec<u8>, Document) {
        let base_spec = DocSpec { objects: vec![((1, 0), name(b"Base")), ((2, 0), lit(b"old"))], xref_stream: case.spec.xref_stream, version: "1.5".into(), extra_trailer: false, max_id_slack: 0 };
        let mut bytes = vec![];
        build(&base_spec).save_to(&mut bytes).unwrap();
        let prev = Document::load_mem(&bytes).unwrap();
        (bytes, prev)
    }
    fn new(case: &'a Case, incremental: bool) -> Ctx<'a> {
        Ctx { case, base: if incremental { Some(Ctx::base(case)) } else { None }, file: None }
    }
    /// Err: the file of this origin cannot be produced or does not load (then there is no document to speak of)
    fn with_origin(case: &'a Case, incremental: bool, origin: Origin) -> Result<Ctx<'a>, String> {
        let mut ctx = Ctx::new(case, incremental);
        let bytes = match origin {
            Origin::Built => return Ok(ctx),
            Origin::Own => { let mut b = vec![]; match caught(|| build_case(case).save_to(&mut b)) { Ok(Ok(())) => b, other => return Err(format!("healthy save failed: {}", show(other))) } }
            Origin::Foreign => foreign_file(&build_case(case)),
            Origin::Revised => {
                let two = Ctx::new(case, true);
                let (r, s) = two.run(Mode::Healthy);
                match r { Ok(Ok(())) => s.delivered, other => return Err(format!("healthy incremental save failed: {}", show(other))) }
            }
        };
        match caught(|| Document::load_mem(&bytes)) {
            Ok(Ok(d)) => { ctx.file = Some((bytes, d)); Ok(ctx) }
            Ok(Err(e)) => Err(format!("the file does not load: {}", e)),
            Err(p) => Err(format!("load panicked: {}", p)),
        }
    }
    /// the content of the document before any save
    fn content(&self) -> Document {
        if let Some((_, prev)) = &self.base {
            let mut e = prev.clone();
            for (id, o) in &self.case.spec.objects { e.objects.insert((id.0 + 10, id.1), o.clone()); }
            for (k, v) in &self.case.trailer { e.trailer.set(k.clone(), v.clone()); }
            return e;
        }
        match &self.file { Some((_, d)) => d.clone(), None => build_case(self.case) }
    }
    fn save<W: Write>(&self, sink: &mut W) -> (Saved, Later) {
        match &self.base {
            Some((bytes, prev)) => {
                let mut inc = IncrementalDocument::create_from(bytes.clone(), prev.clone());
                for (id, o) in &self.case.spec.objects {
                    inc.new_document.objects.insert((id.0 + 10, id.1), o.clone());
                    inc.new_document.max_id = inc.new_document.max_id.max(id.0 + 10);
                }
                for (k, v) in &self.case.trailer { inc.new_document.trailer.set(k.clone(), v.clone()); }
                let r = caught(|| inc.save_to(sink));
                (r, Later::Inc(inc))
            }
            None => {
                let mut d = match &self.file { Some((_, d)) => d.clone(), None => build_case(self.case) };
                let r = caught(|| d.save_to(sink));
                (r, Later::Plain(d))
            }
        }
    }
    fn run(&self, mode: Mode) -> (Saved, Sink) {
        let mut sink = Sink::new(mode);
        let (r, _) = self.save(&mut sink);
        (r, sink)
    }
}

fn show(r: Saved) -> String { format!("{:?}", r.map(|x| x.map_err(|e| e.to_string()))) }

fn loads_to(bytes: &[u8], content: &Document) -> Result<(), String> {
    let loaded = match caught(|| Document::load_mem(bytes)) { Ok(Ok(l)) => l, Ok(Err(e)) => return Err(format!("load failed: {}", e)), Err(p) => return Err(format!("load panicked: {}", p)) };
    crate::c01::compare(content, &loaded)
}

/// later save "update": the document goes to IncrementalDocument::create_from together with the bytes it was loaded from,
/// one object is added, the update is saved to a healthy sink. `content` is what the document held before any save.
fn later_update(original: &[u8], d: Document, content: &Document) -> Result<(), (String, String)> {
    let now = d.xref_start;
    let was = content.xref_start;
    let made = caught(move || {
        let mut inc = IncrementalDocument::create_from(original.to_vec(), d);
        let id = inc.new_document.add_object(added_object());
        let mut out = vec![];
        let r = inc.save_to(&mut out);
        (id, out, r)
    });
    let (id, out) = match made { Ok((id, out, Ok(()))) => (id, out), Ok((_, _, Err(e))) => return Err(("update-after-failure".into(), format!("save of the update failed: {}", e))), Err(p) => return Err(("update-after-failure".into(), format!("building or saving the update panicked: {}", p))) };
    if !out.starts_with(original) { return Err(("update-after-failure".into(), format!("the update ({} bytes) does not start with the {} bytes of the original file (first difference at {})", out.len(), original.len(), first_diff(&out, original)))); }
    let mut expected = content.clone();
    if expected.objects.insert(id, added_object()).is_some() { return Err(("update-after-failure".into(), format!("the added object got the number {} {} of an object of the document", id.0, id.1))); }
    loads_to(&out, &expected).map_err(|e| ("update-after-failure-loads".to_string(), format!("original file + update of one added object ({} {}): {} (Document::xref_start was {} when the document was loaded, the original file is {} bytes long, and it is {} at the time of the update)", id.0, id.1, e, was, original.len(), now)))
}

pub fn check(case: &Case, incremental: bool, origin: Origin, thorough: bool, rep: &mut Report) -> Option<(String, String, Value)> {
    let input = |mode: &str, n: usize| json!({"spec": case_json(case), "trailer": case.trailer.iter().map(|(k, v)| json!([hex(k), obj_json(v)])).collect::<Vec<_>>(),
                                               "incremental": incremental, "origin": origin.tag(), "mode": mode, "n": n});
    let ctx = match Ctx::with_origin(case, incremental, origin) {
        Ok(c) => c,
        // no document of this origin: nothing to save (reading is the business of other properties)
        Err(_) => { rep.case(false); return None; }
    };
    let content = ctx.content();
    let (r, reference) = ctx.run(Mode::Healthy);
    match r { Ok(Ok(())) => {}, other => return Some(("healthy-save".into(), show(other), input("healthy", 0))) }
    let full = reference.delivered;
    // control of the later save "update": without any failed save in between (if that does not work for this document,
    // which is the business of other properties, the failed save cannot be blamed and the update is left out)
    let updatable = match &ctx.file {
        Some((original, d)) => { rep.case(true); later_update(original, d.clone(), &content).is_ok() }
        None => false,
    };
    // 1. chunkings
    let ks: Vec<usize> = if thorough { (1..=9).chain([13, 64, 4096]).collect() } else { vec![1, 3, 19] };
    for k in ks {
        let (r, s) = ctx.run(Mode::Chunk(k));
        rep.case(true);
        match r {
            Ok(Ok(())) => { if s.delivered != full { return Some(("chunking-independent".into(), format!("output differs from the unchunked output when the sink accepts {} bytes per call (first difference at {})", k, first_diff(&s.delivered, &full)), input("chunk", k))); } }
            other => return Some(("chunking-independent".into(), format!("save failed under chunking {}: {}", k, show(other)), input("chunk", k))),
        }
    }
    // 2. every failure offset x kind x granularity x persistence
    let step = if thorough || full.len() < 400 { 1 } else { 7 };
    // later saves are a function of the value the failed save leaves behind: each distinct value (told apart by its Debug
    // rendering, which shows every field) is put through the later saves once
    let mut seen: HashSet<String> = HashSet::new();
    let mut n = 0;
    while n < full.len() {
        for f in Failing::all(n) {
            let mut s = FailingSink::new(f);
            let (r, d) = ctx.save(&mut s);
            // n < full.len(), so a writer that sends the complete output must meet the failure
            rep.case(s.failures > 0);
            match r {
                Err(p) => return Some(("failure-no-panic".into(), format!("save panicked instead of returning an error ({}; {} of {} bytes delivered): {}", f.words(), s.delivered.len(), full.len(), p), input(&f.tag(), n))),
                Ok(Ok(())) => return Some(("failure-reported".into(), format!("save returned Ok although the sink failed {} call(s) ({}; {} of {} bytes delivered)", s.failures, f.words(), s.delivered.len(), full.len()), input(&f.tag(), n))),
                Ok(Err(_)) => {}
            }
            if !full.starts_with(&s.delivered) {
                let at = first_diff(&s.delivered, &full);
                return Some(("delivered-is-prefix".into(), format!("the {} bytes delivered are not a prefix of the complete output ({} bytes): they differ from byte {} on, delivered {:?} where the complete output has {:?} ({}; {} call(s) failed; bytes sent after the reported failure were accepted)",
                    s.delivered.len(), full.len(), at, excerpt(&s.delivered, at), excerpt(&full, at), f.words(), s.failures), input(&f.tag(), n)));
            }
            if !seen.insert(match &d { Later::Plain(d) => format!("{:?}", d), Later::Inc(inc) => format!("{:?}", inc) }) { continue; }
            rep.case(true);
            // a later save of the same document value to a healthy sink gives a file that loads to the same content
            let after = format!("after a save that failed at byte {} of {} ({}; {})", s.delivered.len(), full.len(), f.words(), origin.words());
            match d {
                Later::Plain(mut d) => {
                    if let (true, Some((original, _))) = (updatable, &ctx.file) {
                        rep.case(true);
                        if let Err((ob, e)) = later_update(original, d.clone(), &content) { return Some((ob, format!("{} {}", e, after), input(&f.tag(), n))); }
                    }
                    let mut again = vec![];
                    match caught(|| d.save_to(&mut again)) { Ok(Ok(())) => {}, other => return Some(("save-again".into(), format!("second save failed: {} {}", show(other), after), input(&f.tag(), n))) }
                    if let Err(e) = loads_to(&again, &content) { return Some(("save-again-loads".into(), format!("{} {}", e, after), input(&f.tag(), n))); }
                }
                Later::Inc(mut inc) => {
                    let mut again = vec![];
                    match caught(|| inc.save_to(&mut again)) { Ok(Ok(())) => {}, other => return Some(("save-again".into(), format!("second save of the incremental document failed: {} {}", show(other), after), input(&f.tag(), n))) }
                    if let Err(e) = loads_to(&again, &content) { return Some(("save-again-loads".into(), format!("incremental document saved again: {} {}", e, after), input(&f.tag(), n))); }
                }
            }
        }
        n += step;
    }
    // 3. transient Interrupted at every call index must be retried transparently
    let calls = reference.calls;
    let cstep = if thorough || calls < 200 { 1 } else { 5 };
    let mut c = 0;
    while c < calls {
        let (r, s) = ctx.run(Mode::InterruptAt(c, 1 << 20));
        rep.case(true);
        match r {
            Ok(Ok(())) => { if s.delivered != full { return Some(("interrupted-transparent".into(), format!("output differs after an Interrupted result at call {}", c), input("interrupt", c))); } }
            other => return Some(("interrupted-transparent".into(), format!("Interrupted at sink call {} was not retried: {}", c, show(other)), input("interrupt", c))),
        }
        c += cstep;
    }
    None
}

fn first_diff(a: &[u8], b: &[u8]) -> usize { a.iter().zip(b.iter()).position(|(x, y)| x != y).unwrap_or(a.len().min(b.len())) }

fn excerpt(b: &[u8], at: usize) -> String { String::from_utf8_lossy(&b[at.min(b.len())..(at + 16).min(b.len())]).into_owned() }

pub fn sinks(thorough: bool) -> Report {
    let mut rep = Report::new("documents: (a) every 3rd of gen::docs plus every document of gen::docs that holds a stream object (quick) / all of gen::docs (thorough); (b) dictionary keys over the name alphabet: key in {Name, empty name, 'A#B C/(d)%\\0\\xff\\r\\n' (the names of gen::leaves), Latin-1 'Caf\\xe9', UTF-8 'ete' with acute accents, lone \\x80, truncated 'K\\xc3'} x dictionary position {object dictionary, nested in a dictionary, inside an array, stream dictionary, trailer} x value kind {integer, literal string, the same name, array, dictionary with the same key, reference} (quick: one value kind per key and position, Latin square, 35 documents; thorough: all 210); all x both xref formats. Histories: every document x origin {built in memory (failing save: plain, or incremental over a two-object base file written by lopdf), loaded from the file lopdf itself writes for it, loaded from another producer's file (independent writer: comment line before every object, spaces inside dictionaries and arrays, #-escaped names, octal-escaped strings, CRLF around stream data, blank line after endobj; classic table in subsections or xref stream with W [1 4 2], after the document's format), loaded from a file of two revisions (the two-object base + lopdf's incremental update holding the objects at number+10)} (loaded origins: failing save plain; chunkings and Interrupted as for built documents) x later save {plain save_to of the same value: must load to the content the document had before the failed save; (loaded origins) incremental update: the same value and the bytes it was loaded from given to IncrementalDocument::create_from, one dictionary object added with add_object, saved to a healthy sink: must start with the original bytes and load to the original content plus the added object (left out for a document whose update does not work without any failed save either); (incremental failing save) the same IncrementalDocument saved again: must load to base content + objects}; later saves are run at every limit visited, once per distinct value the failed save leaves behind (values told apart by their Debug rendering). Failing sinks: every limit n in 0..len (stride 7 beyond 400 bytes in quick) x {hard error, zero-length write} x {the write crossing n is split at n and the next call fails, a write that does not fit below n is rejected whole} x {sink fails for good, sink fails one call and accepts every later call, (whole only) fixed-capacity sink that rejects exactly the calls that do not fit}; chunk sizes {1,3,19} (quick) / 1..9,13,64,4096; Interrupted at every sink call", false);
    let specs = docs(false);
    let stride = if thorough { 1 } else { 3 };
    let mut work: Vec<(Case, bool, Origin)> = vec![];
    for (k, s) in specs.iter().enumerate() {
        if k % stride != 0 && !holds_stream(s) { continue; }
        for inc in [false, true] { work.push((Case { spec: s.clone(), trailer: vec![] }, inc, Origin::Built)); }
        for origin in [Origin::Own, Origin::Foreign, Origin::Revised] { work.push((Case { spec: s.clone(), trailer: vec![] }, false, origin)); }
    }
    for c in key_docs(thorough) {
        for inc in [false, true] { work.push((c.clone(), inc, Origin::Built)); }
        for origin in [Origin::Own, Origin::Foreign, Origin::Revised] { work.push((c.clone(), false, origin)); }
    }
    // every work item is independent; results are folded in the order of the enumeration
    let threads = std::thread::available_parallelism().map(|n| n.get()).unwrap_or(4).min(16).min(work.len().max(1));
    let next = AtomicUsize::new(0);
    let results: Mutex<Vec<Option<(u64, u64, Option<(String, String, Value)>)>>> = Mutex::new(vec![None; work.len()]);
    with_hook(|| {
        std::thread::scope(|sc| {
            for _ in 0..threads {
                sc.spawn(|| loop {
                    let i = next.fetch_add(1, Ordering::SeqCst);
                    if i >= work.len() { break; }
                    let mut local = Report::new("", false);
                    let f = check(&work[i].0, work[i].1, work[i].2, thorough, &mut local);
                    results.lock().unwrap()[i] = Some((local.evaluations, local.nontrivial, f));
                });
            }
        });
    });
    for (i, r) in results.into_inner().unwrap().into_iter().enumerate() {
        let (ev, nt, f) = r.expect("every work item was evaluated");
        rep.evaluations += ev;
        rep.nontrivial += nt;
        if let Some((ob, d, input)) = f { rep.fail(&ob, d.clone(), input, d); }
        if i % 97 == 0 { rep.sample(format!("{}{}", describe(&work[i].0.spec), if work[i].0.trailer.is_empty() { String::new() } else { format!(" trailer+={:?}", work[i].0.trailer) })); }
    }
    rep
}

pub fn replay(v: &Value) -> Result<(), String> {
    let spec = spec_from_json(&v["spec"]);
    let mut trailer = vec![];
    for e in v["trailer"].as_array().cloned().unwrap_or_default() { trailer.push((unhex(e[0].as_str().unwrap_or("")), obj_from_json(&e[1]))); }
    let case = Case { spec, trailer };
    let mut rep = Report::new("", false);
    match with_hook(|| check(&case, v["incremental"].as_bool().unwrap_or(false), Origin::from_tag(v["origin"].as_str().unwrap_or("built")), true, &mut rep)) { None => Ok(()), Some((o, d, _)) => Err(format!("{}: {}", o, d)) }
}
