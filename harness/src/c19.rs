//! C19: saving reports sink failures and ignores sink chunking (every failure offset, every chunking, Interrupted).
//!
//! Family of sinks that fail. "The sink fails at any point" fixes neither how much of the crossing write the sink takes
//! nor what the sink does with calls made after the failure, so both are dimensions of the family:
//!   limit n        every byte offset of the complete output
//!   kind           hard error | zero-length write
//!   granularity    split: the write that crosses n is accepted up to n, the next call fails
//!                  whole: a write that does not fit below n is rejected as a whole (all-or-nothing sink)
//!   persistence    forever: every later call fails too
//!                  once: exactly one call fails, every later call is accepted (one-shot error; the most permissive sink:
//!                        any non-empty write made after the failure is delivered)
//!                  while-too-big (whole only): fixed capacity n, each call judged alone: rejected iff it does not fit
//! The oracle is the property statement itself: no panic, save returns Err, delivered bytes are a prefix of the output
//! of the healthy save, and a later save of the same document value loads to the same content.
//!
//! Family of documents: gen::docs, plus a family in which dictionary KEYS range over the name alphabet (gen::docs only
//! uses ASCII keys although keys are names, i.e. arbitrary byte strings) in every place a dictionary can occur.
use crate::c03::{obj_from_json, obj_json, spec_from_json};
use crate::common::*;
use crate::gen::*;
use crate::sinks::{Mode, Sink};
use lopdf::{Document, IncrementalDocument, Object, Stream};
use serde_json::{json, Value};
use std::cell::RefCell;
use std::io::Write;
use std::sync::atomic::{AtomicUsize, Ordering};
use std::sync::Mutex;

// ---------------------------------------------------------------------------------------------------------------------
// documents

/// a document of the family: a gen::DocSpec plus trailer entries (gen::build cannot express arbitrary trailer keys)
#[derive(Clone)]
pub struct Case {
    pub spec: DocSpec,
    pub trailer: Vec<(Vec<u8>, Object)>,
}

fn build_case(c: &Case) -> Document {
    let mut d = build(&c.spec);
    for (k, v) in &c.trailer { d.trailer.set(k.clone(), v.clone()); }
    d
}

/// key alphabet: every name of the leaf alphabet, plus the byte classes of names that are text in some encoding or in none
pub fn key_alphabet() -> Vec<Vec<u8>> {
    let mut keys: Vec<Vec<u8>> = leaves().into_iter().filter_map(|o| match o { Object::Name(n) => Some(n), _ => None }).collect();
    keys.push(b"Caf\xe9".to_vec());             // Latin-1 (PDFDocEncoding) text, not UTF-8
    keys.push("\u{e9}t\u{e9}".as_bytes().to_vec()); // UTF-8 multi-byte text
    keys.push(b"\x80".to_vec());                // lone continuation byte
    keys.push(b"K\xc3".to_vec());               // truncated multi-byte sequence
    keys
}

const POSITIONS: [&str; 5] = ["object dictionary", "dictionary nested in a dictionary", "dictionary inside an array", "stream dictionary", "trailer"];

fn key_values(key: &[u8]) -> Vec<Object> {
    vec![
        Object::Integer(-42),
        lit(b"plain text"),
        Object::Name(key.to_vec()),
        Object::Array(vec![Object::Integer(1), lit(b"(")]),
        Object::Dictionary(dict(vec![(key, Object::Null)])),
        Object::Reference((1, 0)),
    ]
}

fn key_doc(key: &[u8], position: usize, value: Object, xref_stream: bool) -> Case {
    let entry = dict(vec![(key, value.clone())]);
    let mut trailer = vec![];
    let first = match position {
        0 => Object::Dictionary(dict(vec![(key, value), (b"Z", Object::Integer(1))])),
        1 => Object::Dictionary(dict(vec![(b"Outer", Object::Dictionary(entry))])),
        2 => Object::Array(vec![Object::Integer(7), Object::Dictionary(entry)]),
        3 => Object::Stream(Stream::new(entry, b"stream body".to_vec())),
        _ => { trailer.push((key.to_vec(), value)); Object::Dictionary(dict(vec![(b"Type", name(b"Catalog"))])) }
    };
    Case { spec: DocSpec { objects: vec![((1, 0), first), ((2, 0), lit(b"after"))], xref_stream, version: "1.5".into(), extra_trailer: false, max_id_slack: 0 }, trailer }
}

/// key x position x value kind x xref format; quick takes one value kind per (key, position) so that every value kind
/// meets every key and every position (Latin square), thorough takes the full product
pub fn key_docs(thorough: bool) -> Vec<Case> {
    let mut out = vec![];
    for xs in [false, true] {
        for (ki, key) in key_alphabet().iter().enumerate() {
            for p in 0..POSITIONS.len() {
                let vals = key_values(key);
                for (vi, v) in vals.iter().enumerate() {
                    if thorough || vi == (ki + p) % vals.len() { out.push(key_doc(key, p, v.clone(), xs)); }
                }
            }
        }
    }
    out
}

fn holds_stream(s: &DocSpec) -> bool { s.objects.iter().any(|(_, o)| matches!(o, Object::Stream(_))) }

fn case_json(c: &Case) -> Value {
    let s = &c.spec;
    json!({"xref_stream": s.xref_stream, "version": s.version, "slack": s.max_id_slack, "extra_trailer": s.extra_trailer,
           "objects": s.objects.iter().map(|(id, o)| json!({"id": id.0, "gen": id.1, "obj": obj_json(o)})).collect::<Vec<_>>()})
}

// ---------------------------------------------------------------------------------------------------------------------
// panics, usable from several threads (common::guarded swaps the process-wide hook on every call)

thread_local! { static PANIC_AT: RefCell<String> = RefCell::new(String::new()); }

fn with_hook<T>(f: impl FnOnce() -> T) -> T {
    let prev = std::panic::take_hook();
    std::panic::set_hook(Box::new(|info| {
        let at = info.location().map(|l| format!("{}:{}", l.file(), l.line())).unwrap_or_default();
        PANIC_AT.with(|p| *p.borrow_mut() = at);
    }));
    let r = f();
    std::panic::set_hook(prev);
    r
}

fn caught<T>(f: impl FnOnce() -> T) -> Result<T, String> {
    PANIC_AT.with(|p| p.borrow_mut().clear());
    std::panic::catch_unwind(std::panic::AssertUnwindSafe(f)).map_err(|e| {
        let msg = if let Some(s) = e.downcast_ref::<String>() { s.clone() } else if let Some(s) = e.downcast_ref::<&str>() { s.to_string() } else { "panic".to_string() };
        format!("{} at {}", msg, PANIC_AT.with(|p| p.borrow().clone()))
    })
}

// ---------------------------------------------------------------------------------------------------------------------
// sinks that fail

#[derive(Clone, Copy, PartialEq, Debug)]
pub enum Kind { Hard, Zero }
#[derive(Clone, Copy, PartialEq, Debug)]
pub enum Gran { Split, Whole }
#[derive(Clone, Copy, PartialEq, Debug)]
pub enum Persist { Forever, Once, WhileTooBig }

#[derive(Clone, Copy, PartialEq, Debug)]
pub struct Failing { pub limit: usize, pub kind: Kind, pub gran: Gran, pub persist: Persist }

impl Failing {
    fn all(limit: usize) -> Vec<Failing> {
        let mut v = vec![];
        for kind in [Kind::Hard, Kind::Zero] {
            for (gran, persist) in [(Gran::Split, Persist::Forever), (Gran::Split, Persist::Once), (Gran::Whole, Persist::Forever), (Gran::Whole, Persist::Once), (Gran::Whole, Persist::WhileTooBig)] {
                v.push(Failing { limit, kind, gran, persist });
            }
        }
        v
    }
    fn tag(&self) -> String {
        format!("{}/{}/{}", match self.kind { Kind::Hard => "fail", Kind::Zero => "zero" }, match self.gran { Gran::Split => "split", Gran::Whole => "whole" },
                match self.persist { Persist::Forever => "forever", Persist::Once => "once", Persist::WhileTooBig => "while-too-big" })
    }
    fn words(&self) -> String {
        format!("sink with limit {}: {}, answers {}, {}", self.limit,
                match self.gran { Gran::Split => "takes the part of the crossing write that fits", Gran::Whole => "rejects a write that does not fit as a whole" },
                match self.kind { Kind::Hard => "with a hard error", Kind::Zero => "Ok(0)" },
                match self.persist { Persist::Forever => "keeps failing afterwards", Persist::Once => "fails one call only and accepts every later call", Persist::WhileTooBig => "still accepts later writes that fit (fixed capacity)" })
    }
}

pub struct FailingSink {
    pub f: Failing,
    pub delivered: Vec<u8>,
    /// calls answered with the failure
    pub failures: usize,
}

impl FailingSink {
    fn new(f: Failing) -> FailingSink { FailingSink { f, delivered: vec![], failures: 0 } }
    fn fail(&mut self) -> std::io::Result<usize> {
        self.failures += 1;
        match self.f.kind { Kind::Hard => Err(std::io::Error::new(std::io::ErrorKind::Other, "sink failed")), Kind::Zero => Ok(0) }
    }
    fn take(&mut self, b: &[u8]) -> std::io::Result<usize> { self.delivered.extend_from_slice(b); Ok(b.len()) }
}

impl Write for FailingSink {
    fn write(&mut self, buf: &[u8]) -> std::io::Result<usize> {
        if buf.is_empty() { return Ok(0); }
        if self.failures > 0 {
            match self.f.persist {
                Persist::Forever => return self.fail(),
                Persist::Once => return self.take(buf),
                Persist::WhileTooBig => {}
            }
        }
        let room = self.f.limit.saturating_sub(self.delivered.len());
        match self.f.gran {
            Gran::Split => if room == 0 { self.fail() } else { self.take(&buf[..buf.len().min(room)]) },
            Gran::Whole => if buf.len() > room { self.fail() } else { self.take(buf) },
        }
    }
    fn flush(&mut self) -> std::io::Result<()> { Ok(()) }
}

// ---------------------------------------------------------------------------------------------------------------------
// the check

type Saved = Result<Result<(), std::io::Error>, String>;

struct Ctx<'a> {
    case: &'a Case,
    /// incremental save: bytes and loaded form of the previous revision
    base: Option<(Vec<u8>, Document)>,
}

impl<'a> Ctx<'a> {
    fn new(case: &'a Case, incremental: bool) -> Ctx<'a> {
        let base = if incremental {
            let base_spec = DocSpec { objects: vec![((1, 0), name(b"Base")), ((2, 0), lit(b"old"))], xref_stream: case.spec.xref_stream, version: "1.5".into(), extra_trailer: false, max_id_slack: 0 };
            let mut bytes = vec![];
            build(&base_spec).save_to(&mut bytes).unwrap();
            let prev = Document::load_mem(&bytes).unwrap();
            Some((bytes, prev))
        } else { None };
        Ctx { case, base }
    }
    fn save<W: Write>(&self, sink: &mut W) -> (Saved, Option<Document>) {
        match &self.base {
            Some((bytes, prev)) => {
                let mut inc = IncrementalDocument::create_from(bytes.clone(), prev.clone());
                for (id, o) in &self.case.spec.objects {
                    inc.new_document.objects.insert((id.0 + 10, id.1), o.clone());
                    inc.new_document.max_id = inc.new_document.max_id.max(id.0 + 10);
                }
                for (k, v) in &self.case.trailer { inc.new_document.trailer.set(k.clone(), v.clone()); }
                (caught(|| inc.save_to(sink)), None)
            }
            None => {
                let mut d = build_case(self.case);
                let r = caught(|| d.save_to(sink));
                (r, Some(d))
            }
        }
    }
    fn run(&self, mode: Mode) -> (Saved, Sink) {
        let mut sink = Sink::new(mode);
        let (r, _) = self.save(&mut sink);
        (r, sink)
    }
}

fn show(r: Saved) -> String { format!("{:?}", r.map(|x| x.map_err(|e| e.to_string()))) }

pub fn check(case: &Case, incremental: bool, thorough: bool, rep: &mut Report) -> Option<(String, String, Value)> {
    let input = |mode: &str, n: usize| json!({"spec": case_json(case), "trailer": case.trailer.iter().map(|(k, v)| json!([hex(k), obj_json(v)])).collect::<Vec<_>>(),
                                               "incremental": incremental, "mode": mode, "n": n});
    let ctx = Ctx::new(case, incremental);
    let (r, reference) = ctx.run(Mode::Healthy);
    match r { Ok(Ok(())) => {}, other => return Some(("healthy-save".into(), show(other), input("healthy", 0))) }
    let full = reference.delivered;
    // 1. chunkings
    let ks: Vec<usize> = if thorough { (1..=9).chain([13, 64, 4096]).collect() } else { vec![1, 3, 19] };
    for k in ks {
        let (r, s) = ctx.run(Mode::Chunk(k));
        rep.case(true);
        match r {
            Ok(Ok(())) => { if s.delivered != full { return Some(("chunking-independent".into(), format!("output differs from the unchunked output when the sink accepts {} bytes per call (first difference at {})", k, first_diff(&s.delivered, &full)), input("chunk", k))); } }
            other => return Some(("chunking-independent".into(), format!("save failed under chunking {}: {}", k, show(other)), input("chunk", k))),
        }
    }
    // 2. every failure offset x kind x granularity x persistence
    let step = if thorough || full.len() < 400 { 1 } else { 7 };
    let mut n = 0;
    while n < full.len() {
        for f in Failing::all(n) {
            let mut s = FailingSink::new(f);
            let (r, d) = ctx.save(&mut s);
            // n < full.len(), so a writer that sends the complete output must meet the failure
            rep.case(s.failures > 0);
            match r {
                Err(p) => return Some(("failure-no-panic".into(), format!("save panicked instead of returning an error ({}; {} of {} bytes delivered): {}", f.words(), s.delivered.len(), full.len(), p), input(&f.tag(), n))),
                Ok(Ok(())) => return Some(("failure-reported".into(), format!("save returned Ok although the sink failed {} call(s) ({}; {} of {} bytes delivered)", s.failures, f.words(), s.delivered.len(), full.len()), input(&f.tag(), n))),
                Ok(Err(_)) => {}
            }
            if !full.starts_with(&s.delivered) {
                let at = first_diff(&s.delivered, &full);
                return Some(("delivered-is-prefix".into(), format!("the {} bytes delivered are not a prefix of the complete output ({} bytes): they differ from byte {} on, delivered {:?} where the complete output has {:?} ({}; {} call(s) failed; bytes sent after the reported failure were accepted)",
                    s.delivered.len(), full.len(), at, excerpt(&s.delivered, at), excerpt(&full, at), f.words(), s.failures), input(&f.tag(), n)));
            }
            if let Some(mut d) = d {
                // a later save of the same document value to a healthy sink gives a file that loads to the same content
                if n % 5 == 0 {
                    let mut again = vec![];
                    match caught(|| d.save_to(&mut again)) { Ok(Ok(())) => {}, other => return Some(("save-again".into(), format!("second save failed: {}", show(other)), input(&f.tag(), n))) }
                    let loaded = match caught(|| Document::load_mem(&again)) { Ok(Ok(l)) => l, Ok(Err(e)) => return Some(("save-again-loads".into(), format!("load failed: {}", e), input(&f.tag(), n))), Err(p) => return Some(("save-again-loads".into(), format!("load panicked: {}", p), input(&f.tag(), n))) };
                    if let Err(e) = crate::c01::compare(&build_case(case), &loaded) { return Some(("save-again-loads".into(), e, input(&f.tag(), n))); }
                }
            }
        }
        n += step;
    }
    // 3. transient Interrupted at every call index must be retried transparently
    let calls = reference.calls;
    let cstep = if thorough || calls < 200 { 1 } else { 5 };
    let mut c = 0;
    while c < calls {
        let (r, s) = ctx.run(Mode::InterruptAt(c, 1 << 20));
        rep.case(true);
        match r {
            Ok(Ok(())) => { if s.delivered != full { return Some(("interrupted-transparent".into(), format!("output differs after an Interrupted result at call {}", c), input("interrupt", c))); } }
            other => return Some(("interrupted-transparent".into(), format!("Interrupted at sink call {} was not retried: {}", c, show(other)), input("interrupt", c))),
        }
        c += cstep;
    }
    None
}

fn first_diff(a: &[u8], b: &[u8]) -> usize { a.iter().zip(b.iter()).position(|(x, y)| x != y).unwrap_or(a.len().min(b.len())) }

fn excerpt(b: &[u8], at: usize) -> String { String::from_utf8_lossy(&b[at.min(b.len())..(at + 16).min(b.len())]).into_owned() }

pub fn sinks(thorough: bool) -> Report {
    let mut rep = Report::new("documents: (a) every 3rd of gen::docs plus every document of gen::docs that holds a stream object (quick) / all of gen::docs (thorough); (b) dictionary keys over the name alphabet: key in {Name, empty name, 'A#B C/(d)%\\0\\xff\\r\\n' (the names of gen::leaves), Latin-1 'Caf\\xe9', UTF-8 'ete' with acute accents, lone \\x80, truncated 'K\\xc3'} x dictionary position {object dictionary, nested in a dictionary, inside an array, stream dictionary, trailer} x value kind {integer, literal string, the same name, array, dictionary with the same key, reference} (quick: one value kind per key and position, Latin square, 35 documents; thorough: all 210); all x both xref formats x plain+incremental. Failing sinks: every limit n in 0..len (stride 7 beyond 400 bytes in quick) x {hard error, zero-length write} x {the write crossing n is split at n and the next call fails, a write that does not fit below n is rejected whole} x {sink fails for good, sink fails one call and accepts every later call, (whole only) fixed-capacity sink that rejects exactly the calls that do not fit}; chunk sizes {1,3,19} (quick) / 1..9,13,64,4096; Interrupted at every sink call", false);
    let specs = docs(false);
    let stride = if thorough { 1 } else { 3 };
    let mut work: Vec<(Case, bool)> = vec![];
    for (k, s) in specs.iter().enumerate() {
        if k % stride != 0 && !holds_stream(s) { continue; }
        for inc in [false, true] { work.push((Case { spec: s.clone(), trailer: vec![] }, inc)); }
    }
    for c in key_docs(thorough) {
        for inc in [false, true] { work.push((c.clone(), inc)); }
    }
    // every work item is independent; results are folded in the order of the enumeration
    let threads = std::thread::available_parallelism().map(|n| n.get()).unwrap_or(4).min(16).min(work.len().max(1));
    let next = AtomicUsize::new(0);
    let results: Mutex<Vec<Option<(u64, u64, Option<(String, String, Value)>)>>> = Mutex::new(vec![None; work.len()]);
    with_hook(|| {
        std::thread::scope(|sc| {
            for _ in 0..threads {
                sc.spawn(|| loop {
                    let i = next.fetch_add(1, Ordering::SeqCst);
                    if i >= work.len() { break; }
                    let mut local = Report::new("", false);
                    let f = check(&work[i].0, work[i].1, thorough, &mut local);
                    results.lock().unwrap()[i] = Some((local.evaluations, local.nontrivial, f));
                });
            }
        });
    });
    for (i, r) in results.into_inner().unwrap().into_iter().enumerate() {
        let (ev, nt, f) = r.expect("every work item was evaluated");
        rep.evaluations += ev;
        rep.nontrivial += nt;
        if let Some((ob, d, input)) = f { rep.fail(&ob, d.clone(), input, d); }
        if i % 97 == 0 { rep.sample(format!("{}{}", describe(&work[i].0.spec), if work[i].0.trailer.is_empty() { String::new() } else { format!(" trailer+={:?}", work[i].0.trailer) })); }
    }
    rep
}

pub fn replay(v: &Value) -> Result<(), String> {
    let spec = spec_from_json(&v["spec"]);
    let mut trailer = vec![];
    for e in v["trailer"].as_array().cloned().unwrap_or_default() { trailer.push((unhex(e[0].as_str().unwrap_or("")), obj_from_json(&e[1]))); }
    let case = Case { spec, trailer };
    let mut rep = Report::new("", false);
    match with_hook(|| check(&case, v["incremental"].as_bool().unwrap_or(false), true, &mut rep)) { None => Ok(()), Some((o, d, _)) => Err(format!("{}: {}", o, d)) }
}
